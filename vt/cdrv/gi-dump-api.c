/* Walks the whole public girepository API for one namespace and prints a JSON document in the neutral form of
 * vt/tlexpect.py (FromTypelib.model), so that the independent decode of the same bytes can be compared with what the
 * accessors report.  Consistency between different access paths (find_by_name vs get_info, iterate_attributes vs
 * get_attribute, find_method/signal/vfunc, get_container) is asserted here; disagreements are printed as
 * "INCONSISTENT ..." lines on stderr.
 *
 * usage: gi-dump-api <dir> <namespace> <version>
 */
#include <glib.h>
#include <glib-object.h>
#include <girepository.h>
#include <stdio.h>
#include <stdlib.h>
#include <string.h>

static GString *out;
static int inconsistencies = 0;

static void
jstr (const char *s)
{
  const unsigned char *p;
  if (s == NULL)
    {
      g_string_append (out, "null");
      return;
    }
  g_string_append_c (out, '"');
  for (p = (const unsigned char *) s; *p; p++)
    {
      if (*p == '"' || *p == '\\')
        g_string_append_printf (out, "\\%c", *p);
      else if (*p < 0x20)
        g_string_append_printf (out, "\\u%04x", *p);
      else
        g_string_append_c (out, *p);
    }
  g_string_append_c (out, '"');
}

static void
jbool (gboolean b)
{
  g_string_append (out, b ? "true" : "false");
}

static void
inconsistent (const char *fmt, ...)
{
  va_list ap;
  inconsistencies++;
  va_start (ap, fmt);
  fprintf (stderr, "INCONSISTENT ");
  vfprintf (stderr, fmt, ap);
  fprintf (stderr, "\n");
  va_end (ap);
}

static int
cmp_attr (const void *a, const void *b)
{
  char **x = *(char ***) a, **y = *(char ***) b;
  int r = strcmp (x[0], y[0]);
  return r ? r : strcmp (x[1], y[1]);
}

/* attributes by iteration, sorted; each one cross-checked through get_attribute */
static void
attributes (GIBaseInfo *info)
{
  GIAttributeIter iter = { 0, };
  char *name, *value;
  GPtrArray *arr = g_ptr_array_new ();
  guint i;

  while (g_base_info_iterate_attributes (info, &iter, &name, &value))
    {
      const char *direct = g_base_info_get_attribute (info, name);
      char **pair = g_new (char *, 2);
      if (direct == NULL || strcmp (direct, value) != 0)
        inconsistent ("attribute %s of %s: iterate says '%s', get_attribute says '%s'", name,
                      g_base_info_get_name (info) ? g_base_info_get_name (info) : "?", value, direct ? direct : "(null)");
      pair[0] = name;
      pair[1] = value;
      g_ptr_array_add (arr, pair);
    }
  if (g_base_info_get_attribute (info, "vt.no-such-attribute") != NULL)
    inconsistent ("get_attribute finds an attribute that does not exist");
  if (arr->len > 1)
    qsort (arr->pdata, arr->len, sizeof (gpointer), cmp_attr);
  g_string_append_c (out, '[');
  for (i = 0; i < arr->len; i++)
    {
      char **pair = arr->pdata[i];
      if (i)
        g_string_append_c (out, ',');
      g_string_append_c (out, '[');
      jstr (pair[0]);
      g_string_append_c (out, ',');
      jstr (pair[1]);
      g_string_append_c (out, ']');
      g_free (pair);
    }
  g_string_append_c (out, ']');
  g_ptr_array_free (arr, TRUE);
}

static const char *
transfer_name (GITransfer t)
{
  switch (t)
    {
    case GI_TRANSFER_NOTHING: return "nothing";
    case GI_TRANSFER_CONTAINER: return "container";
    case GI_TRANSFER_EVERYTHING: return "everything";
    default: return "?";
    }
}

static void
qualified (GIBaseInfo *info)
{
  char *s;
  if (info == NULL)
    {
      g_string_append (out, "null");
      return;
    }
  s = g_strdup_printf ("%s.%s", g_base_info_get_namespace (info), g_base_info_get_name (info));
  jstr (s);
  g_free (s);
}

static void
type_json (GITypeInfo *t)
{
  GITypeTag tag = g_type_info_get_tag (t);
  switch (tag)
    {
    case GI_TYPE_TAG_ARRAY:
      {
        GIArrayType at = g_type_info_get_array_type (t);
        const char *names[] = { "c", "array", "ptr_array", "byte_array" };
        GITypeInfo *p = g_type_info_get_param_type (t, 0);
        int len = g_type_info_get_array_length (t), size = g_type_info_get_array_fixed_size (t);
        g_string_append_printf (out, "[\"array\",\"%s\",%s,", names[at], g_type_info_is_zero_terminated (t) ? "true" : "false");
        if (len >= 0) g_string_append_printf (out, "%d,", len); else g_string_append (out, "null,");
        if (size >= 0) g_string_append_printf (out, "%d,", size); else g_string_append (out, "null,");
        type_json (p);
        g_string_append_c (out, ']');
        g_base_info_unref ((GIBaseInfo *) p);
        break;
      }
    case GI_TYPE_TAG_INTERFACE:
      {
        GIBaseInfo *iface = g_type_info_get_interface (t);
        g_string_append (out, "[\"iface\",");
        qualified (iface);
        g_string_append_c (out, ']');
        if (iface)
          g_base_info_unref (iface);
        break;
      }
    case GI_TYPE_TAG_GLIST:
    case GI_TYPE_TAG_GSLIST:
      {
        GITypeInfo *p = g_type_info_get_param_type (t, 0);
        g_string_append_printf (out, "[\"%s\",", tag == GI_TYPE_TAG_GLIST ? "glist" : "gslist");
        type_json (p);
        g_string_append_c (out, ']');
        g_base_info_unref ((GIBaseInfo *) p);
        break;
      }
    case GI_TYPE_TAG_GHASH:
      {
        GITypeInfo *k = g_type_info_get_param_type (t, 0), *v = g_type_info_get_param_type (t, 1);
        g_string_append (out, "[\"ghash\",");
        type_json (k);
        g_string_append_c (out, ',');
        type_json (v);
        g_string_append_c (out, ']');
        g_base_info_unref ((GIBaseInfo *) k);
        g_base_info_unref ((GIBaseInfo *) v);
        break;
      }
    case GI_TYPE_TAG_ERROR:
      g_string_append (out, "[\"error\"]");
      break;
    case GI_TYPE_TAG_VOID:
      g_string_append_printf (out, "[\"basic\",\"void\",%s]", g_type_info_is_pointer (t) ? "true" : "false");
      break;
    default:
      g_string_append_printf (out, "[\"basic\",\"%s\",null]", g_type_tag_to_string (tag));
      break;
    }
}

static void
signature_json (GICallableInfo *c)
{
  int i, n = g_callable_info_get_n_args (c);
  GITypeInfo *rt = g_callable_info_get_return_type (c);
  GIAttributeIter iter = { 0, };
  char *name, *value;
  GPtrArray *arr = g_ptr_array_new ();
  guint k;
  const char *scopes[] = { "invalid", "call", "async", "notified", "forever" };

  g_string_append (out, "{\"args\":[");
  for (i = 0; i < n; i++)
    {
      GIArgInfo *a = g_callable_info_get_arg (c, i);
      GITypeInfo *at = g_arg_info_get_type (a);
      GIDirection d = g_arg_info_get_direction (a);
      GIScopeType sc = g_arg_info_get_scope (a);
      GIArgInfo loaded;
      GITypeInfo loaded_type;

      if (i)
        g_string_append_c (out, ',');
      g_string_append (out, "{\"name\":");
      jstr (g_base_info_get_name ((GIBaseInfo *) a));
      g_string_append_printf (out, ",\"direction\":\"%s\"", d == GI_DIRECTION_IN ? "in" : d == GI_DIRECTION_OUT ? "out" : "inout");
      g_string_append (out, ",\"caller_allocates\":"); jbool (g_arg_info_is_caller_allocates (a));
      g_string_append (out, ",\"nullable\":"); jbool (g_arg_info_may_be_null (a));
      g_string_append (out, ",\"optional\":"); jbool (g_arg_info_is_optional (a));
      g_string_append_printf (out, ",\"transfer\":\"%s\"", transfer_name (g_arg_info_get_ownership_transfer (a)));
      g_string_append_printf (out, ",\"scope\":\"%s\"", (guint) sc < 5 ? scopes[sc] : "?");
      g_string_append_printf (out, ",\"closure\":%d,\"destroy\":%d", g_arg_info_get_closure (a), g_arg_info_get_destroy (a));
      g_string_append (out, ",\"skip\":"); jbool (g_arg_info_is_skip (a));
      g_string_append (out, ",\"type\":");
      type_json (at);
      g_string_append (out, ",\"attributes\":");
      attributes ((GIBaseInfo *) a);
      g_string_append_c (out, '}');
      /* stack-allocated access path must agree */
      g_callable_info_load_arg (c, i, &loaded);
      g_arg_info_load_type (&loaded, &loaded_type);
      if (g_arg_info_get_direction (&loaded) != d || g_type_info_get_tag (&loaded_type) != g_type_info_get_tag (at)
          || g_arg_info_get_closure (&loaded) != g_arg_info_get_closure (a))
        inconsistent ("load_arg/load_type disagree with get_arg for argument %d of %s", i, g_base_info_get_name ((GIBaseInfo *) c));
      g_base_info_unref ((GIBaseInfo *) at);
      g_base_info_unref ((GIBaseInfo *) a);
    }
  g_string_append (out, "],\"ret\":");
  type_json (rt);
  g_string_append_printf (out, ",\"ret_transfer\":\"%s\"", transfer_name (g_callable_info_get_caller_owns (c)));
  g_string_append (out, ",\"may_return_null\":"); jbool (g_callable_info_may_return_null (c));
  g_string_append (out, ",\"skip_return\":"); jbool (g_callable_info_skip_return (c));
  g_string_append (out, ",\"throws\":"); jbool (g_callable_info_can_throw_gerror (c));
  g_string_append (out, ",\"instance_transfer\":"); jbool (g_callable_info_get_instance_ownership_transfer (c) == GI_TRANSFER_EVERYTHING);
  while (g_callable_info_iterate_return_attributes (c, &iter, &name, &value))
    {
      const char *direct = g_callable_info_get_return_attribute (c, name);
      char **pair = g_new (char *, 2);
      if (direct == NULL || strcmp (direct, value) != 0)
        inconsistent ("return attribute %s: iterate '%s' vs get '%s'", name, value, direct ? direct : "(null)");
      pair[0] = name;
      pair[1] = value;
      g_ptr_array_add (arr, pair);
    }
  if (arr->len > 1)
    qsort (arr->pdata, arr->len, sizeof (gpointer), cmp_attr);
  g_string_append (out, ",\"ret_attributes\":[");
  for (k = 0; k < arr->len; k++)
    {
      char **pair = arr->pdata[k];
      if (k)
        g_string_append_c (out, ',');
      g_string_append_c (out, '[');
      jstr (pair[0]);
      g_string_append_c (out, ',');
      jstr (pair[1]);
      g_string_append_c (out, ']');
      g_free (pair);
    }
  g_ptr_array_free (arr, TRUE);
  g_string_append (out, "]}");
  g_base_info_unref ((GIBaseInfo *) rt);
}

static void
function_json (GIFunctionInfo *f, gboolean in_type)
{
  GIFunctionInfoFlags fl = g_function_info_get_flags (f);
  g_string_append (out, "{\"name\":");
  jstr (g_base_info_get_name ((GIBaseInfo *) f));
  g_string_append (out, ",\"symbol\":");
  jstr (g_function_info_get_symbol (f));
  g_string_append (out, ",\"constructor\":"); jbool ((fl & GI_FUNCTION_IS_CONSTRUCTOR) != 0);
  g_string_append (out, ",\"is_method\":"); jbool (in_type && (fl & GI_FUNCTION_IS_METHOD) != 0);
  g_string_append (out, ",\"throws\":"); jbool ((fl & GI_FUNCTION_THROWS) != 0);
  g_string_append (out, ",\"deprecated\":"); jbool (g_base_info_is_deprecated ((GIBaseInfo *) f));
  g_string_append (out, ",\"signature\":");
  signature_json ((GICallableInfo *) f);
  g_string_append (out, ",\"attributes\":");
  attributes ((GIBaseInfo *) f);
  if (((fl & GI_FUNCTION_IS_METHOD) != 0) != g_callable_info_is_method ((GICallableInfo *) f))
    inconsistent ("g_callable_info_is_method disagrees with function flags for %s", g_base_info_get_name ((GIBaseInfo *) f));
  g_string_append_c (out, '}');
}

static void
field_json (GIFieldInfo *f, GIBaseInfo *container)
{
  GITypeInfo *t = g_field_info_get_type (f);
  GIFieldInfoFlags fl = g_field_info_get_flags (f);
  GIBaseInfo *c = g_base_info_get_container ((GIBaseInfo *) f);
  g_string_append (out, "{\"name\":");
  jstr (g_base_info_get_name ((GIBaseInfo *) f));
  g_string_append (out, ",\"readable\":"); jbool ((fl & GI_FIELD_IS_READABLE) != 0);
  g_string_append (out, ",\"writable\":"); jbool ((fl & GI_FIELD_IS_WRITABLE) != 0);
  g_string_append_printf (out, ",\"bits\":%d,\"offset\":%d,\"type\":", g_field_info_get_size (f), g_field_info_get_offset (f));
  if (g_type_info_get_tag (t) == GI_TYPE_TAG_INTERFACE)
    {
      GIBaseInfo *iface = g_type_info_get_interface (t);
      if (iface && g_base_info_get_type (iface) == GI_INFO_TYPE_CALLBACK && g_base_info_get_container (iface) != NULL
          && g_base_info_get_type (g_base_info_get_container (iface)) == GI_INFO_TYPE_TYPE)
        {
          g_string_append (out, "[\"callback\",");
          signature_json ((GICallableInfo *) iface);
          g_string_append_c (out, ']');
        }
      else
        type_json (t);
      if (iface)
        g_base_info_unref (iface);
    }
  else
    type_json (t);
  if (c == NULL || !g_base_info_equal (c, container))
    inconsistent ("container of field %s is not the type it was obtained from", g_base_info_get_name ((GIBaseInfo *) f));
  g_string_append_c (out, '}');
  g_base_info_unref ((GIBaseInfo *) t);
}

static void
constant_json (GIConstantInfo *c)
{
  GITypeInfo *t = g_constant_info_get_type (c);
  GIArgument v;
  GITypeTag tag = g_type_info_get_tag (t);
  g_string_append (out, "{\"name\":");
  jstr (g_base_info_get_name ((GIBaseInfo *) c));
  g_string_append (out, ",\"type\":");
  type_json (t);
  g_string_append (out, ",\"value\":");
  g_constant_info_get_value (c, &v);
  switch (tag)
    {
    case GI_TYPE_TAG_BOOLEAN: jbool (v.v_boolean); break;
    case GI_TYPE_TAG_INT8: g_string_append_printf (out, "%d", v.v_int8); break;
    case GI_TYPE_TAG_UINT8: g_string_append_printf (out, "%u", v.v_uint8); break;
    case GI_TYPE_TAG_INT16: g_string_append_printf (out, "%d", v.v_int16); break;
    case GI_TYPE_TAG_UINT16: g_string_append_printf (out, "%u", v.v_uint16); break;
    case GI_TYPE_TAG_INT32: g_string_append_printf (out, "%d", v.v_int32); break;
    case GI_TYPE_TAG_UINT32: case GI_TYPE_TAG_UNICHAR: g_string_append_printf (out, "%u", v.v_uint32); break;
    case GI_TYPE_TAG_INT64: g_string_append_printf (out, "%" G_GINT64_FORMAT, v.v_int64); break;
    case GI_TYPE_TAG_UINT64: g_string_append_printf (out, "%" G_GUINT64_FORMAT, v.v_uint64); break;
    case GI_TYPE_TAG_FLOAT: g_string_append_printf (out, "%.17g", (double) v.v_float); break;
    case GI_TYPE_TAG_DOUBLE: g_string_append_printf (out, "%.17g", v.v_double); break;
    case GI_TYPE_TAG_UTF8: case GI_TYPE_TAG_FILENAME: jstr (v.v_string); break;
    default: g_string_append (out, "null"); break;
    }
  g_constant_info_free_value (c, &v);
  g_string_append (out, ",\"deprecated\":"); jbool (g_base_info_is_deprecated ((GIBaseInfo *) c));
  g_string_append (out, ",\"attributes\":");
  attributes ((GIBaseInfo *) c);
  g_string_append_c (out, '}');
  g_base_info_unref ((GIBaseInfo *) t);
}

static void
property_json (GIPropertyInfo *p)
{
  GParamFlags fl = g_property_info_get_flags (p);
  GITypeInfo *t = g_property_info_get_type (p);
  GIFunctionInfo *s = g_property_info_get_setter (p), *g = g_property_info_get_getter (p);
  g_string_append (out, "{\"name\":");
  jstr (g_base_info_get_name ((GIBaseInfo *) p));
  g_string_append (out, ",\"readable\":"); jbool ((fl & G_PARAM_READABLE) != 0);
  g_string_append (out, ",\"writable\":"); jbool ((fl & G_PARAM_WRITABLE) != 0);
  g_string_append (out, ",\"construct\":"); jbool ((fl & G_PARAM_CONSTRUCT) != 0);
  g_string_append (out, ",\"construct_only\":"); jbool ((fl & G_PARAM_CONSTRUCT_ONLY) != 0);
  g_string_append_printf (out, ",\"transfer\":\"%s\",\"type\":", transfer_name (g_property_info_get_ownership_transfer (p)));
  type_json (t);
  g_string_append (out, ",\"deprecated\":"); jbool (g_base_info_is_deprecated ((GIBaseInfo *) p));
  g_string_append (out, ",\"setter\":"); jstr (s ? g_base_info_get_name ((GIBaseInfo *) s) : NULL);
  g_string_append (out, ",\"getter\":"); jstr (g ? g_base_info_get_name ((GIBaseInfo *) g) : NULL);
  g_string_append (out, ",\"attributes\":");
  attributes ((GIBaseInfo *) p);
  g_string_append_c (out, '}');
  if (s) g_base_info_unref ((GIBaseInfo *) s);
  if (g) g_base_info_unref ((GIBaseInfo *) g);
  g_base_info_unref ((GIBaseInfo *) t);
}

static void
signal_json (GISignalInfo *s)
{
  GSignalFlags fl = g_signal_info_get_flags (s);
  g_string_append (out, "{\"name\":");
  jstr (g_base_info_get_name ((GIBaseInfo *) s));
  g_string_append (out, ",\"run_first\":"); jbool ((fl & G_SIGNAL_RUN_FIRST) != 0);
  g_string_append (out, ",\"run_last\":"); jbool ((fl & G_SIGNAL_RUN_LAST) != 0);
  g_string_append (out, ",\"run_cleanup\":"); jbool ((fl & G_SIGNAL_RUN_CLEANUP) != 0);
  g_string_append (out, ",\"no_recurse\":"); jbool ((fl & G_SIGNAL_NO_RECURSE) != 0);
  g_string_append (out, ",\"detailed\":"); jbool ((fl & G_SIGNAL_DETAILED) != 0);
  g_string_append (out, ",\"action\":"); jbool ((fl & G_SIGNAL_ACTION) != 0);
  g_string_append (out, ",\"no_hooks\":"); jbool ((fl & G_SIGNAL_NO_HOOKS) != 0);
  g_string_append (out, ",\"signature\":");
  signature_json ((GICallableInfo *) s);
  g_string_append (out, ",\"attributes\":");
  attributes ((GIBaseInfo *) s);
  g_string_append_c (out, '}');
}

static void
vfunc_json (GIVFuncInfo *v)
{
  GIFunctionInfo *inv = g_vfunc_info_get_invoker (v);
  GIVFuncInfoFlags fl = g_vfunc_info_get_flags (v);
  g_string_append (out, "{\"name\":");
  jstr (g_base_info_get_name ((GIBaseInfo *) v));
  g_string_append (out, ",\"invoker\":"); jstr (inv ? g_base_info_get_name ((GIBaseInfo *) inv) : NULL);
  g_string_append (out, ",\"throws\":"); jbool ((fl & GI_VFUNC_THROWS) != 0);
  g_string_append_printf (out, ",\"struct_offset\":%d", g_vfunc_info_get_offset (v));
  g_string_append (out, ",\"signature\":");
  signature_json ((GICallableInfo *) v);
  g_string_append (out, ",\"attributes\":");
  attributes ((GIBaseInfo *) v);
  g_string_append_c (out, '}');
  if (inv) g_base_info_unref ((GIBaseInfo *) inv);
}

#define LIST(count_expr, get_expr, ...)                \
  {                                                    \
    int _i, _n = (count_expr);                         \
    g_string_append_c (out, '[');                      \
    for (_i = 0; _i < _n; _i++)                        \
      {                                                \
        gpointer item = (get_expr);                    \
        if (_i) g_string_append_c (out, ',');          \
        __VA_ARGS__;                                   \
        g_base_info_unref ((GIBaseInfo *) item);       \
      }                                                \
    g_string_append_c (out, ']');                      \
  }

static void
entry_json (GIRepository *repo, const char *ns, GIBaseInfo *info)
{
  GIInfoType type = g_base_info_get_type (info);
  const char *name = g_base_info_get_name (info);
  GIBaseInfo *again = g_irepository_find_by_name (repo, ns, name);

  if (again == NULL || !g_base_info_equal (again, info) || g_base_info_get_type (again) != type)
    inconsistent ("find_by_name(%s) does not return the entry enumerated under that name", name);
  if (again)
    g_base_info_unref (again);
  if (strcmp (g_base_info_get_namespace (info), ns) != 0)
    inconsistent ("get_namespace of %s is %s", name, g_base_info_get_namespace (info));
  if (g_base_info_get_container (info) != NULL)
    inconsistent ("top-level entry %s has a container", name);

  g_string_append (out, "{\"kind\":");
  switch (type)
    {
    case GI_INFO_TYPE_FUNCTION:
      g_string_append (out, "\"function\",\"_f\":");
      function_json ((GIFunctionInfo *) info, FALSE);
      break;
    case GI_INFO_TYPE_CALLBACK:
      g_string_append (out, "\"callback\",\"signature\":");
      signature_json ((GICallableInfo *) info);
      break;
    case GI_INFO_TYPE_STRUCT:
    case GI_INFO_TYPE_BOXED:
      {
        GIStructInfo *s = (GIStructInfo *) info;
        if (type == GI_INFO_TYPE_BOXED)
          {
            g_string_append (out, "\"boxed\",\"gtype_name\":");
            jstr (g_registered_type_info_get_type_name ((GIRegisteredTypeInfo *) s));
            g_string_append (out, ",\"gtype_init\":");
            jstr (g_registered_type_info_get_type_init ((GIRegisteredTypeInfo *) s));
            break;
          }
        g_string_append (out, "\"struct\",\"gtype_name\":");
        jstr (g_registered_type_info_get_type_name ((GIRegisteredTypeInfo *) s));
        g_string_append (out, ",\"gtype_init\":");
        jstr (g_registered_type_info_get_type_init ((GIRegisteredTypeInfo *) s));
        g_string_append (out, ",\"is_gtype_struct\":"); jbool (g_struct_info_is_gtype_struct (s));
        g_string_append (out, ",\"foreign\":"); jbool (g_struct_info_is_foreign (s));
        g_string_append (out, ",\"copy_func\":"); jstr (g_struct_info_get_copy_function (s));
        g_string_append (out, ",\"free_func\":"); jstr (g_struct_info_get_free_function (s));
        g_string_append_printf (out, ",\"size\":%" G_GSIZE_FORMAT ",\"alignment\":%" G_GSIZE_FORMAT, g_struct_info_get_size (s), g_struct_info_get_alignment (s));
        g_string_append (out, ",\"fields\":");
        LIST (g_struct_info_get_n_fields (s), g_struct_info_get_field (s, _i), field_json (item, info));
        g_string_append (out, ",\"methods\":");
        LIST (g_struct_info_get_n_methods (s), g_struct_info_get_method (s, _i),
              {
                GIFunctionInfo *m2 = g_struct_info_find_method (s, g_base_info_get_name (item));
                if (m2 == NULL) inconsistent ("struct %s: find_method(%s) fails", name, g_base_info_get_name (item));
                else g_base_info_unref ((GIBaseInfo *) m2);
                function_json (item, TRUE);
              });
        {
          int k, nf = g_struct_info_get_n_fields (s);
          for (k = 0; k < nf; k++)
            {
              GIFieldInfo *f = g_struct_info_get_field (s, k);
              GIFieldInfo *f2 = g_struct_info_find_field (s, g_base_info_get_name ((GIBaseInfo *) f));
              if (f2 == NULL) inconsistent ("struct %s: find_field(%s) fails", name, g_base_info_get_name ((GIBaseInfo *) f));
              else g_base_info_unref ((GIBaseInfo *) f2);
              g_base_info_unref ((GIBaseInfo *) f);
            }
        }
        break;
      }
    case GI_INFO_TYPE_UNION:
      {
        GIUnionInfo *u = (GIUnionInfo *) info;
        g_string_append (out, "\"union\",\"gtype_name\":");
        jstr (g_registered_type_info_get_type_name ((GIRegisteredTypeInfo *) u));
        g_string_append (out, ",\"gtype_init\":");
        jstr (g_registered_type_info_get_type_init ((GIRegisteredTypeInfo *) u));
        g_string_append_printf (out, ",\"size\":%" G_GSIZE_FORMAT ",\"alignment\":%" G_GSIZE_FORMAT, g_union_info_get_size (u), g_union_info_get_alignment (u));
        g_string_append (out, ",\"fields\":");
        LIST (g_union_info_get_n_fields (u), g_union_info_get_field (u, _i), field_json (item, info));
        g_string_append (out, ",\"methods\":");
        LIST (g_union_info_get_n_methods (u), g_union_info_get_method (u, _i),
              {
                GIFunctionInfo *m2 = g_union_info_find_method (u, g_base_info_get_name (item));
                if (m2 == NULL) inconsistent ("union %s: find_method(%s) fails", name, g_base_info_get_name (item));
                else g_base_info_unref ((GIBaseInfo *) m2);
                function_json (item, TRUE);
              });
        break;
      }
    case GI_INFO_TYPE_ENUM:
    case GI_INFO_TYPE_FLAGS:
      {
        GIEnumInfo *e = (GIEnumInfo *) info;
        g_string_append_printf (out, "\"%s\",\"gtype_name\":", type == GI_INFO_TYPE_ENUM ? "enum" : "flags");
        jstr (g_registered_type_info_get_type_name ((GIRegisteredTypeInfo *) e));
        g_string_append (out, ",\"gtype_init\":");
        jstr (g_registered_type_info_get_type_init ((GIRegisteredTypeInfo *) e));
        g_string_append (out, ",\"error_domain\":");
        jstr (g_enum_info_get_error_domain (e));
        g_string_append_printf (out, ",\"storage_type\":\"%s\"", g_type_tag_to_string (g_enum_info_get_storage_type (e)));
        g_string_append (out, ",\"values\":");
        LIST (g_enum_info_get_n_values (e), g_enum_info_get_value (e, _i),
              {
                GIAttributeIter iter = { 0, };
                char *an, *av;
                const char *cid = g_base_info_get_attribute (item, "c:identifier");
                GPtrArray *arr = g_ptr_array_new ();
                guint k;
                g_string_append (out, "{\"name\":");
                jstr (g_base_info_get_name (item));
                g_string_append_printf (out, ",\"value32\":%u,\"value\":%lld,\"c_identifier\":", (guint) (g_value_info_get_value (item) & 0xffffffff),
                                        (long long) g_value_info_get_value (item));
                jstr (cid);
                while (g_base_info_iterate_attributes (item, &iter, &an, &av))
                  if (strcmp (an, "c:identifier") != 0)
                    {
                      char **pair = g_new (char *, 2);
                      pair[0] = an; pair[1] = av;
                      g_ptr_array_add (arr, pair);
                    }
                if (arr->len > 1)
    qsort (arr->pdata, arr->len, sizeof (gpointer), cmp_attr);
                g_string_append (out, ",\"attributes\":[");
                for (k = 0; k < arr->len; k++)
                  {
                    char **pair = arr->pdata[k];
                    if (k) g_string_append_c (out, ',');
                    g_string_append_c (out, '['); jstr (pair[0]); g_string_append_c (out, ','); jstr (pair[1]); g_string_append_c (out, ']');
                    g_free (pair);
                  }
                g_ptr_array_free (arr, TRUE);
                g_string_append (out, "]}");
              });
        g_string_append (out, ",\"methods\":");
        LIST (g_enum_info_get_n_methods (e), g_enum_info_get_method (e, _i), function_json (item, TRUE));
        break;
      }
    case GI_INFO_TYPE_OBJECT:
      {
        GIObjectInfo *o = (GIObjectInfo *) info;
        GIBaseInfo *parent = (GIBaseInfo *) g_object_info_get_parent (o), *cs = (GIBaseInfo *) g_object_info_get_class_struct (o);
        g_string_append (out, "\"object\",\"gtype_name\":");
        jstr (g_object_info_get_type_name (o));
        g_string_append (out, ",\"gtype_init\":");
        jstr (g_object_info_get_type_init (o));
        g_string_append (out, ",\"parent\":"); qualified (parent);
        g_string_append (out, ",\"gtype_struct\":"); qualified (cs);
        g_string_append (out, ",\"abstract\":"); jbool (g_object_info_get_abstract (o));
        g_string_append (out, ",\"fundamental\":"); jbool (g_object_info_get_fundamental (o));
        g_string_append (out, ",\"final\":"); jbool (g_object_info_get_final (o));
        g_string_append (out, ",\"ref_func\":"); jstr (g_object_info_get_ref_function (o));
        g_string_append (out, ",\"unref_func\":"); jstr (g_object_info_get_unref_function (o));
        g_string_append (out, ",\"set_value_func\":"); jstr (g_object_info_get_set_value_function (o));
        g_string_append (out, ",\"get_value_func\":"); jstr (g_object_info_get_get_value_function (o));
        g_string_append (out, ",\"interfaces\":");
        LIST (g_object_info_get_n_interfaces (o), g_object_info_get_interface (o, _i), qualified (item));
        g_string_append (out, ",\"fields\":");
        LIST (g_object_info_get_n_fields (o), g_object_info_get_field (o, _i), field_json (item, info));
        g_string_append (out, ",\"properties\":");
        LIST (g_object_info_get_n_properties (o), g_object_info_get_property (o, _i), property_json (item));
        g_string_append (out, ",\"methods\":");
        LIST (g_object_info_get_n_methods (o), g_object_info_get_method (o, _i),
              {
                GIFunctionInfo *m2 = g_object_info_find_method (o, g_base_info_get_name (item));
                GIObjectInfo *impl = NULL;
                GIFunctionInfo *m3 = g_object_info_find_method_using_interfaces (o, g_base_info_get_name (item), &impl);
                if (m2 == NULL || strcmp (g_function_info_get_symbol (m2), g_function_info_get_symbol (item)) != 0)
                  inconsistent ("object %s: find_method(%s) does not return method %d", name, g_base_info_get_name (item), _i);
                if (m3 == NULL)
                  inconsistent ("object %s: find_method_using_interfaces(%s) fails", name, g_base_info_get_name (item));
                if (m2) g_base_info_unref ((GIBaseInfo *) m2);
                if (m3) g_base_info_unref ((GIBaseInfo *) m3);
                if (impl) g_base_info_unref ((GIBaseInfo *) impl);
                function_json (item, TRUE);
              });
        g_string_append (out, ",\"signals\":");
        LIST (g_object_info_get_n_signals (o), g_object_info_get_signal (o, _i),
              {
                GISignalInfo *s2 = g_object_info_find_signal (o, g_base_info_get_name (item));
                if (s2 == NULL) inconsistent ("object %s: find_signal(%s) fails", name, g_base_info_get_name (item));
                else g_base_info_unref ((GIBaseInfo *) s2);
                signal_json (item);
              });
        g_string_append (out, ",\"vfuncs\":");
        LIST (g_object_info_get_n_vfuncs (o), g_object_info_get_vfunc (o, _i),
              {
                GIVFuncInfo *v2 = g_object_info_find_vfunc (o, g_base_info_get_name (item));
                if (v2 == NULL) inconsistent ("object %s: find_vfunc(%s) fails", name, g_base_info_get_name (item));
                else g_base_info_unref ((GIBaseInfo *) v2);
                vfunc_json (item);
              });
        g_string_append (out, ",\"constants\":");
        LIST (g_object_info_get_n_constants (o), g_object_info_get_constant (o, _i), constant_json (item));
        if (g_object_info_find_method (o, "vt_no_such_method") != NULL)
          inconsistent ("object %s: find_method finds a method that does not exist", name);
        if (parent) g_base_info_unref (parent);
        if (cs) g_base_info_unref (cs);
        break;
      }
    case GI_INFO_TYPE_INTERFACE:
      {
        GIInterfaceInfo *o = (GIInterfaceInfo *) info;
        GIBaseInfo *cs = (GIBaseInfo *) g_interface_info_get_iface_struct (o);
        g_string_append (out, "\"interface\",\"gtype_name\":");
        jstr (g_registered_type_info_get_type_name ((GIRegisteredTypeInfo *) o));
        g_string_append (out, ",\"gtype_init\":");
        jstr (g_registered_type_info_get_type_init ((GIRegisteredTypeInfo *) o));
        g_string_append (out, ",\"gtype_struct\":"); qualified (cs);
        g_string_append (out, ",\"prerequisites\":");
        LIST (g_interface_info_get_n_prerequisites (o), g_interface_info_get_prerequisite (o, _i), qualified (item));
        g_string_append (out, ",\"properties\":");
        LIST (g_interface_info_get_n_properties (o), g_interface_info_get_property (o, _i), property_json (item));
        g_string_append (out, ",\"methods\":");
        LIST (g_interface_info_get_n_methods (o), g_interface_info_get_method (o, _i),
              {
                GIFunctionInfo *m2 = g_interface_info_find_method (o, g_base_info_get_name (item));
                if (m2 == NULL) inconsistent ("interface %s: find_method(%s) fails", name, g_base_info_get_name (item));
                else g_base_info_unref ((GIBaseInfo *) m2);
                function_json (item, TRUE);
              });
        g_string_append (out, ",\"signals\":");
        LIST (g_interface_info_get_n_signals (o), g_interface_info_get_signal (o, _i),
              {
                GISignalInfo *s2 = g_interface_info_find_signal (o, g_base_info_get_name (item));
                if (s2 == NULL) inconsistent ("interface %s: find_signal(%s) fails", name, g_base_info_get_name (item));
                else g_base_info_unref ((GIBaseInfo *) s2);
                signal_json (item);
              });
        g_string_append (out, ",\"vfuncs\":");
        LIST (g_interface_info_get_n_vfuncs (o), g_interface_info_get_vfunc (o, _i),
              {
                GIVFuncInfo *v2 = g_interface_info_find_vfunc (o, g_base_info_get_name (item));
                if (v2 == NULL) inconsistent ("interface %s: find_vfunc(%s) fails", name, g_base_info_get_name (item));
                else g_base_info_unref ((GIBaseInfo *) v2);
                vfunc_json (item);
              });
        g_string_append (out, ",\"constants\":");
        LIST (g_interface_info_get_n_constants (o), g_interface_info_get_constant (o, _i), constant_json (item));
        if (cs) g_base_info_unref (cs);
        break;
      }
    case GI_INFO_TYPE_CONSTANT:
      g_string_append (out, "\"constant\",\"_c\":");
      constant_json ((GIConstantInfo *) info);
      break;
    default:
      g_string_append_printf (out, "\"other-%d\"", (int) type);
      break;
    }
  g_string_append (out, ",\"name\":");
  jstr (name);
  g_string_append (out, ",\"deprecated\":"); jbool (g_base_info_is_deprecated (info));
  g_string_append (out, ",\"attributes\":");
  attributes (info);
  g_string_append_c (out, '}');
}

int
main (int argc, char **argv)
{
  GIRepository *repo = g_irepository_get_default ();
  GError *error = NULL;
  GITypelib *tl;
  int i, n;
  char **deps;

  if (argc != 4)
    return 2;
  g_irepository_prepend_search_path (argv[1]);
  tl = g_irepository_require_private (repo, argv[1], argv[2], argv[3], 0, &error);
  if (tl == NULL)
    {
      fprintf (stderr, "REQUIRE-FAILED %s\n", error->message);
      return 3;
    }
  out = g_string_new ("{\"namespace\":");
  jstr (argv[2]);
  g_string_append (out, ",\"nsversion\":");
  jstr (g_irepository_get_version (repo, argv[2]));
  g_string_append (out, ",\"shared_library\":");
  jstr (g_irepository_get_shared_library (repo, argv[2]));
  g_string_append (out, ",\"c_prefix\":");
  jstr (g_irepository_get_c_prefix (repo, argv[2]));
  g_string_append (out, ",\"dependencies\":[");
  deps = g_irepository_get_immediate_dependencies (repo, argv[2]);
  for (i = 0; deps && deps[i]; i++)
    {
      if (i) g_string_append_c (out, ',');
      jstr (deps[i]);
    }
  g_strfreev (deps);
  g_string_append (out, "],\"entries\":[");
  n = g_irepository_get_n_infos (repo, argv[2]);
  for (i = 0; i < n; i++)
    {
      GIBaseInfo *info = g_irepository_get_info (repo, argv[2], i);
      if (i) g_string_append_c (out, ',');
      entry_json (repo, argv[2], info);
      g_base_info_unref (info);
    }
  g_string_append (out, "]}");
  if (g_irepository_find_by_name (repo, argv[2], "VtNoSuchEntryName") != NULL)
    inconsistent ("find_by_name finds an entry that does not exist");
  fputs (out->str, stdout);
  fputc ('\n', stdout);
  fprintf (stderr, "INCONSISTENCIES %d\n", inconsistencies);
  return 0;
}
