/* C14 driver: every way of finding a directory entry, for a list of probe strings.
 *
 *   gi-lookup typelib <dir> <namespace> <version> <probes-file>
 *       probes-file: one probe per line, "<K>\t<string>", K = N (entry name), G (GType name), E (error domain)
 *       output, one line per probe:
 *         N\t<probe>\t<index found by g_typelib_get_dir_entry_by_name or -1>\t<its name or ->\t<name of g_irepository_find_by_name result or ->
 *         G\t<probe>\t<index by g_typelib_get_dir_entry_by_gtype_name>\t<name>\t<find_by_gtype name>\t<matches_gtype_name_prefix 0/1>
 *         E\t<probe>\t<index by g_typelib_get_dir_entry_by_error_domain>\t<name>\t<find_by_error_domain name>
 *       header line first: "H\t<n_local_entries>\t<has directory index section 0/1>"
 *
 *   gi-lookup hash <strings-file> <probes-file>
 *       builds the perfect hash over the strings (value = line number), packs it, and prints
 *         "B\t<buildable 0/1>\t<n>\t<packed size>"
 *         "M\t<number of member strings whose search result is not their value>"
 *         "P\t<probe>\t<value returned>"  for every probe
 */
#include <stdio.h>
#include <stdlib.h>
#include <string.h>
#include <glib.h>
#include <glib-object.h>
#include "girepository.h"
#include "gitypelib-internal.h"

static char **
read_lines (const char *path, gsize *n)
{
  gchar *contents = NULL;
  gsize len = 0;
  char **lines;
  gsize i;
  if (!g_file_get_contents (path, &contents, &len, NULL))
    {
      fprintf (stderr, "cannot read %s\n", path);
      exit (3);
    }
  if (len > 0 && contents[len - 1] == '\n')
    contents[len - 1] = 0;
  lines = g_strsplit (contents, "\n", -1);
  for (i = 0; lines[i]; i++)
    ;
  if (len == 0)
    i = 0;
  *n = i;
  g_free (contents);
  return lines;
}

static int
entry_index (GITypelib *tl, DirEntry *e)
{
  Header *h = (Header *) tl->data;
  if (e == NULL)
    return -1;
  return (int) (((guint8 *) e - (tl->data + h->directory)) / h->entry_blob_size) + 1;
}

static const char *
entry_name (GITypelib *tl, DirEntry *e)
{
  return e ? (const char *) &tl->data[e->name] : "-";
}

static const char *
info_name (GIBaseInfo *info)
{
  return info ? g_base_info_get_name (info) : "-";
}

static int
mode_typelib (int argc, char **argv)
{
  GIRepository *repo = g_irepository_get_default ();
  GError *error = NULL;
  GITypelib *tl;
  Header *h;
  gsize n, i;
  char **probes;
  int has_index = 0;
  guint s;

  int lazy = argc >= 7 && strchr (argv[6], 'l') != NULL;      /* load with G_IREPOSITORY_LOAD_FLAG_LAZY */
  int early = argc >= 7 && strchr (argv[6], 'e') != NULL;     /* look every GType probe up once before the namespace is loaded */
  GString *early_out = g_string_new ("");

  if (argc != 6 && argc != 7)
    return 2;
  g_irepository_prepend_search_path (argv[2]);
  if (early)
    {
      probes = read_lines (argv[5], &n);
      for (i = 0; i < n; i++)
        if (probes[i][0] == 'G' && probes[i][1] == '\t')
          {
            const char *str = probes[i] + 2;
            GType t = g_type_from_name (str);
            GIBaseInfo *info;
            if (t == 0)
              t = g_pointer_type_register_static (str);
            info = t ? g_irepository_find_by_gtype (repo, t) : NULL;
            g_string_append_printf (early_out, "X\t%s\t%s\n", str, info_name (info));
            if (info)
              g_base_info_unref (info);
          }
    }
  tl = g_irepository_require_private (repo, argv[2], argv[3], argv[4], lazy ? G_IREPOSITORY_LOAD_FLAG_LAZY : 0, &error);
  if (!tl)
    {
      fprintf (stderr, "require failed: %s\n", error ? error->message : "?");
      return 4;
    }
  h = (Header *) tl->data;
  if (h->sections != 0)
    {
      Section *sec = (Section *) &tl->data[h->sections];
      for (s = 0; sec[s].id != GI_SECTION_END; s++)
        if (sec[s].id == GI_SECTION_DIRECTORY_INDEX)
          has_index = 1;
    }
  printf ("H\t%u\t%d\n", (unsigned) h->n_local_entries, has_index);
  fputs (early_out->str, stdout);
  probes = read_lines (argv[5], &n);
  for (i = 0; i < n; i++)
    {
      char kind = probes[i][0];
      const char *str = probes[i] + 2;
      DirEntry *e;
      GIBaseInfo *info = NULL;
      if (probes[i][0] == 0 || probes[i][1] != '\t')
        continue;
      switch (kind)
        {
        case 'N':
          e = g_typelib_get_dir_entry_by_name (tl, str);
          info = g_irepository_find_by_name (repo, argv[3], str);
          printf ("N\t%s\t%d\t%s\t%s\n", str, entry_index (tl, e), entry_name (tl, e), info_name (info));
          break;
        case 'G':
          {
            GType t = g_type_from_name (str);
            if (t == 0)
              t = g_pointer_type_register_static (str);
            e = g_typelib_get_dir_entry_by_gtype_name (tl, str);
            info = t ? g_irepository_find_by_gtype (repo, t) : NULL;
            printf ("G\t%s\t%d\t%s\t%s\t%d\n", str, entry_index (tl, e), entry_name (tl, e), info_name (info),
                    (int) g_typelib_matches_gtype_name_prefix (tl, str));
            if (t)
              {
                /* the cached answer must be the same */
                GIBaseInfo *again = g_irepository_find_by_gtype (repo, t);
                if ((again == NULL) != (info == NULL) || (again && !g_base_info_equal (again, info)))
                  fprintf (stderr, "INCONSISTENT find_by_gtype(%s) differs on the second (cached) call\n", str);
                if (again)
                  g_base_info_unref (again);
              }
          }
          break;
        case 'E':
          {
            GQuark q = g_quark_from_string (str);
            e = g_typelib_get_dir_entry_by_error_domain (tl, q);
            info = (GIBaseInfo *) g_irepository_find_by_error_domain (repo, q);
            printf ("E\t%s\t%d\t%s\t%s\n", str, entry_index (tl, e), entry_name (tl, e), info_name (info));
          }
          break;
        default:
          break;
        }
      if (info)
        g_base_info_unref (info);
    }
  fflush (stdout);
  return 0;
}

static int
mode_hash (int argc, char **argv)
{
  gsize n, np, i;
  char **strs, **probes;
  GITypelibHashBuilder *b;
  guint32 size;
  guint8 *buf;
  gsize wrong = 0;

  if (argc != 4)
    return 2;
  strs = read_lines (argv[2], &n);
  probes = read_lines (argv[3], &np);
  b = _gi_typelib_hash_builder_new ();
  for (i = 0; i < n; i++)
    _gi_typelib_hash_builder_add_string (b, strs[i], (guint16) i);
  if (!_gi_typelib_hash_builder_prepare (b))
    {
      printf ("B\t0\t%lu\t0\n", (unsigned long) n);
      _gi_typelib_hash_builder_destroy (b);
      return 0;
    }
  size = _gi_typelib_hash_builder_get_buffer_size (b);
  buf = g_malloc (size);        /* exact size: any read or write past the packed size is an ASan report */
  _gi_typelib_hash_builder_pack (b, buf, size);
  _gi_typelib_hash_builder_destroy (b);
  printf ("B\t1\t%lu\t%u\n", (unsigned long) n, size);
  for (i = 0; i < n; i++)
    {
      guint16 v = _gi_typelib_hash_search (buf, strs[i], n);
      if (v != (guint16) i)
        {
          if (wrong < 10)
            fprintf (stderr, "MEMBER-MISS %s expected %lu got %u\n", strs[i], (unsigned long) i, (unsigned) v);
          wrong++;
        }
    }
  printf ("M\t%lu\n", (unsigned long) wrong);
  for (i = 0; i < np; i++)
    printf ("P\t%s\t%u\n", probes[i], (unsigned) _gi_typelib_hash_search (buf, probes[i], n));
  g_free (buf);
  fflush (stdout);
  return 0;
}

int
main (int argc, char **argv)
{
  if (argc >= 2 && strcmp (argv[1], "typelib") == 0)
    return mode_typelib (argc, argv);
  if (argc >= 2 && strcmp (argv[1], "hash") == 0)
    return mode_hash (argc, argv);
  return 2;
}
