/* C17 driver: replays one history of repository calls in a fresh process and prints what each call answered.
 *
 *   gi-require <script>
 * script lines (fields separated by tabs, "-" stands for NULL):
 *   prepend <dir>
 *   require <ns> <version|-> <flags>
 *   require_private <dir> <ns> <version|-> <flags>
 *   load <file> <flags>                       g_typelib_new_from_memory + g_irepository_load_typelib
 *   loaded                                    g_irepository_get_loaded_namespaces (sorted)
 *   is_registered <ns> <version|->
 *   version <ns> | path <ns> | ideps <ns> | deps <ns>        (ns must be registered: the harness only asks then)
 *   enumerate <ns>
 *   search_path
 * output: one line per script line, "<n>\t<answer>"
 */
#include <stdio.h>
#include <stdlib.h>
#include <string.h>
#include <glib.h>
#include "girepository.h"

static int
cmp_str (const void *a, const void *b)
{
  return strcmp (*(char *const *) a, *(char *const *) b);
}

static void
print_strv_sorted (char **v)
{
  int n = 0, i;
  while (v && v[n])
    n++;
  if (n > 0)
    qsort (v, n, sizeof (char *), cmp_str);
  printf ("[");
  for (i = 0; i < n; i++)
    printf ("%s%s", i ? "," : "", v[i]);
  printf ("]");
}

static void
print_error (GError *error)
{
  const char *dom = error ? g_quark_to_string (error->domain) : "?";
  if (error && strcmp (dom, "g-irepository-error-quark") == 0)
    {
      static const char *names[] = { "TYPELIB_NOT_FOUND", "NAMESPACE_MISMATCH", "NAMESPACE_VERSION_CONFLICT", "LIBRARY_NOT_FOUND" };
      printf ("ERR\t%s", error->code >= 0 && error->code < 4 ? names[error->code] : "?");
    }
  else
    printf ("ERR\t%s:%d", dom, error ? error->code : -1);
  fprintf (stderr, "note: %s\n", error ? error->message : "(no error set)");
}

static const char *
opt (const char *s)
{
  return (s == NULL || strcmp (s, "-") == 0) ? NULL : s;
}

int
main (int argc, char **argv)
{
  GIRepository *repo;
  gchar *contents = NULL;
  char **lines;
  int i;

  if (argc != 2 || !g_file_get_contents (argv[1], &contents, NULL, NULL))
    return 2;
  repo = g_irepository_get_default ();
  lines = g_strsplit (contents, "\n", -1);
  for (i = 0; lines[i]; i++)
    {
      char **f;
      int nf = 0;
      GError *error = NULL;
      if (lines[i][0] == 0)
        continue;
      f = g_strsplit (lines[i], "\t", -1);
      while (f[nf])
        nf++;
      printf ("%d\t", i);
      if (strcmp (f[0], "prepend") == 0 && nf == 2)
        {
          g_irepository_prepend_search_path (f[1]);
          printf ("OK");
        }
      else if (strcmp (f[0], "require") == 0 && nf == 4)
        {
          GITypelib *tl = g_irepository_require (repo, f[1], opt (f[2]), atoi (f[3]), &error);
          if (tl)
            printf ("OK\t%s", g_typelib_get_namespace (tl));
          else
            print_error (error);
          if (tl && error)
            printf ("\tERROR-SET-ON-SUCCESS");
        }
      else if (strcmp (f[0], "require_private") == 0 && nf == 5)
        {
          GITypelib *tl = g_irepository_require_private (repo, f[1], f[2], opt (f[3]), atoi (f[4]), &error);
          if (tl)
            printf ("OK\t%s", g_typelib_get_namespace (tl));
          else
            print_error (error);
        }
      else if (strcmp (f[0], "load") == 0 && nf == 3)
        {
          gchar *data = NULL;
          gsize len = 0;
          if (!g_file_get_contents (f[1], &data, &len, NULL))
            printf ("HARNESS cannot read %s", f[1]);
          else
            {
              GITypelib *tl = g_typelib_new_from_memory ((guint8 *) data, len, &error);   /* takes ownership of data */
              if (!tl)
                printf ("HARNESS typelib_new failed");
              else
                {
                  const char *ns = g_irepository_load_typelib (repo, tl, atoi (f[2]), &error);
                  if (ns)
                    printf ("OK\t%s", ns);
                  else
                    {
                      print_error (error);
                      g_typelib_free (tl);
                    }
                }
            }
        }
      else if (strcmp (f[0], "loaded") == 0)
        {
          char **v = g_irepository_get_loaded_namespaces (repo);
          print_strv_sorted (v);
          g_strfreev (v);
        }
      else if (strcmp (f[0], "is_registered") == 0 && nf == 3)
        printf ("%d", (int) g_irepository_is_registered (repo, f[1], opt (f[2])));
      else if (strcmp (f[0], "version") == 0 && nf == 2)
        {
          const char *v = g_irepository_get_version (repo, f[1]);
          printf ("%s", v ? v : "(null)");
        }
      else if (strcmp (f[0], "path") == 0 && nf == 2)
        {
          const char *v = g_irepository_get_typelib_path (repo, f[1]);
          printf ("%s", v ? v : "(null)");
        }
      else if (strcmp (f[0], "ideps") == 0 && nf == 2)
        {
          char **v = g_irepository_get_immediate_dependencies (repo, f[1]);
          if (v == NULL)
            printf ("(null)");
          else
            print_strv_sorted (v);
          g_strfreev (v);
        }
      else if (strcmp (f[0], "deps") == 0 && nf == 2)
        {
          char **v = g_irepository_get_dependencies (repo, f[1]);
          if (v == NULL)
            printf ("(null)");
          else
            print_strv_sorted (v);
          g_strfreev (v);
        }
      else if (strcmp (f[0], "enumerate") == 0 && nf == 2)
        {
          GList *l = g_irepository_enumerate_versions (repo, f[1]), *k;
          int n = g_list_length (l), j = 0;
          char **v = g_new0 (char *, n + 1);
          for (k = l; k; k = k->next)
            v[j++] = k->data;
          print_strv_sorted (v);
          g_list_free_full (l, g_free);
          g_free (v);
        }
      else if (strcmp (f[0], "search_path") == 0)
        {
          GSList *s;
          printf ("[");
          for (s = g_irepository_get_search_path (); s; s = s->next)
            printf ("%s%s", (char *) s->data, s->next ? "," : "");
          printf ("]");
        }
      else
        printf ("HARNESS unknown command");
      printf ("\n");
      fflush (stdout);
      g_clear_error (&error);
      g_strfreev (f);
    }
  return 0;
}
