"""GTK-Doc comment block models, their rendering to text in many layouts, and neutral comparison with the trees the
real parser returns.  Written from the grammar description at the top of giscanner/annotationparser.py and
docs/website/annotations/giannotations.rst; shares no code with the parser."""
import collections

# annotation vocabulary: name -> (kind, option generator tag)
#   kind: 'list' | 'dict'
IDENT_ANNS = {
    'skip': 0, 'constructor': 0, 'method': 0, 'foreign': 0,
    'rename-to': 1, 'value': 1, 'virtual': 1, 'set-property': 1, 'get-property': 1, 'setter': 1, 'getter': 1, 'emitter': 1,
    'default-value': 1, 'finish-func': 1, 'sync-func': 1, 'async-func': 1, 'ref-func': 1, 'unref-func': 1,
    'get-value-func': 1, 'set-value-func': 1, 'copy-func': 1, 'free-func': 1, 'type': 1, 'transfer': 'transfer',
    'attributes': 'dict',
}
PARAM_ANNS = {
    'allow-none': 0, 'nullable': 0, 'optional': 0, 'skip': 0, 'in': 0, 'inout': 0,
    'not': 'not', 'out': 'out', 'array': 'array', 'attributes': 'dict', 'closure': 'closure', 'destroy': 1,
    'element-type': 'etype', 'scope': 'scope', 'transfer': 'transfer', 'type': 1,
}
RETURNS_ANNS = {
    'allow-none': 0, 'nullable': 0, 'optional': 0, 'skip': 0, 'not': 'not', 'array': 'array', 'attributes': 'dict',
    'element-type': 'etype', 'transfer': 'transfer', 'type': 1,
}
DICT_ANNS = ('array', 'attributes')
TYPEWORDS = ['utf8', 'gint', 'guint8', 'GObject.Object', 'FooBar', 'Foo.Bar', 'filename', 'gpointer', 'GLib.List(utf8)',
             'GLib.HashTable(utf8,gint)', 'int', 'char*', 'double']
WORDS = ['the', 'a', 'value', 'object', 'returns', 'list', 'of', 'items,', 'or', '%NULL', '#FooBar', 'foo_bar()', 'see', 'also:',
         'x', '(optional)', 'free', 'with', 'g_free().', 'é', '中文', 'a:b', '"quoted"', "it's", '<tag>', '&amp;', '1.0', '-', '*',
         '[link]', 'e.g.', 'Since', 'Returns', 'the@sign', 'end.', '::signal', ':prop']
IDWORDS = ['foo', 'bar', 'baz', 'get', 'set', 'new', 'item', 'x', 'do_it', 'n_items', 'data', 'user_data', 'cb', 'self', 'len']


def _ident(rng, n=None):
    return '_'.join(rng.choice(IDWORDS) for _ in range(n or rng.choice([1, 2, 3])))


def gen_options(rng, spec, params=()):
    if spec == 0:
        return []
    if spec == 1:
        return [rng.choice(TYPEWORDS + [_ident(rng), '42', '-1', 'Foo.bar_baz', 'a-b-c', 'X'])]
    if spec == 'transfer':
        return [rng.choice(['none', 'full', 'container', 'floating'])]
    if spec == 'scope':
        return [rng.choice(['call', 'async', 'notified', 'forever'])]
    if spec == 'not':
        return [rng.choice(['nullable', 'optional'])]
    if spec == 'out':
        return rng.choice([[], [], ['caller-allocates'], ['callee-allocates']])
    if spec == 'closure':
        return rng.choice([[], [rng.choice(list(params) or ['user_data'])]])
    if spec == 'etype':
        return rng.choice([[rng.choice(TYPEWORDS)], [rng.choice(TYPEWORDS), rng.choice(TYPEWORDS)]])
    if spec == 'array':
        d = collections.OrderedDict()
        keys = ['length', 'fixed-size', 'zero-terminated']
        rng.shuffle(keys)
        for k in keys[:rng.choice([0, 1, 1, 2, 3])]:
            if k == 'length':
                d[k] = rng.choice(list(params) or ['len'])
            elif k == 'fixed-size':
                d[k] = str(rng.choice([0, 1, 4, 16, 1024]))
            else:
                d[k] = rng.choice([None, '0', '1'])
        return d
    if spec == 'dict':
        d = collections.OrderedDict()
        for _ in range(rng.choice([1, 1, 2, 4])):
            k = rng.choice(['org.gtk.Method.get_property', 'foo.bar', 'vt.id', 'a', 'key-%d' % rng.randrange(100), 'Some.Key'])
            d[k] = rng.choice(['value', '1', 'a=b', 'x.y', 'é', None, 'true', 'long-value-with-dashes'])
        return d
    raise AssertionError(spec)


def gen_annotations(rng, vocab, params=(), strict=True, maxn=4):
    """-> OrderedDict name -> options (list | OrderedDict | None for option-less unknown names)"""
    out = collections.OrderedDict()
    n = rng.choice([0, 0, 1, 1, 2, 3, maxn])
    names = list(vocab)
    for _ in range(n):
        if not strict and rng.random() < 0.25:
            nm = rng.choice(['frobnicate', 'x-custom', 'since2', 'my_ann', 'zz'])
            if nm in out:
                continue
            if rng.random() < 0.5:
                out[nm] = None
            else:
                out[nm] = [' '.join(rng.choice(['opt', 'a=b', 'x', '1 2', 'Foo.Bar']) for _ in range(rng.choice([1, 2, 3])))]
                out[nm] = [' '.join(out[nm][0].split())]
            continue
        nm = rng.choice(names)
        if nm in out:
            continue
        if strict:
            # mutually exclusive combinations produce validation warnings: keep strict blocks clean
            if nm in ('nullable', 'allow-none') and 'not' in out and out['not'] == ['nullable']:
                continue
            if nm == 'optional' and 'not' in out and out['not'] == ['optional']:
                continue
        opts = gen_options(rng, vocab[nm], params)
        if strict and nm == 'not':
            if (opts == ['nullable'] and ('nullable' in out or 'allow-none' in out)) or (opts == ['optional'] and 'optional' in out):
                continue
        out[nm] = opts
    return out


def gen_text(rng, allow_multiline=True, maxwords=12):
    """description text: list of lines (model level), first line not starting with '(' or whitespace"""
    nlines = rng.choice([1, 1, 1, 2, 3]) if allow_multiline else 1
    lines = []
    for li in range(nlines):
        ws = [rng.choice(WORDS) for _ in range(rng.randrange(1, maxwords))]
        l = ' '.join(ws)
        lines.append(l)
    return lines


def sanitize_desc_lines(lines, in_tags=False):
    """make sure no description line can be read as another part of the block (the grammar's reserved line starts)"""
    out = []
    for i, l in enumerate(lines):
        s = l.strip()
        low = s.lower()
        bad = (s.startswith('@') or s.startswith('(') or s.startswith(':') or
               any(low.startswith(t) and ':' in low[len(t):len(t) + 3] for t in (
                   'returns', 'return', 'since', 'deprecated', 'stability', 'description', 'attributes', 'rename to',
                   'transfer', 'type', 'value', 'virtual', 'ref func', 'unref func', 'get value func', 'set value func',
                   'return value', 'returns value')))
        if bad:
            l = l.replace(s, 'x ' + s, 1)
        out.append(l)
    return out


def gen_block(rng, strict=True):
    kind = rng.choice(['symbol', 'symbol', 'symbol', 'property', 'signal', 'field', 'section', 'action', 'type'])
    cls = 'Foo' + rng.choice(['Bar', 'Object', 'Window', 'X'])
    if kind == 'symbol':
        name = 'foo_' + _ident(rng)
    elif kind == 'type':
        name = cls
    elif kind == 'property':
        name = '%s:%s' % (cls, rng.choice(['size', 'long-name', 'x', 'has-default', 'a_b']))
    elif kind == 'signal':
        name = '%s::%s' % (cls, rng.choice(['changed', 'notify-me', 'x', 'button-press-event']))
    elif kind == 'field':
        name = '%s.%s' % (cls, rng.choice(['field', 'x', 'long_field_name']))
    elif kind == 'section':
        name = 'SECTION:%s' % rng.choice(['foobar', 'foo-bar', 'foo_bar2'])
    else:
        name = 'ACTION:%s:%s' % (cls, rng.choice(['win.close', 'app.quit', 'a-b.c-d']))
    b = {'kind': kind, 'name': name, 'annotations': collections.OrderedDict(), 'params': [], 'description': None, 'tags': []}
    if kind not in ('section', 'action'):
        b['annotations'] = gen_annotations(rng, IDENT_ANNS, strict=strict)
    nparams = rng.choice([0, 0, 1, 2, 3, 6]) if kind in ('symbol', 'signal', 'type') else rng.choice([0, 0, 1])
    pnames = []
    while len(pnames) < nparams:
        p = _ident(rng, rng.choice([1, 2]))
        if p not in pnames and p.lower() not in ('returns', 'varargs'):
            pnames.append(p)
    if pnames and rng.random() < 0.15:
        pnames.append('...')
    for p in pnames:
        anns = gen_annotations(rng, PARAM_ANNS, [q for q in pnames if q not in (p, '...')], strict=strict)
        desc = sanitize_desc_lines(gen_text(rng)) if rng.random() < 0.85 else None
        b['params'].append({'name': p, 'annotations': anns, 'description': desc})
    if rng.random() < 0.75:
        paras = []
        for _ in range(rng.choice([1, 1, 2, 3])):
            lines = gen_text(rng, maxwords=14)
            if rng.random() < 0.25:
                lines += ['  indented_code (line);', '    more (indent);']
            paras.append(sanitize_desc_lines(lines))
        d = []
        for i, p in enumerate(paras):
            if i:
                d.append('')
            d.extend(p)
        b['description'] = d
    tagnames = []
    if kind in ('symbol', 'signal') and rng.random() < 0.6:
        tagnames.append('returns')
    for t in ('since', 'deprecated', 'stability'):
        if rng.random() < 0.3:
            tagnames.append(t)
    rng.shuffle(tagnames)
    for t in tagnames:
        tag = {'name': t, 'annotations': collections.OrderedDict(), 'value': None, 'description': None}
        if t == 'returns':
            tag['annotations'] = gen_annotations(rng, RETURNS_ANNS, pnames, strict=strict)
            if rng.random() < 0.85:
                tag['description'] = sanitize_desc_lines(gen_text(rng), in_tags=True)
        elif t in ('since', 'deprecated'):
            tag['value'] = rng.choice(['1.0', '2.30', '0.9.1', '3', '10.20.30'])
            if t == 'deprecated' and rng.random() < 0.7:
                tag['description'] = sanitize_desc_lines(gen_text(rng), in_tags=True)
        else:
            tag['value'] = rng.choice(['Stable', 'Unstable', 'Private', 'Internal'])
        b['tags'].append(tag)
    return b


# ---- rendering --------------------------------------------------------------------------------------
def ser_annotation(name, opts):
    if opts is None or (isinstance(opts, (list, dict)) and len(opts) == 0):
        return '(%s)' % name
    if isinstance(opts, list):
        return '(%s %s)' % (name, ' '.join(opts))
    parts = []
    for k, v in opts.items():
        parts.append(k if v is None else '%s=%s' % (k, v))
    return '(%s %s)' % (name, ' '.join(parts))


def render_block(rng, b, layout=None):
    """-> (text, info) ; info has per-part line numbers relative to the block start (0-based line index)"""
    L = layout or {}
    eol = L.get('eol', '\n')
    colon_ident = L.get('colon_ident', True)
    split_anns = L.get('split_anns', False)
    indent_mode = L.get('indent', 'std')       # 'std' | 'none' | 'tab' | 'ragged' | 'deep'
    star_space = L.get('star_space', True)
    end_style = L.get('end', '*/')             # '*/' | '**/'
    tag_case = L.get('tag_case', 'cap')        # 'cap' | 'lower' | 'upper'
    blank_before_tags = L.get('blank_before_tags', True)

    def pre(i):
        if indent_mode == 'std':
            return ' '
        if indent_mode == 'none':
            return ''
        if indent_mode == 'tab':
            return '\t'
        if indent_mode == 'deep':
            return '        '
        return rng.choice(['', ' ', '  ', '\t', '   ', ' \t '])

    body = []     # content lines (text after '* ')
    info = {'params': {}, 'tags': {}, 'ident': 0}

    def emit_part(head, anns, desc_lines, head_colon=True, trailing_colon_when_empty=False):
        """head e.g. '@name' or 'Returns' ; returns index of first line"""
        chunks = [ser_annotation(k, v) for k, v in anns.items()]
        if L.get('pad_parens'):
            # white space right after "(" and before ")" is not part of any token
            chunks = [rng.choice([c, '( ' + c[1:], c[:-1] + ' )', '( ' + c[1:-1] + ' )']) for c in chunks]
        first = len(body)
        if not chunks:
            line = head + ':'
            if desc_lines:
                line += ' ' + desc_lines[0]
                body.append(line)
                body.extend(desc_lines[1:])
            else:
                body.append(line)
            return first
        groups = [chunks]
        if split_anns and len(chunks) > 1:
            k = rng.randrange(1, len(chunks))
            groups = [chunks[:k], chunks[k:]]
            if len(groups[1]) > 1 and rng.random() < 0.4:
                k2 = rng.randrange(1, len(groups[1]))
                groups = [groups[0], groups[1][:k2], groups[1][k2:]]
        for gi, g in enumerate(groups):
            text = ' '.join(g)
            last = gi == len(groups) - 1
            line = (head + ': ' + text) if gi == 0 else text
            if last:
                if desc_lines:
                    line += ': ' + desc_lines[0]
                    body.append(line)
                    body.extend(desc_lines[1:])
                else:
                    if rng.random() < 0.5:
                        line += ':'
                    body.append(line)
            else:
                body.append(line)
        return first

    # identifier
    name = b['name']
    if b['kind'] == 'section':
        body.append(name if colon_ident else name.replace('SECTION:', 'SECTION: ', 1))
    elif b['kind'] == 'action':
        _, cls, act = name.split(':', 2)
        body.append('%s|%s%s' % (cls, act, ':' if colon_ident else ''))
    else:
        chunks = [ser_annotation(k, v) for k, v in b['annotations'].items()]
        if not chunks:
            body.append(name + (':' if colon_ident else ''))
        else:
            groups = [chunks]
            if split_anns and len(chunks) > 1:
                k = rng.randrange(1, len(chunks))
                groups = [chunks[:k], chunks[k:]]
            body.append(name + ': ' + ' '.join(groups[0]))
            for g in groups[1:]:
                body.append(' '.join(g))
    for p in b['params']:
        info['params'][p['name']] = emit_part('@' + p['name'], p['annotations'], p['description'])
    if b['description'] is not None:
        body.append('')
        info['description'] = len(body)
        body.extend(b['description'])
    if b['tags']:
        if blank_before_tags or b['description'] is not None:
            body.append('')
        for t in b['tags']:
            nm = {'cap': t['name'].capitalize(), 'lower': t['name'], 'upper': t['name'].upper()}[tag_case]
            if t['name'] == 'returns':
                info['tags']['returns'] = emit_part(nm, t['annotations'], t['description'])
            else:
                line = nm + ':'
                if t['value'] is not None:
                    v = t['value']
                    if t['name'] == 'stability' and tag_case != 'cap':
                        v = v.lower() if tag_case == 'lower' else v.upper()
                    line += ' ' + v
                info['tags'][t['name']] = len(body)
                if t['description']:
                    line += ': ' + t['description'][0]
                    body.append(line)
                    body.extend(t['description'][1:])
                else:
                    body.append(line)
    lines = [L.get('first_indent', '') + '/**']
    for i, l in enumerate(body):
        if l == '':
            lines.append(pre(i) + '*')
        else:
            lines.append(pre(i) + '*' + (' ' if (star_space or l.startswith(' ')) else '') + l)
    lines.append(pre(len(body)) + end_style)
    info['n_lines'] = len(lines)
    return eol.join(lines), info


def gen_layout(rng):
    return {'eol': rng.choice(['\n', '\n', '\r\n', '\r']), 'colon_ident': rng.random() < 0.8, 'split_anns': rng.random() < 0.4,
            'indent': rng.choice(['std', 'std', 'none', 'tab', 'ragged', 'deep']), 'star_space': rng.random() < 0.85,
            'end': rng.choice(['*/', '*/', '**/']), 'tag_case': rng.choice(['cap', 'cap', 'lower', 'upper']),
            'blank_before_tags': rng.random() < 0.7, 'pad_parens': rng.random() < 0.15}


# ---- neutral form of a parsed block and of a model ----------------------------------------------------
def _norm_opts(o):
    if o is None:
        return None
    if isinstance(o, dict):
        return [[k, v] for k, v in o.items()]
    return list(o)


def _norm_desc(d):
    """outer blank lines / whitespace are insignificant; '' == None"""
    if d is None:
        return None
    if isinstance(d, list):
        d = '\n'.join(d)
    d = d.strip()
    return d or None


def neutral_from_parsed(block):
    return {
        'name': block.name,
        'annotations': [[k, _norm_opts(v)] for k, v in block.annotations.items()],
        'params': [[p.name, [[k, _norm_opts(v)] for k, v in p.annotations.items()], _norm_desc(p.description)]
                   for p in block.params.values()],
        'description': _norm_desc(block.description),
        'tags': [[t.name, [[k, _norm_opts(v)] for k, v in t.annotations.items()], (t.value or None), _norm_desc(t.description)]
                 for t in block.tags.values()],
    }


def _model_opts(name, o):
    if o is None:
        return None
    if isinstance(o, dict):
        return [[k, v] for k, v in o.items()]
    return list(o)


def neutral_from_model(b):
    def anns(a):
        out = []
        for k, v in a.items():
            if v is None:
                out.append([k, None])
            elif isinstance(v, dict):
                out.append([k, [[kk, vv] for kk, vv in v.items()]])
            else:
                out.append([k, list(v)])
        return out
    return {
        'name': b['name'],
        'annotations': anns(b['annotations']),
        'params': [[p['name'], anns(p['annotations']), _norm_desc(p['description'])] for p in b['params']],
        'description': _norm_desc(b['description']),
        'tags': [[t['name'], anns(t['annotations']), t['value'], _norm_desc(t['description'])] for t in b['tags']],
    }
