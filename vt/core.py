"""Shared verdict / evidence / parallel-execution machinery for all checks.

Verdicts are three-valued (DESIGN.md section 0):
  exit 0  held on what was observed (KNOWN-FINDING lines allowed)
  exit 1  VIOLATION property=<id> replay=<path>
  exit 2  INCONCLUSIVE property=<id> reason=...
"""
import os, sys, json, time, random, hashlib, traceback, selectors, signal, collections, struct

VERIF = os.path.dirname(os.path.dirname(os.path.abspath(__file__)))
REPO = os.environ.get('VT_REPO', '/repo')
NPROC = int(os.environ.get('VT_JOBS', os.cpu_count() or 4))


def ensure_deps():
    """third-party deps (icontract, deal) live in /verif/.deps, installed offline from the wheelhouse."""
    deps = os.path.join(VERIF, '.deps')
    if not os.path.isdir(os.path.join(deps, 'icontract')):
        import subprocess
        subprocess.run([sys.executable, '-m', 'pip', 'install', '-q', '--no-index', '--find-links',
                        '/opt/veriftools/wheels', '--target', deps, 'icontract', 'deal'],
                       stdout=subprocess.DEVNULL, stderr=subprocess.DEVNULL)
    if deps not in sys.path:
        sys.path.insert(0, deps)


def rng_for(seed, *parts):
    return random.Random("%s/%s" % (seed, "/".join(str(p) for p in parts)))


class KnownFindings:
    def __init__(self):
        path = os.path.join(VERIF, 'known_findings.json')
        self.entries = []
        if os.path.exists(path):
            with open(path) as f:
                self.entries = json.load(f)

    def lookup(self, pid, key):
        for e in self.entries:
            if e.get('property') == pid and e.get('key') == key and e.get('status') == 'known':
                return e
        return None


class Check:
    """Collects what one run observed and turns it into verdict + evidence."""

    def __init__(self, pid, tier, seed, rule):
        self.pid, self.tier, self.seed, self.rule = pid, tier, seed, rule
        self.t0 = time.time()
        self.evaluations = 0
        self.classes = collections.Counter()      # coverage-class key -> count (non-trivial cases only)
        self.samples = []
        self.monitor_hits = collections.Counter()  # oracle name -> times it had something to decide
        self.mechanism_entries = collections.Counter()
        self.extra = {}
        self.violations = []          # (key, what, replay_obj)
        self.known_seen = collections.OrderedDict()
        self.inconclusive = []
        self.assumptions = []
        self.known = KnownFindings()
        self._viol_keys = collections.Counter()

    # -- recording ---------------------------------------------------------------------------
    def sample(self, obj, limit=5):
        if len(self.samples) < limit:
            self.samples.append(obj)

    def cls(self, key, n=1):
        self.classes[str(key)] += n

    def violation(self, key, what, replay=None):
        """key names the *mechanism* (never a case hash); classified against known_findings.json."""
        e = self.known.lookup(self.pid, key)
        if e is not None:
            if key not in self.known_seen:
                self.known_seen[key] = {'what': e.get('what', what), 'count': 0, 'first_witness': what}
            self.known_seen[key]['count'] += 1
            return
        self._viol_keys[key] += 1
        if self._viol_keys[key] <= 5:
            self.violations.append((key, what, replay))

    def require(self, cond, reason):
        if REPLAY is not None:
            return          # a single replayed case cannot satisfy coverage requirements
        if not cond:
            self.inconclusive.append(reason)

    def merge_counts(self, res):
        """merge a worker result dict with optional 'mech', 'hits', 'classes' counters."""
        for k, v in (res.get('mech') or {}).items():
            self.mechanism_entries[k] += v
        for k, v in (res.get('hits') or {}).items():
            self.monitor_hits[k] += v
        for k in (res.get('classes') or []):
            self.classes[str(k)] += 1

    # -- verdict -----------------------------------------------------------------------------
    def finish(self):
        wall = time.time() - self.t0
        os.makedirs(os.path.join(VERIF, 'evidence'), exist_ok=True)
        os.makedirs(os.path.join(VERIF, 'replays'), exist_ok=True)
        lines = []
        nviol = sum(self._viol_keys.values())
        replay_paths = []
        for i, (key, what, replay) in enumerate(self.violations):
            path = os.path.join(VERIF, 'replays', '%s-seed%s-%d%s.json' % (self.pid, self.seed, i, '-replayed' if REPLAY is not None else ''))
            with open(path, 'w') as f:
                json.dump({'property': self.pid, 'key': key, 'what': what, 'seed': self.seed,
                           'tier': self.tier, 'replay': replay}, f, indent=1, default=repr)
            replay_paths.append(path)
            lines.append("VIOLATION property=%s replay=%s key=%s :: %s" % (self.pid, path, key, what[:600]))
        for key, info in self.known_seen.items():
            lines.append("KNOWN-FINDING: property=%s %s [key=%s seen=%d]" % (self.pid, info['what'], key, info['count']))
        verdict = 'held'
        code = 0
        if nviol:
            verdict, code = 'violated', 1
        elif self.inconclusive:
            verdict, code = 'inconclusive', 2
            lines.append("INCONCLUSIVE property=%s reason=%s" % (self.pid, "; ".join(self.inconclusive)[:800]))
        cov = {
            'evaluations': int(self.evaluations),
            'distinct_nontrivial': len(self.classes),
            'rule': self.rule,
            'samples': self.samples if self.samples else ['(none)'],
            'monitor_hits': dict(self.monitor_hits),
            'mechanism_entries': dict(self.mechanism_entries),
            'class_histogram_top': dict(self.classes.most_common(40)),
            'known_findings_seen': {k: v['count'] for k, v in self.known_seen.items()},
            'verdict': verdict,
            'inconclusive_reasons': self.inconclusive,
            'violation_keys': dict(self._viol_keys),
        }
        cov.update(self.extra)
        ev = {
            'property_id': self.pid, 'tier': self.tier, 'seed': int(self.seed), 'level': 'exploration',
            'coverage': cov, 'assumptions': self.assumptions, 'wall_s': round(wall, 2), 'violations': int(nviol),
        }
        if REPLAY is None and os.path.realpath(REPO) == '/repo':      # evidence only ever describes runs against /repo itself
            with open(os.path.join(VERIF, 'evidence', self.pid + '.json'), 'w') as f:
                json.dump(ev, f, indent=1, default=repr, sort_keys=True)
        for l in lines:
            print(l)
        print("%s %s tier=%s seed=%s evaluations=%d classes=%d wall=%.1fs monitors=%s" % (
            self.pid, verdict.upper(), self.tier, self.seed, self.evaluations, len(self.classes), wall,
            dict(self.monitor_hits)))
        sys.stdout.flush()
        return code


# --------------------------------------------------------------------------------------------
# parallel execution: N worker processes, each optionally forking a grandchild per case

def _run_isolated(fn, case, timeout):
    """run fn(case) in a forked child; returns result dict or {'_crash':...}."""
    r, w = os.pipe()
    pid = os.fork()
    if pid == 0:
        os.close(r)
        try:
            try:
                res = fn(case)
            except SystemExit as e:
                res = {'_systemexit': str(e.code)}
            except BaseException as e:
                res = {'_exception': type(e).__name__ + ': ' + str(e), '_tb': traceback.format_exc()[-3000:]}
            data = json.dumps(res, default=repr).encode()
            with os.fdopen(w, 'wb') as f:
                f.write(data)
        finally:
            os._exit(0)
    os.close(w)
    chunks = []
    deadline = time.time() + timeout
    sel = selectors.DefaultSelector()
    sel.register(r, selectors.EVENT_READ)
    timed_out = False
    while True:
        left = deadline - time.time()
        if left <= 0:
            timed_out = True
            break
        ev = sel.select(left)
        if not ev:
            timed_out = True
            break
        b = os.read(r, 1 << 16)
        if not b:
            break
        chunks.append(b)
    sel.close()
    os.close(r)
    if timed_out:
        try:
            os.kill(pid, signal.SIGKILL)
        except OSError:
            pass
    _, status = os.waitpid(pid, 0)
    if timed_out:
        return {'_watchdog': True}
    data = b''.join(chunks)
    if not data:
        return {'_crash': status}
    try:
        return json.loads(data)
    except ValueError:
        return {'_crash': 'bad-json'}


def forkmap(fn, cases, jobs=None, isolated=True, timeout=60, init=None, progress=None):
    """Apply fn to every case using `jobs` worker processes (forked, so fn may be a closure and sees the
    parent's imported modules).  Yields (index, case, result) in completion order.  With isolated=True each
    case additionally runs in its own forked grandchild, which isolates the subject's process-global state
    and survives crashes / sys.exit / os._exit inside the subject."""
    cases = list(cases)
    jobs = min(jobs or NPROC, max(1, len(cases)))
    sys.stdout.flush(); sys.stderr.flush()
    readers = {}
    sel = selectors.DefaultSelector()
    pids = []
    for j in range(jobs):
        r, w = os.pipe()
        pid = os.fork()
        if pid == 0:
            os.close(r)
            for rr in readers:
                try:
                    os.close(rr)
                except OSError:
                    pass
            try:
                if init:
                    init()
                out = os.fdopen(w, 'wb')
                for i in range(j, len(cases), jobs):
                    if isolated:
                        res = _run_isolated(fn, cases[i], timeout)
                    else:
                        try:
                            res = fn(cases[i])
                        except SystemExit as e:
                            res = {'_systemexit': str(e.code)}
                        except BaseException as e:
                            res = {'_exception': type(e).__name__ + ': ' + str(e),
                                   '_tb': traceback.format_exc()[-3000:]}
                    data = json.dumps([i, res], default=repr).encode()
                    out.write(struct.pack('<I', len(data)) + data)
                    out.flush()
                out.close()
            finally:
                os._exit(0)
        os.close(w)
        readers[r] = bytearray()
        sel.register(r, selectors.EVENT_READ)
        pids.append(pid)
    done = 0
    open_r = set(readers)
    while open_r:
        for key, _ in sel.select(1.0):
            r = key.fd
            b = os.read(r, 1 << 20)
            if not b:
                sel.unregister(r)
                os.close(r)
                open_r.discard(r)
                continue
            buf = readers[r]
            buf += b
            while len(buf) >= 4:
                n = struct.unpack('<I', bytes(buf[:4]))[0]
                if len(buf) < 4 + n:
                    break
                i, res = json.loads(bytes(buf[4:4 + n]))
                del buf[:4 + n]
                done += 1
                yield i, cases[i], res
    sel.close()
    for pid in pids:
        try:
            os.waitpid(pid, 0)
        except OSError:
            pass


def is_harness_failure(res):
    return isinstance(res, dict) and ('_watchdog' in res or '_crash' in res)


def main_args(argv=None):
    import argparse
    ap = argparse.ArgumentParser()
    ap.add_argument('--tier', default=os.environ.get('VERIF_TIER', 'quick'), choices=['quick', 'thorough'])
    ap.add_argument('--seed', type=int, default=int(os.environ.get('VERIF_SEED', '0') or 0))
    ap.add_argument('--replay', default=None)
    ap.add_argument('--scale', type=float, default=float(os.environ.get('VT_SCALE', '1.0')))
    args = ap.parse_args(argv)
    args.replay_case = None
    if args.replay:
        # a replay file names the seed, tier and case index it came from: the generators are deterministic in
        # (seed, index), so the check re-creates exactly that case (and nothing else)
        global REPLAY
        with open(args.replay) as f:
            rep = json.load(f)
        REPLAY = rep
        args.seed = int(rep.get('seed', args.seed))
        args.tier = rep.get('tier', args.tier)
        inner = rep.get('replay')
        if isinstance(inner, dict) and inner.get('case') is not None:
            args.replay_case = inner['case']
    return args


REPLAY = None


def replay_cases(args, cases, make=None):
    """in replay mode: the one case the replay file names (make(seed, idx) builds the tuple), else all cases"""
    if not args.replay:
        return cases
    rc = args.replay_case
    if rc is None:
        return cases[:0]
    if not isinstance(rc, (list, tuple)):
        rc = [args.seed, rc]
    if make:
        return [make(*rc)]
    return [tuple(rc)]


def require_standin_validated(chk):
    """trusted-base monitor for the pyscan engine: the stand-in C front end plus the scanner passes of the tree under test must still
    reproduce the upstream expected GIRs (vt/selftest.py); otherwise the verdict of a pyscan check is not trustworthy -> inconclusive"""
    def job(_):
        from . import selftest
        return {'r': selftest.run()}
    res = None
    for _, c, r in forkmap(job, [0], isolated=True, timeout=300):
        res = r
    if not isinstance(res, dict) or 'r' not in res:
        chk.require(False, 'stand-in self-test did not run: %r' % (str(res)[:300],))
        return
    bad = [n for n, ok in res['r'] if not ok]
    chk.monitor_hits['standin_expected_girs_reproduced'] += len(res['r']) - len(bad)
    chk.require(not bad, 'the stand-in front end + scanner no longer reproduce upstream expected GIRs: %r' % bad)
