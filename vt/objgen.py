"""Generator of GObject-style libraries: scanned declarations (header) + the runtime introspection dump the library's
binary would produce.  Used by C12 (faithful merge), C03/C05/C07/C15/C16 (classes, properties, signals, vfuncs)."""
import collections
from xml.sax.saxutils import quoteattr
from . import apigen

GTYPE_TO_GI = {'gchar': 'gchar', 'guchar': 'guint8', 'gboolean': 'gboolean', 'gint': 'gint', 'guint': 'guint', 'glong': 'glong',
               'gulong': 'gulong', 'gint64': 'gint64', 'guint64': 'guint64', 'gfloat': 'gfloat', 'gdouble': 'gdouble',
               'gchararray': 'utf8', 'gpointer': 'gpointer', 'GType': 'GType', 'void': 'none', 'GObject': 'GObject.Object',
               'GVariant': 'GLib.Variant', 'GBytes': 'GLib.Bytes', 'GError': 'GLib.Error', 'GParam': 'GObject.ParamSpec',
               'GCancellable': 'Gio.Cancellable', 'GValue': 'GObject.Value', 'GInitiallyUnowned': 'GObject.InitiallyUnowned',
               'GAsyncResult': 'Gio.AsyncResult', 'GFile': 'Gio.File', 'GTask': 'Gio.Task', 'GClosure': 'GObject.Closure'}
PROP_TYPES = ['gint', 'guint', 'gboolean', 'gchararray', 'gdouble', 'gfloat', 'gint64', 'guint64', 'glong', 'gulong', 'gchar', 'guchar',
              'gpointer', 'GType', 'GObject', 'GVariant', 'GStrv', 'FooMode', 'FooFlags', 'GParam', 'GBytes', 'GValue']
SIG_TYPES = ['gint', 'guint', 'gboolean', 'gchararray', 'gdouble', 'gpointer', 'GObject', 'FooMode', 'GStrv', 'gint64', 'GVariant', 'GError']
WORDS = ['Widget', 'Button', 'Window', 'Item', 'Node', 'Text', 'TextBuffer', 'Stream', 'Source', 'Sink', 'Model', 'View', 'Box', 'Manager']


def gi_name_of_gtype(gt, own_types):
    """-> expected GI type name for a GType name, None when it cannot resolve"""
    if gt in GTYPE_TO_GI:
        return GTYPE_TO_GI[gt]
    if gt in own_types:
        return gt[3:]
    return None


def uscore(camel):
    out = ''
    for i, ch in enumerate(camel):
        if ch.isupper() and i and (not camel[i - 1].isupper()):
            out += '_'
        out += ch.lower()
    return out


def gen_props(rng, n):
    props = []
    names = ['size', 'label', 'is-active', 'has-default', 'long-name', 'x', 'mode', 'child', 'value', 'n-items', 'visible', 'data']
    rng.shuffle(names)
    for i in range(n):
        t = rng.choice(PROP_TYPES)
        flags = rng.choice([1, 2, 3, 3, 7, 11, 3 | (1 << 5), 3 | (1 << 6) | (1 << 7), 1 | (1 << 30), rng.getrandbits(32), 0, 225, 227, 231, 235])
        dv = None
        if t in ('gint', 'guint', 'gint64', 'glong') and rng.random() < 0.7:
            dv = str(rng.choice([0, 1, -1, 42]))
        elif t == 'gboolean' and rng.random() < 0.7:
            dv = rng.choice(['TRUE', 'FALSE'])
        elif t == 'gchararray' and rng.random() < 0.7:
            dv = rng.choice(['text', 'with "quotes" & <markup>', 'NULL', ' spaced '])
        elif t in ('gdouble', 'gfloat') and rng.random() < 0.5:
            dv = rng.choice(['0.000000', '1.500000'])
        elif t == 'FooMode' and rng.random() < 0.5:
            dv = 'FOO_MODE_A'
        props.append({'name': names[i], 'type': t, 'flags': flags, 'default': dv})
    return props


GTYPE_TO_C = {'gint': 'gint', 'guint': 'guint', 'gboolean': 'gboolean', 'gchararray': 'const gchar *', 'gdouble': 'gdouble', 'gpointer': 'gpointer',
              'GObject': 'GObject *', 'gint64': 'gint64', 'void': 'void'}


def gen_signals(rng, n):
    sigs = []
    names = ['changed', 'notify-me', 'button-press-event', 'x', 'item-added', 'closed', 'activate', 'row-changed']
    rng.shuffle(names)
    for i in range(n):
        sigs.append({'name': names[i], 'return': rng.choice(['void', 'void', 'gboolean', 'gint', 'gchararray', 'GObject']),
                     'when': rng.choice(['first', 'last', 'cleanup', None]),
                     'no_recurse': rng.random() < 0.2, 'detailed': rng.random() < 0.3, 'action': rng.random() < 0.2, 'no_hooks': rng.random() < 0.2,
                     'params': [rng.choice(SIG_TYPES) for _ in range(rng.choice([0, 1, 2, 3]))]})
    return sigs


def gen_vfuncs(rng, cname, n):
    out = []
    names = ['do_it', 'compute', 'changed', 'get_extent', 'reset', 'frob', 'load', 'save']     # none may collide with a property accessor (get_size did)
    rng.shuffle(names)
    for i in range(n):
        first = rng.choice(['self', 'self', 'self', 'other', 'none', 'parent'])
        params = []
        if first == 'self':
            params.append(('%s *' % cname, rng.choice(['self', 'widget', 'obj'])))
        elif first == 'other':
            params.append((rng.choice(['gint', 'const gchar *', 'FooRec *', 'gpointer']), 'a'))
        elif first == 'parent':
            params.append(('GObject *', 'object'))
        for k in range(rng.choice([0, 1, 2])):
            params.append((rng.choice(['gint', 'const gchar *', 'gdouble', 'FooMode', 'gboolean']), 'p%d' % k))
        out.append({'name': names[i], 'first': first, 'params': params, 'ret': rng.choice(['void', 'gint', 'gboolean'])})
    return out


def gen_objlib(rng):
    """-> model dict"""
    own = []
    names = list(WORDS)
    rng.shuffle(names)
    classes, ifaces = [], []
    nclass = rng.choice([1, 2, 3])
    niface = rng.choice([0, 1, 2])
    for i in range(niface):
        nm = 'Foo' + names.pop() + rng.choice(['able', 'Like', ''])
        ifaces.append({'name': nm, 'struct': nm + rng.choice(['Iface', 'Interface']), 'prereqs': [], 'props': gen_props(rng, rng.choice([0, 1])),
                       'signals': gen_signals(rng, rng.choice([0, 1])), 'vfuncs': gen_vfuncs(rng, nm, rng.choice([0, 1, 3])), 'private': False})
        own.append(nm)
    for i in range(nclass):
        nm = 'Foo' + names.pop()
        chain_kind = rng.choice(['gobject', 'gobject', 'unowned', 'hidden', 'own', 'hidden2'])
        if chain_kind == 'own' and classes:
            base = rng.choice(classes)
            base['class_struct'] = True
            base['final'] = False
            chain = [base['name']] + base['chain']
            pstruct = base['name']
        elif chain_kind == 'unowned':
            chain = ['GInitiallyUnowned', 'GObject']
            pstruct = 'GInitiallyUnowned'
        elif chain_kind == 'hidden':
            chain = ['FooPriv%sBase' % nm[3:], 'GObject']
            pstruct = 'GObject'
        elif chain_kind == 'hidden2':
            chain = ['XyzHidden', 'FooAlsoHidden', 'GInitiallyUnowned', 'GObject']
            pstruct = 'GInitiallyUnowned'
        else:
            chain = ['GObject']
            pstruct = 'GObject'
        impl = []
        for f in ifaces:
            if rng.random() < 0.5:
                impl.append(f['name'])
        if rng.random() < 0.3:
            impl.append(rng.choice(['GAsyncResult', 'FooPrivIface', 'GFile']))
        classes.append({'name': nm, 'chain': chain, 'pstruct': pstruct, 'abstract': rng.random() < 0.2, 'final': rng.random() < 0.15,
                        'implements': impl, 'props': gen_props(rng, rng.choice([0, 1, 2, 4])), 'signals': gen_signals(rng, rng.choice([0, 1, 2])),
                        'vfuncs': gen_vfuncs(rng, nm, rng.choice([0, 1, 2, 4])), 'class_struct': rng.random() < 0.85,
                        'methods': rng.choice([0, 1, 2]), 'ctor': rng.random() < 0.7, 'accessors': rng.random() < 0.5,
                        'async': rng.random() < 0.3})
        own.append(nm)
    for f in ifaces:
        if rng.random() < 0.5:
            f['prereqs'].append(rng.choice(['GObject'] + [c['name'] for c in classes] + ['FooPrivBaseThing']))
    boxed = []
    for i in range(rng.choice([0, 1, 2])):
        nm = 'Foo' + names.pop()
        boxed.append({'name': nm, 'decl': rng.choice(['record', 'record', 'union', 'none', 'opaque'])})
        own.append(nm)
    enums = []
    for i in range(rng.choice([0, 1, 2])):
        nm = 'Foo' + names.pop() + rng.choice(['Kind', 'Type'])
        flags = rng.random() < 0.4
        mem = [('FOO_%s_%s' % (uscore(nm[3:]).upper(), w), (1 << k) if flags else k) for k, w in enumerate(rng.sample(['ONE', 'TWO', 'THREE_WORDS', 'X'], rng.choice([2, 3])))]
        enums.append({'name': nm, 'flags': flags, 'members': mem, 'registered': rng.random() < 0.8, 'helpers': rng.random() < 0.5})
        own.append(nm)
    quarks = []
    for i in range(rng.choice([0, 1, 2])):
        nm = 'Foo' + names.pop() + 'Error'
        quarks.append({'enum': nm, 'func': 'foo_%s_quark' % uscore(nm[3:]), 'domain': 'foo-%s-quark' % uscore(nm[3:]).replace('_', '-'),
                       'has_enum': rng.random() < 0.8, 'members': [('FOO_%s_FAILED' % uscore(nm[3:]).upper(), 0), ('FOO_%s_OTHER' % uscore(nm[3:]).upper(), 1)]})
        own.append(nm)
    # an error enumeration whose name starts with an acronym (FooDBusError <-> foo_dbus_error_quark): chosen from the model, not
    # from the random stream
    acr = [('FooDBusError', 'foo_dbus_error_quark', 'DBUS_ERROR'), ('FooIOError', 'foo_io_error_quark', 'IO_ERROR'),
           ('FooTLSError', 'foo_tls_error_quark', 'TLS_ERROR'), None][(len(classes) + len(ifaces) + len(boxed)) % 4]
    if acr:
        quarks.append({'enum': acr[0], 'func': acr[1], 'domain': acr[1][:-6].replace('_', '-') + '-quark', 'has_enum': True,
                       'members': [('FOO_%s_FAILED' % acr[2], 0), ('FOO_%s_OTHER' % acr[2], 1)]})
        own.append(acr[0])
    for c in classes:
        for sg in c['signals']:
            if rng.random() < 0.5 and sg['return'] in GTYPE_TO_C and all(t in GTYPE_TO_C for t in sg['params']):
                sg['emitter'] = 'emit_' + sg['name'].replace('-', '_')
    registered = [c['name'] for c in classes] + [f['name'] for f in ifaces if not f['private']] + [b['name'] for b in boxed] + \
                 [e['name'] for e in enums if e['registered']]
    for holder in classes + ifaces:
        for p in holder['props']:
            if registered and rng.random() < 0.25:
                p['type'] = rng.choice(registered)
                p['default'] = None
        for sg in holder['signals']:
            if registered and rng.random() < 0.3 and not sg.get('emitter'):
                sg['params'].append(rng.choice(registered))
    # fundamental (non-GObject) instantiatable type hierarchies: roots without parents, roots behind a hidden type, derived ones
    fundamentals = []
    if rng.random() < 0.4:
        for i in range(rng.choice([1, 2, 3])):
            if not names:
                break
            nm = 'Foo' + names.pop()
            kind = rng.choice(['root', 'root', 'hidden-root', 'derived', 'derived-hidden']) if fundamentals else rng.choice(['root', 'root', 'hidden-root'])
            base = rng.choice(fundamentals)['name'] if fundamentals else None
            chain = {'root': [], 'hidden-root': ['FooPriv%sBase' % nm[3:]], 'derived': [base] + (rng.choice(fundamentals)['chain'] if False else []),
                     'derived-hidden': ['FooPriv%sMid' % nm[3:], base]}[kind]
            if kind in ('derived', 'derived-hidden'):
                chain = chain + [x for x in next(f for f in fundamentals if f['name'] == base)['chain']]
            fundamentals.append({'name': nm, 'chain': chain, 'abstract': rng.random() < 0.3, 'final': rng.random() < 0.2, 'kind': kind,
                                 'implements': [f['name'] for f in ifaces if rng.random() < 0.2]})
            own.append(nm)
    return {'classes': classes, 'ifaces': ifaces, 'boxed': boxed, 'enums': enums, 'quarks': quarks, 'own': own, 'registered': registered,
            'fundamentals': fundamentals}


def render_objlib(m, rng=None):
    """-> (header text, dump xml)"""
    h = [apigen.PRELUDE]
    d = ['<?xml version="1.0"?>', '<dump>']
    for f in m['ifaces']:
        nm, st = f['name'], f['struct']
        us = 'foo_' + uscore(nm[3:])
        h.append('typedef struct _%s %s;' % (nm, nm))
        h.append('typedef struct _%s %s;' % (st, st))
        pre, body = _slot_decls(nm, f['vfuncs'])
        h.extend(pre)
        h.append('struct _%s {\n  GTypeInterface parent_iface;' % st)
        h.extend(body)
        h.append('};')
        gt = ('_' if f['private'] else '') + us + '_get_type'
        h.append('GType %s (void);' % gt)
        for v in f['vfuncs']:
            if v['first'] == 'self':
                h.append(apigen.render_function('%s_%s' % (us, v['name']), v['ret'], v['params']))
        d.append('  <interface name=%s get-type=%s>' % (quoteattr(nm), quoteattr(gt)))
        for p in f['prereqs']:
            d.append('    <prerequisite name=%s/>' % quoteattr(p))
        d.extend(_dump_props(f['props']))
        d.extend(_dump_signals(f['signals']))
        d.append('  </interface>')
    for c in m['classes']:
        nm = c['name']
        us = 'foo_' + uscore(nm[3:])
        h.append('typedef struct _%s %s;' % (nm, nm))
        # some instance structures carry an anonymous union or structure member (they become <union>/<record> children of <class>)
        extra = {0: '  union {\n    gint i;\n    gdouble d;\n  } u;\n', 1: '  struct {\n    gint a;\n    gint b;\n  } s;\n'}.get(len(nm) % 4, '')
        h.append('struct _%s {\n  %s parent_instance;\n  gint priv_count;\n%s};' % (nm, c['pstruct'], extra))
        if c['class_struct']:
            h.append('typedef struct _%sClass %sClass;' % (nm, nm))
            pre, body = _slot_decls(nm, c['vfuncs'])
            h.extend(pre)
            h.append('struct _%sClass {\n  %sClass parent_class;' % (nm, c['pstruct']))
            h.extend(body)
            h.append('  gpointer padding[4];\n};')
        h.append('GType %s_get_type (void);' % us)
        if c['ctor']:
            h.append('%s *%s_new (void);' % (nm, us))
        for k in range(c['methods']):
            h.append('void %s_method%d (%s *self, gint x);' % (us, k, nm))
        if c.get('async'):
            # an asynchronous operation with its finish function, the synchronous sibling of the default name and another one
            h.append('void %s_fetch_async (%s *self, GCancellable *cancellable, GAsyncReadyCallback callback, gpointer user_data);' % (us, nm))
            h.append('gboolean %s_fetch_finish (%s *self, GAsyncResult *result, GError **error);' % (us, nm))
            h.append('gboolean %s_fetch (%s *self, GCancellable *cancellable, GError **error);' % (us, nm))
            h.append('gboolean %s_fetch_blocking (%s *self, GCancellable *cancellable, GError **error);' % (us, nm))
        for sg in c['signals']:
            if sg.get('emitter'):
                ps = [('%s *' % nm, 'self')] + [(GTYPE_TO_C[t], 'a%d' % i) for i, t in enumerate(sg['params'])]
                h.append(apigen.render_function('%s_%s' % (us, sg['emitter']), GTYPE_TO_C[sg['return']].replace('const ', ''), ps))
        for v in c['vfuncs']:
            if v['first'] == 'self' and c['class_struct'] and rng is not None and rng.random() < 0.6:
                h.append(apigen.render_function('%s_%s' % (us, v['name']), v['ret'], v['params']))
        if c['accessors']:
            for p in c['props']:
                if p['type'] == 'gint':
                    h.append('gint %s_get_%s (%s *self);' % (us, p['name'].replace('-', '_'), nm))
                    h.append('void %s_set_%s (%s *self, gint value);' % (us, p['name'].replace('-', '_'), nm))
        at = ''
        if c['abstract']:
            at += ' abstract="1"'
        if c['final']:
            at += ' final="1"'
        d.append('  <class name=%s get-type=%s parents=%s%s>' % (quoteattr(nm), quoteattr(us + '_get_type'), quoteattr(','.join(c['chain'])), at))
        for i in c['implements']:
            d.append('    <implements name=%s/>' % quoteattr(i))
        d.extend(_dump_props(c['props']))
        d.extend(_dump_signals(c['signals']))
        d.append('  </class>')
    for fu in m.get('fundamentals', []):
        nm = fu['name']
        us = 'foo_' + uscore(nm[3:])
        h.append('typedef struct _%s %s;\nstruct _%s {\n  GTypeInstance parent_instance;\n  gint ref_count;\n};' % (nm, nm, nm))
        h.append('GType %s_get_type (void);' % us)
        at = ' instantiatable="1"'
        if fu['abstract']:
            at += ' abstract="1"'
        if fu['final']:
            at += ' final="1"'
        if fu['chain']:
            at += ' parents=%s' % quoteattr(','.join(fu['chain']))
        d.append('  <fundamental name=%s get-type=%s%s>' % (quoteattr(nm), quoteattr(us + '_get_type'), at))
        for i in fu['implements']:
            d.append('    <implements name=%s/>' % quoteattr(i))
        d.append('  </fundamental>')
    for b in m['boxed']:
        nm = b['name']
        us = 'foo_' + uscore(nm[3:])
        if b['decl'] == 'record':
            h.append('typedef struct _%s %s;\nstruct _%s {\n  gint a;\n  gdouble b;\n};' % (nm, nm, nm))
        elif b['decl'] == 'union':
            h.append('typedef union _%s %s;\nunion _%s {\n  gint a;\n  gdouble b;\n};' % (nm, nm, nm))
        elif b['decl'] == 'opaque':
            h.append('typedef struct _%s %s;' % (nm, nm))
        h.append('GType %s_get_type (void);' % us)
        if b['decl'] != 'none':
            h.append('%s *%s_copy (%s *self);' % (nm, us, nm))
            h.append('%s *%s_new (gint a);' % (nm, us))         # a constructor of a registered record/union
        d.append('  <boxed name=%s get-type=%s/>' % (quoteattr(nm), quoteattr(us + '_get_type')))
    for e in m['enums']:
        nm = e['name']
        us = 'foo_' + uscore(nm[3:])
        h.append('typedef enum {\n%s\n} %s;' % (',\n'.join('  %s = %d' % (n, v) for n, v in e['members']), nm))
        if e['registered']:
            h.append('GType %s_get_type (void);' % us)
            if e.get('helpers'):
                # functions carrying the symbol prefix of a registered enumeration/flags type become its (static) functions
                h.append('const gchar *%s_to_string (%s value);' % (us, nm))
                h.append('gint %s_count_values (void);' % us)
            tag = 'flags' if e['flags'] else 'enum'
            d.append('  <%s name=%s get-type=%s>' % (tag, quoteattr(nm), quoteattr(us + '_get_type')))
            prefix = 'FOO_%s_' % uscore(nm[3:]).upper()
            for n, v in e['members']:
                d.append('    <member name=%s nick=%s value="%d"/>' % (quoteattr(n), quoteattr(n[len(prefix):].lower().replace('_', '-')), v))
            d.append('  </%s>' % tag)
    for q in m['quarks']:
        if q['has_enum']:
            h.append('typedef enum {\n%s\n} %s;' % (',\n'.join('  %s = %d' % (n, v) for n, v in q['members']), q['enum']))
        h.append('GQuark %s (void);' % q['func'])
        d.append('  <error-quark function=%s domain=%s/>' % (quoteattr(q['func']), quoteattr(q['domain'])))
    d.append('</dump>')
    return '\n'.join(h) + '\n', '\n'.join(d) + '\n'


def _slot_decls(owner, vfuncs):
    """members of a class/interface structure: function pointers written inline or, for some, through a callback typedef of
    their own (FooButtonComputeFunc compute;) - chosen from the names, not from the random stream"""
    pre, body = [], []
    for v in vfuncs:
        ps = ', '.join(apigen.decl(sp, n) for sp, n in v['params']) or 'void'
        if (len(owner) + len(v['name'])) % 3 == 0:
            tn = '%s%sFunc' % (owner, ''.join(w.capitalize() for w in v['name'].split('_')))
            pre.append('typedef %s (*%s) (%s);' % (v['ret'], tn, ps))
            body.append('  %s %s;' % (tn, v['name']))
        else:
            body.append('  %s (*%s) (%s);' % (v['ret'], v['name'], ps))
    return pre, body


def _dump_props(props):
    out = []
    for p in props:
        dv = (' default-value=%s' % quoteattr(p['default'])) if p['default'] is not None else ''
        out.append('    <property name=%s type=%s flags="%d"%s/>' % (quoteattr(p['name']), quoteattr(p['type']), p['flags'], dv))
    return out


def _dump_signals(sigs):
    out = []
    for s in sigs:
        at = ''
        if s['when']:
            at += ' when="%s"' % s['when']
        for k, a in (('no_recurse', 'no-recurse'), ('detailed', 'detailed'), ('action', 'action'), ('no_hooks', 'no-hooks')):
            if s[k]:
                at += ' %s="1"' % a
        out.append('    <signal name=%s return=%s%s>' % (quoteattr(s['name']), quoteattr(s['return']), at))
        for t in s['params']:
            out.append('      <param type=%s/>' % quoteattr(t))
        out.append('    </signal>')
    return out
