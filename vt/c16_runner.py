"""One scanner run in a fresh interpreter (property C16): reads a case file, prints {'gir': ..., 'fatal': ...} as JSON."""
import sys, os, json


def main():
    case = json.load(open(sys.argv[1]))
    from vt import scan
    scan.setup()
    if case.get('cache_home'):
        os.environ.pop('GI_SCANNER_DISABLE_CACHE', None)
        os.environ['XDG_CACHE_HOME'] = case['cache_home']
    lib = case['lib']
    lib['headers'] = [tuple(x) for x in lib['headers']]
    lib['sources'] = [tuple(x) for x in lib.get('sources') or []]
    from giscanner import cachestore
    loads = []
    orig_load = cachestore.CacheStore.load

    def load(self, filename):
        d = orig_load(self, filename)
        loads.append(d is not None)
        return d
    cachestore.CacheStore.load = load
    r = scan.scan(lib)
    json.dump({'gir': r['gir'], 'fatal': r['fatal'], 'exception': r['exception'], 'tb': r.get('traceback'),
               'hashseed': os.environ.get('PYTHONHASHSEED'), 'cache_hits': sum(loads), 'cache_misses': len(loads) - sum(loads), 'cache_entries': (sorted(os.listdir(os.path.join(case['cache_home'], 'g-ir-scanner')))
                                                                             if case.get('cache_home') and os.path.isdir(os.path.join(case['cache_home'], 'g-ir-scanner')) else None)},
              sys.stdout)


if __name__ == '__main__':
    main()
