"""Independent decoder for the binary GObject-Introspection typelib format.

This module is an *oracle*: it is written from the published layout
(girepository/gitypelib-internal.h struct definitions and doc comments, and
the enums of girepository/gitypes.h) and shares no code with, and never calls
into, the repository under test.  Pure Python 3, stdlib only.

Layout conventions used here
----------------------------
* little endian scalars (x86-64);
* C bit-fields are allocated LSB first inside their storage unit (gcc,
  x86-64), so for ``guint16 a:1; guint16 b:15`` ``a`` is bit 0;
* all offsets are byte offsets from the start of the file;
* directory indexes are 1-based (0 = "none");
* element strides of arrays of blobs are taken from the ``*_blob_size``
  fields of the header (this is what the format prescribes), while field
  positions inside one blob are the fixed ones of the struct definitions.

Public API: ``Typelib``, ``TypelibDecodeError``; see the class docstring.
"""

from __future__ import annotations

import json
import math
import struct
import sys

__all__ = ["Typelib", "TypelibDecodeError", "STRUCT_SIZES", "TYPE_TAG_NAMES",
           "BLOB_TYPE_NAMES"]


class TypelibDecodeError(Exception):
    """Raised for any malformed / out-of-bounds typelib content."""


MAGIC = b"GOBJ\nMETADATA\r\n\x1a"

# --- enums (gitypes.h / gitypelib-internal.h) -------------------------------

BLOB_TYPE_INVALID = 0
BLOB_TYPE_FUNCTION = 1
BLOB_TYPE_CALLBACK = 2
BLOB_TYPE_STRUCT = 3
BLOB_TYPE_BOXED = 4
BLOB_TYPE_ENUM = 5
BLOB_TYPE_FLAGS = 6
BLOB_TYPE_OBJECT = 7
BLOB_TYPE_INTERFACE = 8
BLOB_TYPE_CONSTANT = 9
BLOB_TYPE_INVALID_0 = 10
BLOB_TYPE_UNION = 11

BLOB_TYPE_NAMES = {
    0: "invalid", 1: "function", 2: "callback", 3: "struct", 4: "boxed",
    5: "enum", 6: "flags", 7: "object", 8: "interface", 9: "constant",
    10: "invalid_0", 11: "union",
}

TYPE_TAG_NAMES = {
    0: "void", 1: "gboolean", 2: "gint8", 3: "guint8", 4: "gint16",
    5: "guint16", 6: "gint32", 7: "guint32", 8: "gint64", 9: "guint64",
    10: "gfloat", 11: "gdouble", 12: "GType", 13: "utf8", 14: "filename",
    15: "array", 16: "interface", 17: "glist", 18: "gslist", 19: "ghash",
    20: "error", 21: "gunichar",
}
TAG_VOID, TAG_BOOLEAN, TAG_INT8, TAG_UINT8, TAG_INT16, TAG_UINT16 = range(6)
TAG_INT32, TAG_UINT32, TAG_INT64, TAG_UINT64, TAG_FLOAT, TAG_DOUBLE = range(6, 12)
TAG_GTYPE, TAG_UTF8, TAG_FILENAME, TAG_ARRAY, TAG_INTERFACE = range(12, 17)
TAG_GLIST, TAG_GSLIST, TAG_GHASH, TAG_ERROR, TAG_UNICHAR = range(17, 22)

BASIC_TAGS = frozenset(list(range(0, 15)) + [TAG_UNICHAR])

ARRAY_TYPE_NAMES = {0: "c", 1: "array", 2: "ptr_array", 3: "byte_array"}
SCOPE_TYPE_NAMES = {0: "invalid", 1: "call", 2: "async", 3: "notified",
                    4: "forever"}
TRANSFER_NAMES = {0: "nothing", 1: "container", 2: "everything"}
DIRECTION_NAMES = {0: "in", 1: "out", 2: "inout"}

GI_SECTION_END = 0
GI_SECTION_DIRECTORY_INDEX = 1

ACCESSOR_SENTINEL = 0x3FF
ASYNC_SENTINEL = 0x3FF

# --- struct sizes as defined by the format (computed by hand from the
#     struct definitions, cross-checked against CHECK_SIZE in the C code) ----

STRUCT_SIZES = {
    "Header": 112, "DirEntry": 12, "SimpleTypeBlob": 4, "ArgBlob": 16,
    "SignatureBlob": 8, "CommonBlob": 8, "FunctionBlob": 20,
    "CallbackBlob": 12, "InterfaceTypeBlob": 4, "ArrayTypeBlob": 8,
    "ParamTypeBlob": 4, "ErrorTypeBlob": 4, "ValueBlob": 12, "FieldBlob": 16,
    "RegisteredTypeBlob": 16, "StructBlob": 32, "EnumBlob": 24,
    "PropertyBlob": 16, "SignalBlob": 16, "VFuncBlob": 20, "ObjectBlob": 60,
    "InterfaceBlob": 40, "ConstantBlob": 24, "AttributeBlob": 12,
    "UnionBlob": 40, "Section": 8,
}

# header field -> struct whose size it must carry.  error_domain_blob_size
# refers to the deleted ErrorDomainBlob (it was 16 bytes; the field is dead
# but still written), so it is checked against 16 as a literal.
HEADER_BLOB_SIZES = (
    ("entry_blob_size", "DirEntry", 12),
    ("function_blob_size", "FunctionBlob", 20),
    ("callback_blob_size", "CallbackBlob", 12),
    ("signal_blob_size", "SignalBlob", 16),
    ("vfunc_blob_size", "VFuncBlob", 20),
    ("arg_blob_size", "ArgBlob", 16),
    ("property_blob_size", "PropertyBlob", 16),
    ("field_blob_size", "FieldBlob", 16),
    ("value_blob_size", "ValueBlob", 12),
    ("attribute_blob_size", "AttributeBlob", 12),
    ("constant_blob_size", "ConstantBlob", 24),
    ("error_domain_blob_size", "ErrorDomainBlob(deleted)", 16),
    ("signature_blob_size", "SignatureBlob", 8),
    ("enum_blob_size", "EnumBlob", 24),
    ("struct_blob_size", "StructBlob", 32),
    ("object_blob_size", "ObjectBlob", 60),
    ("interface_blob_size", "InterfaceBlob", 40),
    ("union_blob_size", "UnionBlob", 40),
)

_HEADER_FMT = "<16sBBHHHIIIIIIIII18HI6H"
assert struct.calcsize(_HEADER_FMT) == 112

_MAX_TYPE_DEPTH = 32
_TYPE_BUDGET = 1000000   # complex type blobs decoded per top-level blob


def _bits(v, pos, width=1):
    return (v >> pos) & ((1 << width) - 1)


def _flag(v, pos):
    return bool((v >> pos) & 1)


class Typelib:
    """Decoded typelib.

    Attributes
      data        the raw bytes
      header      dict of all Header fields by C name (string-valued fields
                  are decoded to str/None; raw offsets in header['_offsets']);
                  header['dependencies_list'] is the '|' split list
      sections    [(id, offset), ...] (GI_SECTION_END excluded)
      directory_index   None or {'offset','dirmap_offset','raw','table'}
      attributes  [{'offset','name','value'}, ...] in file order
      entries     list of directory entry dicts (lazy; decodes all blobs)

    Every decoded blob dict carries '_offset' (its file offset); string
    fields are decoded (offset 0 -> None) and their raw offsets are kept in
    blob['_offsets'][field].
    """

    def __init__(self, data):
        if isinstance(data, (bytearray, memoryview)):
            data = bytes(data)
        if not isinstance(data, bytes):
            raise TypelibDecodeError("typelib data must be bytes")
        self.data = data
        self._len = len(data)
        self._soft = []          # non-fatal problems noticed while decoding
        self._entries = None
        self._blob_cache = {}
        self._type_budget = _TYPE_BUDGET
        self._in_blob = False
        self._decode_header()
        self._decode_directory()
        self._decode_sections()
        self._decode_attributes()

    @classmethod
    def check(cls, data):
        """validate_structure() that also turns a fatal decode error of the
        header/directory/section/attribute tables into a problem string."""
        try:
            return cls(data).validate_structure()
        except TypelibDecodeError as e:
            return ["fatal: %s" % e]

    # ------------------------------------------------------------------
    # primitive, bounds-checked readers
    # ------------------------------------------------------------------

    def _need(self, off, n, what):
        if not isinstance(off, int) or off < 0 or n < 0 or off + n > self._len:
            raise TypelibDecodeError(
                "%s: range [%r, +%d) is outside the file (size %d)"
                % (what, off, n, self._len))

    def _u8(self, off, what="u8"):
        self._need(off, 1, what)
        return self.data[off]

    def _i8(self, off, what="i8"):
        self._need(off, 1, what)
        v = self.data[off]
        return v - 256 if v >= 128 else v

    def _u16(self, off, what="u16"):
        self._need(off, 2, what)
        return self.data[off] | (self.data[off + 1] << 8)

    def _u32(self, off, what="u32"):
        self._need(off, 4, what)
        return int.from_bytes(self.data[off:off + 4], "little")

    def _i32(self, off, what="i32"):
        self._need(off, 4, what)
        return int.from_bytes(self.data[off:off + 4], "little", signed=True)

    def _warn(self, msg):
        if msg not in self._soft:
            self._soft.append(msg)

    # ------------------------------------------------------------------
    # strings
    # ------------------------------------------------------------------

    def string_bytes(self, offset):
        """Raw bytes of the NUL-terminated string at ``offset`` (no NUL)."""
        if not isinstance(offset, int) or offset < 0 or offset >= self._len:
            raise TypelibDecodeError(
                "string offset %r is outside the file (size %d)"
                % (offset, self._len))
        end = self.data.find(b"\0", offset)
        if end < 0:
            raise TypelibDecodeError(
                "string at offset %d is not NUL-terminated inside the file"
                % offset)
        return self.data[offset:end]

    def string(self, offset):
        """The string at ``offset`` (UTF-8; undecodable bytes are kept via
        surrogateescape)."""
        return self.string_bytes(offset).decode("utf-8", "surrogateescape")

    def _optstr(self, offset):
        """String field where offset 0 means NULL."""
        if offset == 0:
            return None
        return self.string(offset)

    def _strfield(self, d, key, off, optional=True):
        v = self._u32(off, key)
        d.setdefault("_offsets", {})[key] = v
        if v == 0 and optional:
            d[key] = None
        else:
            d[key] = self.string(v)
        return d[key]

    # ------------------------------------------------------------------
    # header / directory / sections / attributes
    # ------------------------------------------------------------------

    def _decode_header(self):
        if self._len < 112:
            raise TypelibDecodeError(
                "file too short for a Header: %d < 112 bytes" % self._len)
        f = struct.unpack_from(_HEADER_FMT, self.data, 0)
        names = ["magic", "major_version", "minor_version", "reserved",
                 "n_entries", "n_local_entries", "directory", "n_attributes",
                 "attributes", "dependencies", "size", "namespace",
                 "nsversion", "shared_library", "c_prefix"]
        h = dict(zip(names, f[:15]))
        sizes = ["entry_blob_size", "function_blob_size",
                 "callback_blob_size", "signal_blob_size", "vfunc_blob_size",
                 "arg_blob_size", "property_blob_size", "field_blob_size",
                 "value_blob_size", "attribute_blob_size",
                 "constant_blob_size", "error_domain_blob_size",
                 "signature_blob_size", "enum_blob_size", "struct_blob_size",
                 "object_blob_size", "interface_blob_size", "union_blob_size"]
        h.update(zip(sizes, f[15:33]))
        h["sections"] = f[33]
        h["padding"] = list(f[34:40])
        # a wrong magic is reported by validate_structure(); decoding goes on
        # (every read is bounds-checked anyway)
        self.raw_header = dict(h)
        offs = {}
        for k in ("dependencies", "namespace", "nsversion", "shared_library",
                  "c_prefix"):
            offs[k] = h[k]
            try:
                h[k] = self._optstr(h[k])
            except TypelibDecodeError as e:
                raise TypelibDecodeError("header.%s: %s" % (k, e))
        h["_offsets"] = offs
        deps = h["dependencies"]
        h["dependencies_list"] = deps.split("|") if deps else []
        sl = h["shared_library"]
        h["shared_library_list"] = sl.split(",") if sl else []
        self.header = h
        self._sz = {k: h[k] for k in sizes}

    def _decode_directory(self):
        h = self.header
        n = h["n_entries"]
        stride = h["entry_blob_size"]
        base = h["directory"]
        if n and stride < 12:
            raise TypelibDecodeError(
                "header.entry_blob_size %d is smaller than DirEntry (12)"
                % stride)
        if n:
            self._need(base, (n - 1) * stride + 12, "directory")
        raw = []
        for i in range(n):
            o = base + i * stride
            flags = self._u16(o + 2)
            raw.append({
                "index": i + 1,
                "_offset": o,
                "blob_type": self._u16(o),
                "local": _flag(flags, 0),
                "reserved": _bits(flags, 1, 15),
                "name_offset": self._u32(o + 4),
                "offset": self._u32(o + 8),
            })
        self._dir = raw

    def _decode_sections(self):
        self.sections = []
        self.directory_index = None
        self._sections_terminated = True
        off = self.header["sections"]
        if off == 0:
            return
        self._sections_terminated = False
        o = off
        while o + 8 <= self._len:
            sid = self._u32(o)
            soff = self._u32(o + 4)
            if sid == GI_SECTION_END:
                self._sections_terminated = True
                break
            self.sections.append((sid, soff))
            o += 8
        if not self._sections_terminated:
            raise TypelibDecodeError(
                "section table at %d is not terminated by GI_SECTION_END "
                "inside the file" % off)
        for sid, soff in self.sections:
            if sid == GI_SECTION_DIRECTORY_INDEX and self.directory_index is None:
                # guint32 dirmap_offset; packed hash function; then at
                # dirmap_offset a guint16 table with one slot per local entry
                dirmap = self._u32(soff, "directory index section")
                n = self.header["n_local_entries"]
                self._need(soff, dirmap + 2 * n, "directory index section")
                table = [self._u16(soff + dirmap + 2 * i) for i in range(n)]
                self.directory_index = {
                    "offset": soff,
                    "dirmap_offset": dirmap,
                    "raw": self.data[soff:soff + dirmap + 2 * n],
                    "table": table,
                }

    def _decode_attributes(self):
        h = self.header
        n = h["n_attributes"]
        base = h["attributes"]
        stride = h["attribute_blob_size"]
        self.attributes = []
        if n == 0:
            return
        if stride < 12:
            raise TypelibDecodeError(
                "header.attribute_blob_size %d is smaller than AttributeBlob "
                "(12)" % stride)
        self._need(base, (n - 1) * stride + 12, "attribute table")
        for i in range(n):
            o = base + i * stride
            try:
                self.attributes.append({
                    "_offset": o,
                    "offset": self._u32(o),
                    "name": self.string(self._u32(o + 4)),
                    "value": self.string(self._u32(o + 8)),
                })
            except TypelibDecodeError as e:
                raise TypelibDecodeError("attribute #%d: %s" % (i, e))

    def attributes_of(self, blob_offset):
        """[(name, value), ...] of the attributes attached to the blob at
        ``blob_offset``, in file order."""
        return [(a["name"], a["value"]) for a in self.attributes
                if a["offset"] == blob_offset]

    # ------------------------------------------------------------------
    # directory entries
    # ------------------------------------------------------------------

    def _check_index(self, index):
        return isinstance(index, int) and 1 <= index <= len(self._dir)

    def entry_header(self, index):
        """Directory entry (1-based) without decoding its blob."""
        if not self._check_index(index):
            raise TypelibDecodeError(
                "directory index %r out of range 1..%d"
                % (index, len(self._dir)))
        r = self._dir[index - 1]
        e = {"index": r["index"], "_offset": r["_offset"],
             "blob_type": r["blob_type"],
             "blob_type_name": BLOB_TYPE_NAMES.get(r["blob_type"], "unknown"),
             "local": r["local"], "reserved": r["reserved"],
             "name": self.string(r["name_offset"]),
             "offset": r["offset"],
             "_offsets": {"name": r["name_offset"]}}
        if not r["local"]:
            e["namespace"] = self.string(r["offset"])
        return e

    def entry(self, index):
        """Directory entry (1-based) including the decoded blob if local."""
        e = self.entry_header(index)
        if e["local"]:
            e["blob"] = self.decode_blob(e["blob_type"], e["offset"])
        return e

    @property
    def entries(self):
        if self._entries is None:
            self._entries = [self.entry(i)
                             for i in range(1, len(self._dir) + 1)]
        return self._entries

    def find(self, name):
        """First directory entry (with blob) called ``name`` or None."""
        for r in self._dir:
            try:
                if self.string(r["name_offset"]) == name:
                    return self.entry(r["index"])
            except TypelibDecodeError:
                continue
        return None

    # ------------------------------------------------------------------
    # types
    # ------------------------------------------------------------------

    def decode_simple_type(self, off, _depth=0):
        """Decode the SimpleTypeBlob stored at file offset ``off``."""
        if _depth == 0 and not self._in_blob:
            self._type_budget = _TYPE_BUDGET
        v = self._u32(off, "SimpleTypeBlob")
        # reserved: bits 0-7, reserved2: bits 8-23, pointer: bit 24,
        # reserved3: bits 25-26, tag: bits 27-31
        if v & 0x00FFFFFF == 0:
            tag = _bits(v, 27, 5)
            if tag not in BASIC_TAGS:
                self._warn("SimpleTypeBlob at %d embeds non-basic tag %d"
                           % (off, tag))
            return {"kind": "basic", "_offset": off, "tag": tag,
                    "tag_name": TYPE_TAG_NAMES.get(tag, "tag%d" % tag),
                    "pointer": _flag(v, 24), "reserved3": _bits(v, 25, 2)}
        return self.decode_type_blob(v, _depth + 1)

    def decode_type_blob(self, off, _depth=0):
        """Decode the complex type blob (Array/Interface/Param/Error) at
        file offset ``off``."""
        if _depth == 0 and not self._in_blob:
            self._type_budget = _TYPE_BUDGET
        if _depth > _MAX_TYPE_DEPTH:
            raise TypelibDecodeError(
                "type nesting deeper than %d at offset %d (cycle?)"
                % (_MAX_TYPE_DEPTH, off))
        self._type_budget -= 1
        if self._type_budget < 0:
            raise TypelibDecodeError(
                "more than %d type blobs reachable from one blob (cyclic or "
                "exploding type graph) at offset %d" % (_TYPE_BUDGET, off))
        if off % 4:
            self._warn("complex type blob offset %d is not 4-byte aligned"
                       % off)
        b0 = self._u8(off, "type blob")
        pointer = _flag(b0, 0)
        tag = _bits(b0, 3, 5)
        t = {"_offset": off, "tag": tag,
             "tag_name": TYPE_TAG_NAMES.get(tag, "tag%d" % tag),
             "pointer": pointer, "reserved": _bits(b0, 1, 2)}
        if tag == TAG_ARRAY:
            w = self._u16(off, "ArrayTypeBlob")
            dim = self._u16(off + 2, "ArrayTypeBlob.dimensions")
            t.update(kind="array",
                     zero_terminated=_flag(w, 8), has_length=_flag(w, 9),
                     has_size=_flag(w, 10), array_type=_bits(w, 11, 2),
                     reserved2=_bits(w, 13, 3), dimensions=dim)
            t["array_type_name"] = ARRAY_TYPE_NAMES[t["array_type"]]
            if t["has_length"]:
                t["length"] = dim
            if t["has_size"]:
                t["size"] = dim
            t["element"] = self.decode_simple_type(off + 4, _depth)
        elif tag == TAG_INTERFACE:
            idx = self._u16(off + 2, "InterfaceTypeBlob.interface")
            t.update(kind="interface", reserved2=self._u8(off + 1),
                     interface=idx, target_name=None, target_namespace=None,
                     target_blob_type=None, target_local=None)
            if self._check_index(idx):
                r = self._dir[idx - 1]
                t["target_name"] = self.string(r["name_offset"])
                t["target_blob_type"] = r["blob_type"]
                t["target_local"] = r["local"]
                if r["local"]:
                    t["target_namespace"] = self.header["namespace"]
                else:
                    t["target_namespace"] = self.string(r["offset"])
            else:
                self._warn("InterfaceTypeBlob at %d: directory index %d out "
                           "of range 1..%d" % (off, idx, len(self._dir)))
        elif tag in (TAG_GLIST, TAG_GSLIST, TAG_GHASH):
            n = self._u16(off + 2, "ParamTypeBlob.n_types")
            self._need(off + 4, 4 * n, "ParamTypeBlob.type[]")
            t.update(kind="param", reserved2=self._u8(off + 1), n_types=n)
            t["params"] = [self.decode_simple_type(off + 4 + 4 * i, _depth)
                           for i in range(n)]
        elif tag == TAG_ERROR:
            n = self._u16(off + 2, "ErrorTypeBlob.n_domains")
            self._need(off + 4, 2 * n, "ErrorTypeBlob.domains[]")
            t.update(kind="error", reserved2=self._u8(off + 1), n_domains=n,
                     domains=[self._u16(off + 4 + 2 * i) for i in range(n)])
        else:
            raise TypelibDecodeError(
                "type blob at offset %d has tag %d (%s) which is not a "
                "complex type" % (off, tag, t["tag_name"]))
        return t

    # ------------------------------------------------------------------
    # signatures, functions, callbacks
    # ------------------------------------------------------------------

    def decode_arg(self, off):
        self._need(off, 16, "ArgBlob")
        f = self._u32(off + 4)
        d = {"_offset": off}
        self._strfield(d, "name", off)
        d.update({
            "in": _flag(f, 0), "out": _flag(f, 1),
            "caller_allocates": _flag(f, 2), "nullable": _flag(f, 3),
            "optional": _flag(f, 4), "transfer_ownership": _flag(f, 5),
            "transfer_container_ownership": _flag(f, 6),
            "return_value": _flag(f, 7), "scope": _bits(f, 8, 3),
            "skip": _flag(f, 11), "reserved": _bits(f, 12, 20),
            "closure": self._i8(off + 8), "destroy": self._i8(off + 9),
            "padding": self._u16(off + 10),
        })
        d["scope_name"] = SCOPE_TYPE_NAMES.get(d["scope"], "scope%d" % d["scope"])
        d["direction"] = ("inout" if d["in"] and d["out"] else
                          "out" if d["out"] else "in")
        d["transfer"] = ("everything" if d["transfer_ownership"] else
                         "container" if d["transfer_container_ownership"]
                         else "nothing")
        d["arg_type"] = self.decode_simple_type(off + 12)
        return d

    def decode_signature(self, off):
        if off % 4:
            self._warn("SignatureBlob offset %d is not 4-byte aligned" % off)
        self._need(off, 8, "SignatureBlob")
        f = self._u16(off + 4)
        n = self._u16(off + 6)
        d = {"_offset": off,
             "return_type": self.decode_simple_type(off),
             "may_return_null": _flag(f, 0),
             "caller_owns_return_value": _flag(f, 1),
             "caller_owns_return_container": _flag(f, 2),
             "skip_return": _flag(f, 3),
             "instance_transfer_ownership": _flag(f, 4),
             "throws": _flag(f, 5),
             "reserved": _bits(f, 6, 10),
             "n_arguments": n}
        d["return_transfer"] = (
            "everything" if d["caller_owns_return_value"] else
            "container" if d["caller_owns_return_container"] else "nothing")
        base = off + self._sz["signature_blob_size"]
        stride = self._sz["arg_blob_size"]
        if n:
            self._need(base, (n - 1) * stride + 16, "SignatureBlob.arguments")
        d["arguments"] = [self.decode_arg(base + i * stride) for i in range(n)]
        d["_end"] = base + n * stride
        return d

    def decode_function(self, off):
        self._need(off, 20, "FunctionBlob")
        f = self._u16(off + 2)
        g = self._u16(off + 16)
        k = self._u16(off + 18)
        d = {"_offset": off, "blob_type": self._u16(off),
             "deprecated": _flag(f, 0), "setter": _flag(f, 1),
             "getter": _flag(f, 2), "constructor": _flag(f, 3),
             "wraps_vfunc": _flag(f, 4), "throws": _flag(f, 5),
             "index": _bits(f, 6, 10)}
        self._strfield(d, "name", off + 4)
        self._strfield(d, "symbol", off + 8)
        d.update({
            "is_static": _flag(g, 0), "is_async": _flag(g, 1),
            "sync_or_async": _bits(g, 2, 10), "reserved": _bits(g, 12, 4),
            "finish": _bits(k, 0, 10), "reserved2": _bits(k, 10, 6),
        })
        sig = self._u32(off + 12)
        d["_offsets"]["signature"] = sig
        d["signature"] = self.decode_signature(sig)
        d["_end"] = off + self._sz["function_blob_size"]
        return d

    def decode_callback(self, off):
        self._need(off, 12, "CallbackBlob")
        f = self._u16(off + 2)
        d = {"_offset": off, "blob_type": self._u16(off),
             "deprecated": _flag(f, 0), "reserved": _bits(f, 1, 15)}
        self._strfield(d, "name", off + 4)
        sig = self._u32(off + 8)
        d["_offsets"]["signature"] = sig
        d["signature"] = self.decode_signature(sig)
        d["_end"] = off + self._sz["callback_blob_size"]
        return d

    # ------------------------------------------------------------------
    # members
    # ------------------------------------------------------------------

    def decode_field(self, off):
        """Returns the FieldBlob dict; d['_end'] is the offset just past the
        field (including the embedded CallbackBlob if any)."""
        self._need(off, 16, "FieldBlob")
        f = self._u8(off + 4)
        d = {"_offset": off}
        self._strfield(d, "name", off)
        d.update({
            "readable": _flag(f, 0), "writable": _flag(f, 1),
            "has_embedded_type": _flag(f, 2), "reserved": _bits(f, 3, 5),
            "bits": self._u8(off + 5),
            "struct_offset": self._u16(off + 6),
            "reserved2": self._u32(off + 8),
        })
        end = off + self._sz["field_blob_size"]
        if d["has_embedded_type"]:
            # the 'type' slot is not a type reference in this case
            d["type"] = {"kind": "embedded", "_offset": off + 12,
                         "raw": self._u32(off + 12)}
            d["embedded"] = self.decode_callback(end)
            end += self._sz["callback_blob_size"]
        else:
            d["type"] = self.decode_simple_type(off + 12)
        d["_end"] = end
        return d

    def _decode_fields(self, off, n):
        out = []
        for _ in range(n):
            fd = self.decode_field(off)
            out.append(fd)
            off = fd["_end"]
        return out, off

    def _decode_array(self, fn, off, n, stride):
        return [fn(off + i * stride) for i in range(n)], off + n * stride

    def decode_value(self, off):
        self._need(off, 12, "ValueBlob")
        f = self._u32(off)
        d = {"_offset": off, "deprecated": _flag(f, 0),
             "unsigned_value": _flag(f, 1), "reserved": _bits(f, 2, 30)}
        self._strfield(d, "name", off + 4)
        d["value"] = self._i32(off + 8)
        d["effective_value"] = (d["value"] & 0xFFFFFFFF
                                if d["unsigned_value"] else d["value"])
        return d

    def decode_property(self, off):
        self._need(off, 16, "PropertyBlob")
        f = self._u32(off + 4)
        d = {"_offset": off}
        self._strfield(d, "name", off)
        d.update({
            "deprecated": _flag(f, 0), "readable": _flag(f, 1),
            "writable": _flag(f, 2), "construct": _flag(f, 3),
            "construct_only": _flag(f, 4), "transfer_ownership": _flag(f, 5),
            "transfer_container_ownership": _flag(f, 6),
            "setter": _bits(f, 7, 10), "getter": _bits(f, 17, 10),
            "reserved": _bits(f, 27, 5), "reserved2": self._u32(off + 8),
        })
        d["transfer"] = ("everything" if d["transfer_ownership"] else
                         "container" if d["transfer_container_ownership"]
                         else "nothing")
        d["type"] = self.decode_simple_type(off + 12)
        return d

    def decode_signal(self, off):
        self._need(off, 16, "SignalBlob")
        f = self._u16(off)
        d = {"_offset": off}
        for i, k in enumerate(("deprecated", "run_first", "run_last",
                               "run_cleanup", "no_recurse", "detailed",
                               "action", "no_hooks", "has_class_closure",
                               "true_stops_emit")):
            d[k] = _flag(f, i)
        d["reserved"] = _bits(f, 10, 6)
        d["class_closure"] = self._u16(off + 2)
        self._strfield(d, "name", off + 4)
        d["reserved2"] = self._u32(off + 8)
        sig = self._u32(off + 12)
        d["_offsets"]["signature"] = sig
        d["signature"] = self.decode_signature(sig)
        return d

    def decode_vfunc(self, off):
        self._need(off, 20, "VFuncBlob")
        f = self._u16(off + 4)
        g = self._u16(off + 10)
        k = self._u16(off + 12)
        d = {"_offset": off}
        self._strfield(d, "name", off)
        d.update({
            "must_chain_up": _flag(f, 0), "must_be_implemented": _flag(f, 1),
            "must_not_be_implemented": _flag(f, 2),
            "class_closure": _flag(f, 3), "throws": _flag(f, 4),
            "is_async": _flag(f, 5), "sync_or_async": _bits(f, 6, 10),
            "signal": self._u16(off + 6),
            "struct_offset": self._u16(off + 8),
            "invoker": _bits(g, 0, 10), "reserved": _bits(g, 10, 6),
            "finish": _bits(k, 0, 10), "reserved2": _bits(k, 10, 6),
            "reserved3": self._u16(off + 14),
        })
        sig = self._u32(off + 16)
        d["_offsets"]["signature"] = sig
        d["signature"] = self.decode_signature(sig)
        return d

    def decode_constant(self, off):
        self._need(off, 24, "ConstantBlob")
        f = self._u16(off + 2)
        d = {"_offset": off, "blob_type": self._u16(off),
             "deprecated": _flag(f, 0), "reserved": _bits(f, 1, 15)}
        self._strfield(d, "name", off + 4)
        d["type"] = self.decode_simple_type(off + 8)
        size = self._u32(off + 12)
        voff = self._u32(off + 16)
        d.update(size=size, offset=voff, reserved2=self._u32(off + 20))
        self._need(voff, size, "ConstantBlob %r value" % d["name"])
        raw = self.data[voff:voff + size]
        d["raw"] = raw.hex()
        d["value"] = self._constant_value(d, raw)
        d["_end"] = off + self._sz["constant_blob_size"]
        return d

    _INT_TAGS = {TAG_INT8: (1, True), TAG_UINT8: (1, False),
                 TAG_INT16: (2, True), TAG_UINT16: (2, False),
                 TAG_INT32: (4, True), TAG_UINT32: (4, False),
                 TAG_INT64: (8, True), TAG_UINT64: (8, False),
                 TAG_UNICHAR: (4, False)}

    def _constant_value(self, d, raw):
        t = d["type"]
        if t["kind"] != "basic":
            return None
        tag = t["tag"]
        size = len(raw)

        def bad(expect):
            self._warn("ConstantBlob %r at %d: size %d does not fit type %s "
                       "(expected %s)" % (d["name"], d["_offset"], size,
                                          t["tag_name"], expect))

        if tag in self._INT_TAGS:
            width, signed = self._INT_TAGS[tag]
            if size != width:
                bad(width)
                if size == 0:
                    return None
            return int.from_bytes(raw, "little", signed=signed)
        if tag == TAG_BOOLEAN:
            if size != 4:
                bad(4)
            return any(raw)
        if tag == TAG_FLOAT:
            if size != 4:
                bad(4)
                return None
            return struct.unpack("<f", raw)[0]
        if tag == TAG_DOUBLE:
            if size != 8:
                bad(8)
                return None
            return struct.unpack("<d", raw)[0]
        if tag == TAG_GTYPE:
            if size != 8:
                bad(8)
            return int.from_bytes(raw, "little") if size else None
        if tag in (TAG_UTF8, TAG_FILENAME):
            nul = raw.find(b"\0")
            if nul != size - 1:
                self._warn("ConstantBlob %r at %d: string value is not "
                           "exactly one NUL-terminated string of size %d"
                           % (d["name"], d["_offset"], size))
            s = raw if nul < 0 else raw[:nul]
            return s.decode("utf-8", "surrogateescape")
        return None  # void

    # ------------------------------------------------------------------
    # top-level blobs
    # ------------------------------------------------------------------

    def _registered_head(self, off, what):
        self._need(off, 16, what)
        d = {"_offset": off, "blob_type": self._u16(off)}
        f = self._u16(off + 2)
        d["deprecated"] = _flag(f, 0)
        d["unregistered"] = _flag(f, 1)
        self._strfield(d, "name", off + 4)
        self._strfield(d, "gtype_name", off + 8)
        self._strfield(d, "gtype_init", off + 12)
        return d, f

    def decode_struct(self, off):
        self._need(off, 32, "StructBlob")
        d, f = self._registered_head(off, "StructBlob")
        d.update({
            "is_gtype_struct": _flag(f, 2), "alignment": _bits(f, 3, 6),
            "foreign": _flag(f, 9), "reserved": _bits(f, 10, 6),
            "size": self._u32(off + 16),
            "n_fields": self._u16(off + 20),
            "n_methods": self._u16(off + 22),
        })
        self._strfield(d, "copy_func", off + 24)
        self._strfield(d, "free_func", off + 28)
        o = off + self._sz["struct_blob_size"]
        d["fields"], o = self._decode_fields(o, d["n_fields"])
        d["methods"], o = self._decode_array(
            self.decode_function, o, d["n_methods"],
            self._sz["function_blob_size"])
        d["_end"] = o
        return d

    def decode_union(self, off):
        self._need(off, 40, "UnionBlob")
        d, f = self._registered_head(off, "UnionBlob")
        d.update({
            "discriminated": _flag(f, 2), "alignment": _bits(f, 3, 6),
            "reserved": _bits(f, 9, 7),
            "size": self._u32(off + 16),
            "n_fields": self._u16(off + 20),
            "n_functions": self._u16(off + 22),
        })
        self._strfield(d, "copy_func", off + 24)
        self._strfield(d, "free_func", off + 28)
        d["discriminator_offset"] = self._i32(off + 32)
        raw_dt = self._u32(off + 36)
        d["_offsets"]["discriminator_type"] = raw_dt
        if d["discriminated"] or raw_dt != 0:
            d["discriminator_type"] = self.decode_simple_type(off + 36)
        else:
            d["discriminator_type"] = None
        o = off + self._sz["union_blob_size"]
        d["fields"], o = self._decode_fields(o, d["n_fields"])
        d["methods"], o = self._decode_array(
            self.decode_function, o, d["n_functions"],
            self._sz["function_blob_size"])
        d["discriminators"] = []
        if d["discriminated"]:
            # one ConstantBlob per field follows the functions
            d["discriminators"], o = self._decode_array(
                self.decode_constant, o, d["n_fields"],
                self._sz["constant_blob_size"])
        d["_end"] = o
        return d

    def decode_enum(self, off):
        self._need(off, 24, "EnumBlob")
        d, f = self._registered_head(off, "EnumBlob")
        d.update({
            "storage_type": _bits(f, 2, 5), "reserved": _bits(f, 7, 9),
            "n_values": self._u16(off + 16),
            "n_methods": self._u16(off + 18),
        })
        d["storage_type_name"] = TYPE_TAG_NAMES.get(
            d["storage_type"], "tag%d" % d["storage_type"])
        self._strfield(d, "error_domain", off + 20)
        o = off + self._sz["enum_blob_size"]
        d["values"], o = self._decode_array(
            self.decode_value, o, d["n_values"], self._sz["value_blob_size"])
        d["methods"], o = self._decode_array(
            self.decode_function, o, d["n_methods"],
            self._sz["function_blob_size"])
        d["_end"] = o
        return d

    def _u16_array(self, off, n, what):
        """n guint16 values followed by padding to a 32-bit boundary."""
        self._need(off, 2 * n, what)
        vals = [self._u16(off + 2 * i) for i in range(n)]
        end = off + 2 * (n + (n % 2))
        if n % 2:
            self._need(off + 2 * n, 2, what + " padding")
        return vals, end

    def _object_tail(self, d, o):
        sz = self._sz
        d["properties"], o = self._decode_array(
            self.decode_property, o, d["n_properties"],
            sz["property_blob_size"])
        d["methods"], o = self._decode_array(
            self.decode_function, o, d["n_methods"], sz["function_blob_size"])
        d["signals"], o = self._decode_array(
            self.decode_signal, o, d["n_signals"], sz["signal_blob_size"])
        d["vfuncs"], o = self._decode_array(
            self.decode_vfunc, o, d["n_vfuncs"], sz["vfunc_blob_size"])
        d["constants"], o = self._decode_array(
            self.decode_constant, o, d["n_constants"],
            sz["constant_blob_size"])
        return o

    def decode_object(self, off):
        self._need(off, 60, "ObjectBlob")
        d, f = self._registered_head(off, "ObjectBlob")
        # bit 1 of the flag word is 'abstract' here, not 'unregistered'
        del d["unregistered"]
        d.update({
            "abstract": _flag(f, 1), "fundamental": _flag(f, 2),
            "final_": _flag(f, 3), "reserved": _bits(f, 4, 12),
            "parent": self._u16(off + 16),
            "gtype_struct": self._u16(off + 18),
        })
        for i, k in enumerate(("n_interfaces", "n_fields", "n_properties",
                               "n_methods", "n_signals", "n_vfuncs",
                               "n_constants", "n_field_callbacks")):
            d[k] = self._u16(off + 20 + 2 * i)
        self._strfield(d, "ref_func", off + 36)
        self._strfield(d, "unref_func", off + 40)
        self._strfield(d, "set_value_func", off + 44)
        self._strfield(d, "get_value_func", off + 48)
        d["reserved3"] = self._u32(off + 52)
        d["reserved4"] = self._u32(off + 56)
        d["parent_name"] = self._index_name(d["parent"])
        d["gtype_struct_name"] = self._index_name(d["gtype_struct"])
        o = off + self._sz["object_blob_size"]
        d["interfaces"], o = self._u16_array(
            o, d["n_interfaces"], "ObjectBlob.interfaces")
        d["interface_names"] = [self._index_name(i) for i in d["interfaces"]]
        fields_start = o
        d["fields"], o = self._decode_fields(o, d["n_fields"])
        formula = (fields_start
                   + d["n_fields"] * self._sz["field_blob_size"]
                   + d["n_field_callbacks"] * self._sz["callback_blob_size"])
        n_emb = sum(1 for x in d["fields"] if x["has_embedded_type"])
        if formula != o or n_emb != d["n_field_callbacks"]:
            self._warn(
                "ObjectBlob %r at %d: n_field_callbacks=%d but %d fields "
                "have has_embedded_type (field area ends at %d walking, %d "
                "by formula)" % (d["name"], off, d["n_field_callbacks"],
                                 n_emb, o, formula))
        d["_fields_end_walked"] = o
        d["_fields_end_formula"] = formula
        # the C reader positions properties etc. with the formula
        d["_end"] = self._object_tail(d, formula)
        return d

    def decode_interface(self, off):
        self._need(off, 40, "InterfaceBlob")
        d, f = self._registered_head(off, "InterfaceBlob")
        del d["unregistered"]
        d["reserved"] = _bits(f, 1, 15)
        d["gtype_struct"] = self._u16(off + 16)
        for i, k in enumerate(("n_prerequisites", "n_properties", "n_methods",
                               "n_signals", "n_vfuncs", "n_constants")):
            d[k] = self._u16(off + 18 + 2 * i)
        d["padding"] = self._u16(off + 30)
        d["reserved2"] = self._u32(off + 32)
        d["reserved3"] = self._u32(off + 36)
        d["gtype_struct_name"] = self._index_name(d["gtype_struct"])
        o = off + self._sz["interface_blob_size"]
        d["prerequisites"], o = self._u16_array(
            o, d["n_prerequisites"], "InterfaceBlob.prerequisites")
        d["prerequisite_names"] = [self._index_name(i)
                                   for i in d["prerequisites"]]
        d["_end"] = self._object_tail(d, o)
        return d

    def decode_boxed(self, off):
        """BLOB_TYPE_BOXED: only the RegisteredTypeBlob prefix is defined
        unambiguously ("either a StructBlob or UnionBlob")."""
        d, f = self._registered_head(off, "RegisteredTypeBlob")
        d["reserved"] = _bits(f, 2, 14)
        d["_end"] = off + 16
        return d

    def decode_common(self, off):
        self._need(off, 8, "CommonBlob")
        f = self._u16(off + 2)
        d = {"_offset": off, "blob_type": self._u16(off),
             "deprecated": _flag(f, 0), "reserved": _bits(f, 1, 15)}
        self._strfield(d, "name", off + 4)
        d["_end"] = off + 8
        return d

    def _index_name(self, idx):
        """'Namespace.Name' for a directory index, None for 0/out of range."""
        if idx == 0:
            return None
        if not self._check_index(idx):
            self._warn("directory index %d out of range 1..%d"
                       % (idx, len(self._dir)))
            return None
        r = self._dir[idx - 1]
        ns = (self.header["namespace"] if r["local"]
              else self.string(r["offset"]))
        return "%s.%s" % (ns, self.string(r["name_offset"]))

    _DISPATCH = {
        BLOB_TYPE_FUNCTION: "decode_function",
        BLOB_TYPE_CALLBACK: "decode_callback",
        BLOB_TYPE_STRUCT: "decode_struct",
        BLOB_TYPE_BOXED: "decode_boxed",
        BLOB_TYPE_ENUM: "decode_enum",
        BLOB_TYPE_FLAGS: "decode_enum",
        BLOB_TYPE_OBJECT: "decode_object",
        BLOB_TYPE_INTERFACE: "decode_interface",
        BLOB_TYPE_CONSTANT: "decode_constant",
        BLOB_TYPE_UNION: "decode_union",
    }

    def decode_blob(self, blob_type, off):
        """Decode the top-level blob at ``off`` as ``blob_type`` (the type
        recorded in the directory, which is what a reader dispatches on)."""
        key = (blob_type, off)
        if key in self._blob_cache:
            return self._blob_cache[key]
        fn = getattr(self, self._DISPATCH.get(blob_type, "decode_common"))
        self._type_budget = _TYPE_BUDGET
        self._in_blob = True
        try:
            d = fn(off)
        except RecursionError:
            raise TypelibDecodeError("recursion limit hit decoding blob at %d"
                                     % off)
        finally:
            self._in_blob = False
        d["kind"] = BLOB_TYPE_NAMES.get(blob_type, "unknown")
        self._blob_cache[key] = d
        return d

    # ------------------------------------------------------------------
    # validation
    # ------------------------------------------------------------------

    def validate_structure(self):
        """Byte-level invariants of the format; returns a list of problem
        strings (empty = ok).  Never raises TypelibDecodeError."""
        p = []
        h = self.header
        rh = self.raw_header
        n = self._len

        if rh["magic"] != MAGIC:
            p.append("header.magic is %r" % (rh["magic"],))
        if h["major_version"] != 4:
            p.append("header.major_version is %d, expected 4"
                     % h["major_version"])
        if h["size"] != n:
            p.append("header.size %d != file length %d" % (h["size"], n))
        for field, sname, expect in HEADER_BLOB_SIZES:
            if h[field] != expect:
                p.append("header.%s is %d, sizeof(%s) is %d"
                         % (field, h[field], sname, expect))
        if h["n_local_entries"] > h["n_entries"]:
            p.append("header.n_local_entries %d > n_entries %d"
                     % (h["n_local_entries"], h["n_entries"]))

        # header string offsets (already decoded in __init__, so in bounds
        # and terminated); namespace must be present
        if rh["namespace"] == 0:
            p.append("header.namespace is 0")
        for k in ("dependencies", "namespace", "nsversion", "shared_library",
                  "c_prefix"):
            if rh[k] and rh[k] < 112:
                p.append("header.%s offset %d points into the header"
                         % (k, rh[k]))

        # directory
        d0 = h["directory"]
        if d0 % 4:
            p.append("header.directory %d is not 4-byte aligned" % d0)
        if d0 < 112 and h["n_entries"]:
            p.append("header.directory %d overlaps the header" % d0)
        if d0 + h["n_entries"] * h["entry_blob_size"] > n:
            p.append("directory [%d, +%d*%d) extends past the file"
                     % (d0, h["n_entries"], h["entry_blob_size"]))

        # attribute table
        a0 = h["attributes"]
        if h["n_attributes"]:
            if a0 % 4:
                p.append("header.attributes %d is not 4-byte aligned" % a0)
            if a0 + h["n_attributes"] * h["attribute_blob_size"] > n:
                p.append("attribute table extends past the file")
        prev = -1
        for i, a in enumerate(self.attributes):
            if a["offset"] < prev:
                p.append("attribute #%d offset %d < previous %d (table not "
                         "sorted)" % (i, a["offset"], prev))
            prev = a["offset"]
            if a["offset"] >= n:
                p.append("attribute #%d refers to offset %d outside the file"
                         % (i, a["offset"]))

        # sections
        s0 = h["sections"]
        if s0:
            if s0 % 4:
                p.append("header.sections %d is not 4-byte aligned" % s0)
            if s0 < 112:
                p.append("header.sections %d overlaps the header" % s0)
            seen = set()
            for sid, soff in self.sections:
                if sid in seen:
                    p.append("section id %d appears twice" % sid)
                seen.add(sid)
                if soff >= n:
                    p.append("section %d offset %d outside the file"
                             % (sid, soff))
                if soff % 4:
                    p.append("section %d offset %d not 4-byte aligned"
                             % (sid, soff))
        di = self.directory_index
        if di is not None:
            if di["dirmap_offset"] % 4 or di["dirmap_offset"] < 4:
                p.append("directory index: dirmap offset %d invalid"
                         % di["dirmap_offset"])
            if sorted(di["table"]) != list(range(h["n_local_entries"])):
                p.append("directory index: table is not a permutation of "
                         "0..n_local_entries-1")

        # entries and their blobs
        # decode afresh so that the non-fatal findings of the decoders are
        # collected here even if the blobs were decoded before
        saved_soft, saved_cache = self._soft, self._blob_cache
        self._soft, self._blob_cache = [], {}
        try:
            for r in self._dir:
                idx = r["index"]
                should_be_local = idx <= h["n_local_entries"]
                if r["local"] != should_be_local:
                    p.append("entry %d: local=%d but n_local_entries=%d "
                             "(local entries must come first)"
                             % (idx, r["local"], h["n_local_entries"]))
                try:
                    name = self.string(r["name_offset"])
                except TypelibDecodeError as e:
                    p.append("entry %d: name: %s" % (idx, e))
                    name = None
                if r["reserved"]:
                    p.append("entry %d (%s): reserved bits set" % (idx, name))
                if not r["local"]:
                    if r["blob_type"] not in BLOB_TYPE_NAMES:
                        p.append("entry %d (%s): unknown blob_type %d"
                                 % (idx, name, r["blob_type"]))
                    try:
                        self.string(r["offset"])
                    except TypelibDecodeError as e:
                        p.append("entry %d (%s): namespace: %s"
                                 % (idx, name, e))
                    continue
                bt = r["blob_type"]
                if bt not in self._DISPATCH:
                    p.append("entry %d (%s): local entry with blob_type %d "
                             "(%s)" % (idx, name, bt,
                                       BLOB_TYPE_NAMES.get(bt, "unknown")))
                off = r["offset"]
                if off % 4:
                    p.append("entry %d (%s): blob offset %d not 4-byte "
                             "aligned" % (idx, name, off))
                if off < 112 or off >= n:
                    p.append("entry %d (%s): blob offset %d outside the "
                             "file body" % (idx, name, off))
                    if off >= n:
                        continue
                try:
                    blob = self.decode_blob(bt, off)
                except TypelibDecodeError as e:
                    p.append("entry %d (%s): %s" % (idx, name, e))
                    continue
                if blob.get("blob_type") != bt:
                    p.append("entry %d (%s): directory blob_type %d but "
                             "blob says %r" % (idx, name, bt,
                                               blob.get("blob_type")))
                if name is not None and blob.get("name") != name:
                    p.append("entry %d: directory name %r but blob name %r"
                             % (idx, name, blob.get("name")))
                self._check_nested(blob, "entry %d (%s)" % (idx, name), p)
            p.extend(self._soft)
        finally:
            self._soft, self._blob_cache = saved_soft, saved_cache
        return p

    def _check_nested(self, blob, where, p):
        """blob_type tags of nested function / constant / callback blobs."""
        for key, want in (("methods", BLOB_TYPE_FUNCTION),
                          ("constants", BLOB_TYPE_CONSTANT),
                          ("discriminators", BLOB_TYPE_CONSTANT)):
            for m in blob.get(key, ()):
                if m.get("blob_type") != want:
                    p.append("%s: nested %s %r has blob_type %r, expected %d"
                             % (where, key, m.get("name"),
                                m.get("blob_type"), want))
        for f in blob.get("fields", ()):
            e = f.get("embedded")
            if e is not None and e.get("blob_type") != BLOB_TYPE_CALLBACK:
                p.append("%s: field %r embedded blob has blob_type %r, "
                         "expected %d" % (where, f.get("name"),
                                          e.get("blob_type"),
                                          BLOB_TYPE_CALLBACK))
        for key in ("parent", "gtype_struct"):
            v = blob.get(key)
            if isinstance(v, int) and v and not self._check_index(v):
                p.append("%s: %s index %d out of range" % (where, key, v))
        for key in ("interfaces", "prerequisites"):
            for v in blob.get(key, ()):
                if not self._check_index(v):
                    p.append("%s: %s index %d out of range" % (where, key, v))

    # ------------------------------------------------------------------
    # dump
    # ------------------------------------------------------------------

    def dump(self, include_offsets=False):
        """JSON-serialisable neutral summary.  Keys starting with '_' (file
        offsets) are dropped unless ``include_offsets``; attributes found in
        the attribute table are attached as 'attributes': [[name, value]...]
        to the blob dicts they refer to."""
        by_off = {}
        for a in self.attributes:
            by_off.setdefault(a["offset"], []).append([a["name"], a["value"]])

        def conv(x):
            if isinstance(x, dict):
                out = {}
                for k, v in x.items():
                    if k.startswith("_") and not include_offsets:
                        continue
                    out[k] = conv(v)
                off = x.get("_offset")
                if off in by_off and x.get("kind") not in ("basic",):
                    out["attributes"] = by_off[off]
                return out
            if isinstance(x, (list, tuple)):
                return [conv(v) for v in x]
            if isinstance(x, bytes):
                return x.hex()
            if isinstance(x, float) and not math.isfinite(x):
                return repr(x)
            return x

        h = {k: v for k, v in self.header.items() if k != "magic"}
        h["magic"] = self.raw_header["magic"].decode("latin-1")
        out = {
            "header": conv(h),
            "namespace": self.header["namespace"],
            "nsversion": self.header["nsversion"],
            "shared_library": self.header["shared_library"],
            "c_prefix": self.header["c_prefix"],
            "dependencies": self.header["dependencies_list"],
            "sections": [list(s) for s in self.sections],
            "entries": conv(self.entries),
            "n_attributes": len(self.attributes),
        }
        if include_offsets:
            out["attributes"] = conv(self.attributes)
            if self.directory_index is not None:
                out["directory_index"] = conv(self.directory_index)
        return out


def _main(argv):
    import argparse
    ap = argparse.ArgumentParser(
        description="Decode a GObject-Introspection typelib to JSON")
    ap.add_argument("path")
    ap.add_argument("--offsets", action="store_true",
                    help="keep file offsets ('_'-prefixed keys)")
    ap.add_argument("--validate", action="store_true",
                    help="print structural problems instead of the dump")
    a = ap.parse_args(argv)
    with open(a.path, "rb") as fh:
        data = fh.read()
    try:
        tl = Typelib(data)
        if a.validate:
            probs = tl.validate_structure()
            for m in probs:
                print(m)
            return 1 if probs else 0
        json.dump(tl.dump(include_offsets=a.offsets), sys.stdout, indent=1,
                  sort_keys=True)
        sys.stdout.write("\n")
    except TypelibDecodeError as e:
        sys.stderr.write("typelib decode error: %s\n" % e)
        return 2
    return 0


if __name__ == "__main__":
    sys.exit(_main(sys.argv[1:]))
