"""Independently written table: C type spelling -> canonical introspection type (property C02 statement, the
"Default Basic Types" list of giannotations.rst, the C standard's integer spellings and GLib's typedef list in
glib/gtypes.h).  Never imports giscanner.  value: (gi name, kind, bits, signed) ; bits None = platform/unknown."""

def _mk():
    t = {}
    def add(names, gi, kind='int', bits=None, signed=None):
        for n in names.split('|'):
            t[n] = (gi, kind, bits, signed)
    # fixed width
    for b in (8, 16, 32, 64):
        add('gint%d|int%d_t' % (b, b), 'gint%d' % b, 'int', b, True)
        add('guint%d|uint%d_t' % (b, b), 'guint%d' % b, 'int', b, False)
    add('guchar|unsigned char', 'guint8', 'int', 8, False)
    add('signed char', 'gint8', 'int', 8, True)
    add('char|gchar', 'gchar', 'int', 8, True)
    add('short|gshort|signed short', 'gshort', 'int', 16, True)
    add('unsigned short|gushort|unsigned short int', 'gushort', 'int', 16, False)
    add('int|gint|signed|signed int', 'gint', 'int', 32, True)
    add('unsigned|unsigned int|guint', 'guint', 'int', 32, False)
    add('long|glong|signed long', 'glong', 'int', 64, True)
    add('unsigned long|gulong|unsigned long int', 'gulong', 'int', 64, False)
    add('gsize|size_t', 'gsize', 'int', 64, False)
    add('gssize|ssize_t', 'gssize', 'int', 64, True)
    add('gintptr|intptr_t', 'gintptr', 'int', 64, True)
    add('guintptr|uintptr_t', 'guintptr', 'int', 64, False)
    add('goffset', 'gint64', 'int', 64, True)
    add('gunichar2', 'guint16', 'int', 16, False)
    add('gunichar', 'gunichar', 'int', 32, False)
    add('GType', 'GType', 'int', 64, False)
    add('float|gfloat', 'gfloat', 'float')
    add('double|gdouble', 'gdouble', 'float')
    add('_Bool|bool|gboolean', 'gboolean', 'bool')
    add('time_t', 'time_t', 'int')
    add('off_t', 'off_t', 'int')
    # POSIX scalar types that are introspection types of their own
    for n in ('dev_t', 'gid_t', 'pid_t', 'socklen_t', 'uid_t'):
        add(n, n, 'int')
    # typedefs of glib/grefcount.h and the BSD short hands of sys/types.h
    add('grefcount|gatomicrefcount', 'gint', 'int', 32, True)
    add('uint', 'guint', 'int', 32, False)
    add('ulong', 'gulong', 'int', 64, False)
    return t

BASIC = _mk()
# spellings the statement's "every basic ... type spelling" covers and that are *not* bindable
UNBINDABLE = {'long long': 'long long', 'unsigned long long': 'unsigned long long', 'long double': 'long double',
              'signed long long': 'long long'}
POINTER_ALIASES = {'char*': 'utf8', 'gchar*': 'utf8', 'void*': 'gpointer', 'gpointer': 'gpointer', 'gconstpointer': 'gpointer'}
