"""Stand-in for the flex/bison C front end (giscanner._giscanner), which cannot be built in this sandbox.

A small recursive-descent parser for the declaration subset of C that the harness generates.  The symbol and type
trees it builds are *transcriptions of the grammar actions* of giscanner/scannerparser.y and scannerlexer.l
(gi_source_symbol_merge_type appends at the foundation of the base_type chain, set_or_merge_base_type joins basic
type words with a blank, the parameter list `(void)` is dropped, enumerators count from the previous value, `<<`
marks an enum as flags, /*< private >*/ /*< public >*/ /*< flags >*/ markers, gtk-doc comment capture with the
line of the opening token, object macros via a separate macro pass after all declarations with casts restricted to
typedef names, ...).  Part of the trusted base (DESIGN.md section 8).
"""
import os, re, sys, types

(CSYMBOL_TYPE_INVALID, CSYMBOL_TYPE_ELLIPSIS, CSYMBOL_TYPE_CONST, CSYMBOL_TYPE_OBJECT, CSYMBOL_TYPE_FUNCTION,
 CSYMBOL_TYPE_FUNCTION_MACRO, CSYMBOL_TYPE_STRUCT, CSYMBOL_TYPE_UNION, CSYMBOL_TYPE_ENUM, CSYMBOL_TYPE_TYPEDEF,
 CSYMBOL_TYPE_MEMBER) = range(11)
(CTYPE_INVALID, CTYPE_VOID, CTYPE_BASIC_TYPE, CTYPE_TYPEDEF, CTYPE_STRUCT, CTYPE_UNION, CTYPE_ENUM, CTYPE_POINTER,
 CTYPE_ARRAY, CTYPE_FUNCTION) = range(10)
STORAGE_CLASS_TYPEDEF, STORAGE_CLASS_EXTERN, STORAGE_CLASS_STATIC = 1 << 1, 1 << 2, 1 << 3
STORAGE_CLASS_AUTO, STORAGE_CLASS_REGISTER, STORAGE_CLASS_THREAD_LOCAL = 1 << 4, 1 << 5, 1 << 6
TYPE_QUALIFIER_CONST, TYPE_QUALIFIER_RESTRICT, TYPE_QUALIFIER_VOLATILE, TYPE_QUALIFIER_EXTENSION = 1 << 1, 1 << 2, 1 << 3, 1 << 4
FUNCTION_INLINE = 1 << 1

BASIC_TYPES = {'_Bool', 'bool', 'char', 'double', 'float', '_Float16', '_Float32', '_Float64', '_Float128', '_Float32x',
               '_Float64x', '_Float128x', '__float80', '__float128', 'int', '__int64', '__uint128_t', '__int128_t',
               '__uint128', '__int128', 'long', 'short'}
STORAGE = {'typedef': STORAGE_CLASS_TYPEDEF, 'extern': STORAGE_CLASS_EXTERN, 'static': STORAGE_CLASS_STATIC,
           'auto': STORAGE_CLASS_AUTO, 'register': STORAGE_CLASS_REGISTER, 'thread_local': STORAGE_CLASS_THREAD_LOCAL,
           '_Thread_local': STORAGE_CLASS_THREAD_LOCAL}
QUALS = {'const': TYPE_QUALIFIER_CONST, '__const': TYPE_QUALIFIER_CONST, 'restrict': TYPE_QUALIFIER_RESTRICT,
         '__restrict': TYPE_QUALIFIER_RESTRICT, '__restrict__': TYPE_QUALIFIER_RESTRICT,
         'volatile': TYPE_QUALIFIER_VOLATILE, '__volatile': TYPE_QUALIFIER_VOLATILE, '__volatile__': TYPE_QUALIFIER_VOLATILE,
         '__extension__': TYPE_QUALIFIER_EXTENSION}
INLINE = {'inline', '__inline', '__inline__', '__forceinline'}
IGNORED = {'_Nonnull', '_Nullable', '_Null_unspecified', '_Noreturn'}
IGNORED_MACROS = {'__attribute__', '__attribute', '__asm', '__asm__', '_Alignas', '__nonnull', '__pragma'}
BOOLEANS = {'TRUE', 'FALSE', 'true', 'false'}
KEYWORDS = set(STORAGE) | set(QUALS) | INLINE | BASIC_TYPES | {
    'void', 'signed', 'unsigned', '_Complex', 'struct', 'union', 'enum', 'sizeof', '_Alignof', '__alignof', '__alignof__'}

# typedef names the real scanner would know from the GLib / libc headers every scanned library includes
SEED_TYPEDEFS = set('''gint8 guint8 gint16 guint16 gint32 guint32 gint64 guint64 gint guint glong gulong gshort gushort
gchar guchar gboolean gfloat gdouble gsize gssize goffset gintptr guintptr gpointer gconstpointer gunichar gunichar2 GType
GQuark int8_t uint8_t int16_t uint16_t int32_t uint32_t int64_t uint64_t size_t ssize_t time_t off_t pid_t uid_t
intptr_t uintptr_t wchar_t va_list __builtin_va_list'''.split())


def _i64(v):
    v &= (1 << 64) - 1
    return v - (1 << 64) if v >= (1 << 63) else v


class RawType(object):
    __slots__ = ('type', 'name', 'base_type', 'type_qualifier', 'child_list', 'is_bitfield', 'function_specifier',
                 'storage_class_specifier')

    def __init__(self, type, name=None):
        self.type = type
        self.name = name
        self.base_type = None
        self.type_qualifier = 0
        self.child_list = []
        self.is_bitfield = False
        self.function_specifier = 0
        self.storage_class_specifier = 0

    def copy(self):
        t = RawType(self.type, self.name)
        t.base_type = self.base_type.copy() if self.base_type is not None else None
        t.type_qualifier = self.type_qualifier
        t.child_list = list(self.child_list)
        t.is_bitfield = self.is_bitfield
        t.function_specifier = self.function_specifier
        t.storage_class_specifier = self.storage_class_specifier
        return t


class RawSymbol(object):
    __slots__ = ('type', 'ident', 'base_type', '_ci', 'ci_set', 'ci_unsigned', 'const_double', 'const_string',
                 'const_boolean', 'source_filename', 'line', 'private')

    def __init__(self, type, filename, line):
        self.type = type
        self.ident = None
        self.base_type = None
        self._ci = 0
        self.ci_set = False
        self.ci_unsigned = False
        self.const_double = None
        self.const_string = None
        self.const_boolean = None
        self.source_filename = filename
        self.line = line
        self.private = False

    @property
    def const_int(self):
        if not self.ci_set:
            return None
        if self.ci_unsigned:
            return self._ci & ((1 << 64) - 1)
        return _i64(self._ci)

    def copy(self):
        s = RawSymbol(self.type, self.source_filename, self.line)
        s.ident = self.ident
        s.base_type = self.base_type.copy() if self.base_type is not None else None
        s._ci, s.ci_set, s.ci_unsigned = self._ci, self.ci_set, self.ci_unsigned
        s.const_double, s.const_string, s.const_boolean = self.const_double, self.const_string, self.const_boolean
        s.private = self.private
        return s

    def merge_type(self, t):
        if self.base_type is None:
            self.base_type = t
            return
        b = self.base_type
        while b.base_type is not None:
            b = b.base_type
        b.base_type = t

    def get_bool(self):
        return bool((self.const_boolean is not None and self.const_boolean) or (self.ci_set and self._ci != 0))


def set_or_merge_base_type(t, base):
    if base.type == CTYPE_BASIC_TYPE and t.type == CTYPE_BASIC_TYPE:
        t.name = '%s %s' % (t.name, base.name)
        t.storage_class_specifier |= base.storage_class_specifier
        t.type_qualifier |= base.type_qualifier
        t.function_specifier |= base.function_specifier
        t.is_bitfield |= base.is_bitfield
    elif base.type == CTYPE_INVALID:
        t.storage_class_specifier |= base.storage_class_specifier
        t.type_qualifier |= base.type_qualifier
        t.function_specifier |= base.function_specifier
        t.is_bitfield |= base.is_bitfield
    else:
        t.base_type = base


class ParseError(Exception):
    pass


TOKEN_RE = re.compile(r'''
  (?P<ws>[ \t\f\v\r]+)
 |(?P<nl>\n)
 |(?P<cont>\\\n)
 |(?P<lcomment>//[^\n]*)
 |(?P<comment>/\*)
 |(?P<float>(?:[0-9]+\.[0-9]*|\.[0-9]+)(?:[eE][+-]?[0-9]+)?[fFlL]?|[0-9]+[eE][+-]?[0-9]+[fFlL]?)
 |(?P<int>0[xX][0-9a-fA-F]+[uUlL]*|0[bB][01]+[uUlL]*|[0-9]+[uUlL]*)
 |(?P<id>[A-Za-z_][A-Za-z_0-9]*)
 |(?P<str>"(?:[^"\\\n]|\\.)*")
 |(?P<chr>'(?:[^'\\\n]|\\.)+')
 |(?P<op>\.\.\.|<<=|>>=|<<|>>|<=|>=|==|!=|&&|\|\||\+\+|--|->|\+=|-=|\*=|/=|%=|\^=|&=|\|=|[{}\[\]();:?.+\-*/%^&|~!=<>,\#])
''', re.VERBOSE)
TRIGRAPH_RE = re.compile(r'/\*[\t ]?<([\t ,=A-Za-z0-9_]+)>[\t ]?\*/')


def parse_c_string_literal(s):
    out = bytearray()
    b = s.encode('utf-8')
    i = 0
    while i < len(b):
        c = b[i]
        if c == 0x5c:
            i += 1
            if i >= len(b):
                break
            c = b[i]
            if 0x30 <= c <= 0x37:
                v = 0
                n = 0
                while n < 3 and i < len(b) and 0x30 <= b[i] <= 0x37:
                    v = (v * 8 + (b[i] - 0x30)) & 0xff
                    i += 1
                    n += 1
                out.append(v)
                continue
            elif c == 0x78:
                i += 1
                v = 0
                n = 0
                while n < 2 and i < len(b) and chr(b[i]) in '0123456789abcdefABCDEF':
                    v = (v * 16 + int(chr(b[i]), 16)) & 0xff
                    i += 1
                    n += 1
                out.append(v)
                continue
            elif c == ord('b'):
                out.append(8)
            elif c == ord('f'):
                out.append(12)
            elif c == ord('n'):
                out.append(10)
            elif c == ord('r'):
                out.append(13)
            elif c == ord('t'):
                out.append(9)
            else:
                out.append(c)
        else:
            out.append(c)
        i += 1
    if 0 in out:
        out = out[:out.index(0)]
    try:
        return bytes(out).decode('utf-8')
    except UnicodeDecodeError:
        return None


class Tok(object):
    __slots__ = ('kind', 'text', 'line', 'file')

    def __init__(self, kind, text, line, file):
        self.kind, self.text, self.line, self.file = kind, text, line, file

    def __repr__(self):
        return '<%s %r @%s>' % (self.kind, self.text, self.line)


class SourceScanner(object):
    """API-compatible with giscanner._giscanner.SourceScanner (the part giscanner.sourcescanner uses)."""

    def __init__(self):
        self.symbols = []
        self.comments = []
        self.errors = []
        self.files = set()
        self.typedefs = set(SEED_TYPEDEFS)
        self.const_table = {}
        self.macro_scan = False
        self.private = False
        self.flags = False

    # ---- public API of the C extension
    def get_symbols(self):
        return self.symbols

    def get_comments(self):
        return self.comments

    def get_errors(self):
        return self.errors

    def append_filename(self, filename):
        self.files.add(filename)

    def set_macro_scan(self, v):
        self.macro_scan = bool(v)

    def lex_filename(self, filename):
        with open(filename, encoding='utf-8', errors='surrogateescape') as f:
            text = f.read()
        self._tokenize(text, filename, comments_only=True)

    def parse_file(self, filename):
        with open(filename, encoding='utf-8', errors='surrogateescape') as f:
            text = f.read()
        self.parse_text(text, filename, with_macros=False)

    def parse_macros(self, filenames):
        for fn in filenames:
            with open(fn, encoding='utf-8', errors='surrogateescape') as f:
                self._parse_macro_lines(f.read(), fn)

    # ---- harness entry point: declarations first, then the macro pass, as g-ir-scanner orders them
    def parse_text(self, text, filename, with_macros=True):
        toks = self._tokenize(text, filename)
        self._parse_translation_unit(toks)
        if with_macros:
            self.macro_scan = True
            self._parse_macro_lines(text, filename)
            self.macro_scan = False

    # ---- lexer
    def _tokenize(self, text, filename, comments_only=False):
        toks = []
        pos = 0
        line = 1
        cur = filename
        n = len(text)
        at_line_start = True
        while pos < n:
            if at_line_start and not comments_only:
                m = re.compile(r'[ \t]*#(?:line)? ([0-9]+) "((?:[^"\\]|\\.)*)"[^\n]*\n').match(text, pos)
                if m:
                    line = int(m.group(1))
                    fn = m.group(2).encode().decode('unicode_escape')
                    cur = os.path.realpath(fn) if os.path.exists(fn) else fn
                    pos = m.end()
                    continue
                m = re.compile(r'[ \t]*#[^\n]*(?:\\\n[^\n]*)*').match(text, pos)
                if m:
                    # preprocessor directive: invisible to the declaration pass (the real scanner sees
                    # preprocessed text); count lines
                    line += text.count('\n', pos, m.end())
                    pos = m.end()
                    continue
            m = TRIGRAPH_RE.match(text, pos)
            if m:
                for item in m.group(1).split(','):
                    item = item.strip()
                    if item == 'public':
                        toks.append(Tok('marker', 'public', line, cur))
                    elif item == 'private':
                        toks.append(Tok('marker', 'private', line, cur))
                    elif item == 'flags':
                        toks.append(Tok('marker', 'flags', line, cur))
                pos = m.end()
                at_line_start = False
                continue
            m = TOKEN_RE.match(text, pos)
            if not m:
                self.errors.append("%s:%d: unexpected character `%s'" % (cur, line, text[pos]))
                pos += 1
                continue
            kind = m.lastgroup
            tx = m.group()
            if kind == 'nl':
                line += 1
                pos = m.end()
                at_line_start = True
                continue
            if kind == 'cont':
                line += 1
                pos = m.end()
                continue
            if kind in ('ws', 'lcomment'):
                pos = m.end()
                continue
            at_line_start = False
            if kind == 'comment':
                end = text.find('*/', pos + 2)
                # "/*/" is not a terminated comment: the real lexer reads c1,c2 after "/*" first
                if end == pos + 1:
                    end = text.find('*/', pos + 3)
                if end < 0:
                    end = n - 2
                body = text[pos:end + 2]
                c1 = text[pos + 2:pos + 3]
                c2 = text[pos + 3:pos + 4]
                if c2 != '' and c1 == '*' and c2 != '*' and c2 != '/':
                    if cur in self.files or not self.files:
                        self.comments.append((body, cur, line))
                line += body.count('\n')
                pos = end + 2
                continue
            pos = m.end()
            if comments_only:
                continue
            if kind == 'id' and tx in IGNORED:
                continue
            if kind == 'id' and tx in IGNORED_MACROS:
                # swallow a following parenthesised group
                p = pos
                while p < n and text[p] in ' \t\n':
                    p += 1
                if p < n and text[p] == '(':
                    depth = 0
                    while p < n:
                        if text[p] == '(':
                            depth += 1
                        elif text[p] == ')':
                            depth -= 1
                            if depth == 0:
                                p += 1
                                break
                        elif text[p] == '\n':
                            line += 1
                        p += 1
                    pos = p
                    continue
            toks.append(Tok(kind, tx, line, cur))
        toks.append(Tok('eof', '', line, cur))
        return toks

    # ---- macro pass (gi_source_scanner_parse_macros)
    def _parse_macro_lines(self, text, filename):
        lines = text.split('\n')
        i = 0
        lineno = 0
        while i < len(lines):
            lineno = i + 1
            l = lines[i].lstrip(' \t')
            i += 1
            if not l.startswith('#'):
                continue
            m = re.match(r'#[ \t]*define(?=[ \t])[ \t]*([A-Za-z0-9_]+)(.?)', l)
            if not m or not m.group(1):
                continue
            name = m.group(1)
            nxt = m.group(2)
            rest = l[m.end(1):]
            if nxt == '(':
                close = rest.find(')')
                if close < 0:
                    continue
                args = rest[1:close]
                sym = RawSymbol(CSYMBOL_TYPE_FUNCTION_MACRO, filename, lineno)
                sym.ident = name
                func = RawType(CTYPE_FUNCTION)
                ok = True
                children = []
                if args.strip():
                    for a in args.split(','):
                        a = a.strip()
                        if a == '...':
                            children.append(RawSymbol(CSYMBOL_TYPE_ELLIPSIS, filename, lineno))
                        elif re.match(r'^[A-Za-z_][A-Za-z_0-9]*$', a):
                            c = RawSymbol(CSYMBOL_TYPE_INVALID, filename, lineno)
                            c.ident = a
                            children.append(c)
                        else:
                            ok = False
                if not ok:
                    continue
                func.child_list = children
                sym.merge_type(func)
                self._add_symbol(sym)
                continue
            if nxt not in (' ', '\t'):
                continue
            # fold continuation lines
            while rest.endswith('\\') and i < len(lines):
                rest = rest[:-1] + lines[i]
                i += 1
            try:
                toks = self._tokenize(rest + '\n', filename)
            except Exception:
                continue
            for t in toks:
                t.line = lineno
            p = _Parser(self, toks)
            try:
                val = p.constant_expression()
                if p.peek().kind != 'eof':
                    continue
            except ParseError:
                continue
            if val.ci_set or val.const_boolean is not None or val.const_double is not None or val.const_string is not None:
                macro = val.copy()
                macro.ident = name
                macro.line = lineno
                macro.source_filename = filename
                self._add_symbol(macro)

    def _add_symbol(self, sym):
        if self.macro_scan or not self.files or sym.source_filename in self.files:
            self.symbols.append(sym)
        if sym.type == CSYMBOL_TYPE_TYPEDEF:
            self.typedefs.add(sym.ident)

    def _parse_translation_unit(self, toks):
        p = _Parser(self, toks)
        while p.peek().kind != 'eof':
            start = p.i
            try:
                p.external_declaration()
            except ParseError as e:
                t = p.peek()
                self.errors.append("%s:%d: %s at '%s'" % (t.file, t.line, e, t.text))
                # error recovery: skip to the next ';' or '}' at depth 0
                depth = 0
                if p.i == start:
                    p.i += 1
                while p.peek().kind != 'eof':
                    tx = p.peek().text
                    p.i += 1
                    if tx in '({[' and tx:
                        depth += 1
                    elif tx in ')}]' and tx:
                        depth -= 1
                    if depth <= 0 and tx == ';':
                        break


class _Parser(object):
    def __init__(self, sc, toks):
        self.sc = sc
        self.toks = toks
        self.i = 0

    # -- token helpers
    def peek(self, k=0):
        j = self.i
        # markers are side effects of the lexer: apply when passed over
        while True:
            while self.toks[j].kind == 'marker':
                j += 1
            if k == 0:
                return self.toks[j]
            k -= 1
            j += 1

    def next(self):
        while self.toks[self.i].kind == 'marker':
            m = self.toks[self.i].text
            if m == 'public':
                self.sc.private = False
            elif m == 'private':
                self.sc.private = True
            elif m == 'flags':
                self.sc.flags = True
            self.i += 1
        t = self.toks[self.i]
        if t.kind != 'eof':
            self.i += 1
        return t

    def accept(self, text):
        if self.peek().text == text and self.peek().kind in ('op', 'id'):
            return self.next()
        return None

    def expect(self, text):
        t = self.next()
        if t.text != text:
            raise ParseError("syntax error, unexpected '%s', expecting '%s'" % (t.text, text))
        return t

    def newsym(self, stype=CSYMBOL_TYPE_INVALID, tok=None):
        t = tok or self.peek()
        return RawSymbol(stype, t.file, t.line)

    def is_typedef_name(self, t):
        if t.kind != 'id' or t.text in KEYWORDS or t.text in BOOLEANS:
            return False
        return t.text in self.sc.typedefs

    # -- external declarations
    def external_declaration(self):
        if self.accept(';'):
            return
        specs = self.declaration_specifiers()
        if self.accept(';'):
            return
        syms = [self.declarator()]
        # function definition?
        if self.peek().text == '{':
            self.skip_braces()
            return
        if self.accept('='):
            self.skip_initializer()
        while self.accept(','):
            syms.append(self.declarator())
            if self.accept('='):
                self.skip_initializer()
        self.expect(';')
        for sym in syms:
            sym.merge_type(specs.copy())
            if specs.storage_class_specifier & STORAGE_CLASS_TYPEDEF:
                sym.type = CSYMBOL_TYPE_TYPEDEF
            elif sym.base_type.type == CTYPE_FUNCTION:
                sym.type = CSYMBOL_TYPE_FUNCTION
            else:
                sym.type = CSYMBOL_TYPE_OBJECT
            self.sc._add_symbol(sym)

    def skip_braces(self):
        depth = 0
        while True:
            t = self.next()
            if t.kind == 'eof':
                raise ParseError('unterminated block')
            if t.text == '{':
                depth += 1
            elif t.text == '}':
                depth -= 1
                if depth == 0:
                    return

    def skip_initializer(self):
        depth = 0
        while True:
            t = self.peek()
            if t.kind == 'eof':
                raise ParseError('unterminated initializer')
            if depth == 0 and t.text in (',', ';'):
                return
            if t.text in ('{', '(', '['):
                depth += 1
            elif t.text in ('}', ')', ']'):
                depth -= 1
            self.next()

    def declaration_specifiers(self, allow_storage=True):
        """returns the merged RawType following the right-recursive grammar rules"""
        items = []
        seen_type = False
        while True:
            t = self.peek()
            if t.kind != 'id':
                break
            tx = t.text
            if tx in STORAGE and allow_storage:
                self.next()
                items.append(('storage', STORAGE[tx]))
            elif tx in QUALS:
                self.next()
                items.append(('qual', QUALS[tx]))
            elif tx in INLINE:
                self.next()
                items.append(('func', FUNCTION_INLINE))
            elif tx == 'void':
                self.next()
                items.append(('type', RawType(CTYPE_VOID)))
                seen_type = True
            elif tx in ('signed', 'unsigned', '_Complex'):
                self.next()
                items.append(('type', RawType(CTYPE_BASIC_TYPE, tx)))
                seen_type = True
            elif tx in BASIC_TYPES:
                self.next()
                items.append(('type', RawType(CTYPE_BASIC_TYPE, tx)))
                seen_type = True
            elif tx in ('struct', 'union'):
                items.append(('type', self.struct_or_union_specifier()))
                seen_type = True
            elif tx == 'enum':
                items.append(('type', self.enum_specifier()))
                seen_type = True
            elif not seen_type and tx not in KEYWORDS and (self.is_typedef_name(t) or self._looks_like_type(t)):
                self.next()
                items.append(('type', RawType(CTYPE_TYPEDEF, tx)))
                seen_type = True
            else:
                break
        if not items:
            raise ParseError("syntax error, unexpected '%s' in declaration specifiers" % self.peek().text)
        # fold right-to-left exactly as the right-recursive productions do
        result = None
        for kind, val in reversed(items):
            if result is None:
                if kind == 'type':
                    result = val
                else:
                    result = RawType(CTYPE_INVALID)
                    if kind == 'storage':
                        result.storage_class_specifier |= val
                    elif kind == 'qual':
                        result.type_qualifier |= val
                    else:
                        result.function_specifier |= val
            else:
                if kind == 'type':
                    set_or_merge_base_type(val, result)
                    result = val
                elif kind == 'storage':
                    result.storage_class_specifier |= val
                elif kind == 'qual':
                    result.type_qualifier |= val
                else:
                    result.function_specifier |= val
        return result

    def _looks_like_type(self, t):
        """an unknown identifier in type-specifier position followed by something that can only continue a
        declaration is a typedef name the real scanner would know from included headers"""
        n = self.peek(1)
        if n.kind == 'id' and n.text not in ('sizeof',):
            return True
        if n.text == '*':
            return True
        if n.text in (')', ',') and getattr(self, '_in_params', 0) > 0:
            return True
        if n.text == '(' and self.peek(2).text == '*':
            return True
        return False

    def struct_or_union_specifier(self):
        kw = self.next()
        self.sc.private = False
        t = RawType(CTYPE_STRUCT if kw.text == 'struct' else CTYPE_UNION)
        name = None
        if self.peek().kind == 'id' and self.peek().text not in KEYWORDS:
            name = self.next().text
        if self.peek().text == '{':
            self.next()
            children = []
            while self.peek().text != '}':
                if self.peek().kind == 'eof':
                    raise ParseError('unterminated struct')
                children.extend(self.struct_declaration())
            close = self.expect('}')
            t.name = name
            t.child_list = children
            if name is not None:
                sym = RawSymbol(CSYMBOL_TYPE_STRUCT if t.type == CTYPE_STRUCT else CSYMBOL_TYPE_UNION, close.file, close.line)
                sym.ident = name
                sym.base_type = t.copy()
                self.sc._add_symbol(sym)
        else:
            if name is None:
                raise ParseError('struct without tag or body')
            t.name = name
        return t

    def struct_declaration(self):
        specs = self.declaration_specifiers(allow_storage=True)
        syms = []
        if self.peek().text == ';':
            syms.append(self.newsym())          # anonymous struct/union member
        else:
            while True:
                if self.peek().text == ':':
                    self.next()
                    self.constant_expression()
                    s = self.newsym()
                else:
                    s = self.declarator()
                    if self.accept(':'):
                        v = self.constant_expression()
                        if v.ci_set:
                            s.ci_set = True
                            s._ci = v._ci
                syms.append(s)
                if not self.accept(','):
                    break
        self.expect(';')
        out = []
        for s in syms:
            if specs.storage_class_specifier & STORAGE_CLASS_TYPEDEF:
                s.type = CSYMBOL_TYPE_TYPEDEF
            else:
                s.type = CSYMBOL_TYPE_MEMBER
            s.merge_type(specs.copy())
            s.private = self.sc.private
            out.append(s)
        return out

    def enum_specifier(self):
        self.next()
        self.sc.flags = False
        self.sc.private = False
        name = None
        if self.peek().kind == 'id' and self.peek().text not in KEYWORDS:
            name = self.next().text
        t = RawType(CTYPE_ENUM, name)
        if self.peek().text == '{':
            self.next()
            self._is_bitfield = False
            last = -1
            children = []
            while self.peek().text != '}':
                idt = self.next()
                if idt.kind != 'id':
                    raise ParseError("syntax error, unexpected '%s' in enumerator list" % idt.text)
                s = RawSymbol(CSYMBOL_TYPE_OBJECT, idt.file, idt.line)
                s.ident = idt.text
                s.ci_set = True
                if self.accept('='):
                    v = self.constant_expression()
                    s._ci = _i64(v._ci)
                    last = s._ci
                else:
                    last = _i64(last + 1)
                    s._ci = last
                self.sc.const_table[s.ident] = s
                s.private = self.sc.private
                children.append(s)
                if not self.accept(','):
                    break
            self.expect('}')
            t.child_list = children
            t.is_bitfield = bool(self._is_bitfield or self.sc.flags)
        elif name is None:
            raise ParseError('enum without tag or body')
        return t

    # -- declarators
    def pointer(self):
        """returns the pointer chain (outermost first) or None"""
        if self.peek().text != '*':
            return None
        self.next()
        q = 0
        while self.peek().kind == 'id' and self.peek().text in QUALS:
            q |= QUALS[self.next().text]
        rest = self.pointer()
        mine = RawType(CTYPE_POINTER)
        mine.type_qualifier = q
        if rest is None:
            return mine
        b = rest
        while b.base_type is not None:
            b = b.base_type
        b.base_type = mine
        return rest

    def declarator(self, abstract_ok=False):
        ptr = self.pointer()
        sym = self.direct_declarator(abstract_ok, have_pointer=ptr is not None)
        if ptr is not None:
            sym.merge_type(ptr)
        return sym

    def direct_declarator(self, abstract_ok, have_pointer=False):
        t = self.peek()
        sym = None
        if t.kind == 'id' and t.text not in KEYWORDS:
            self.next()
            sym = RawSymbol(CSYMBOL_TYPE_INVALID, t.file, t.line)
            sym.ident = t.text
        elif t.text == '(' and self._paren_is_declarator(abstract_ok):
            self.next()
            sym = self.declarator(abstract_ok)
            self.expect(')')
        elif abstract_ok:
            sym = None  # created lazily
        else:
            raise ParseError("syntax error, unexpected '%s', expecting identifier" % t.text)
        while True:
            t = self.peek()
            if t.text == '[':
                self.next()
                if sym is None:
                    sym = self.newsym()
                self.accept('static')
                arr = RawType(CTYPE_ARRAY)
                if self.peek().text != ']':
                    size = self.assignment_expression()
                    arr.child_list = [size]
                self.expect(']')
                sym.merge_type(arr)
            elif t.text == '(':
                self.next()
                if sym is None:
                    sym = self.newsym()
                func = RawType(CTYPE_FUNCTION)
                if self.peek().text != ')':
                    params = self.parameter_list()
                    if not (len(params) == 1 and params[0].base_type is not None and params[0].base_type.type == CTYPE_VOID
                            and params[0].type != CSYMBOL_TYPE_ELLIPSIS):
                        func.child_list = params
                self.expect(')')
                sym.merge_type(func)
            else:
                break
        if sym is None:
            if have_pointer or abstract_ok:
                sym = self.newsym()
            else:
                raise ParseError('expected declarator')
        return sym

    def _paren_is_declarator(self, abstract_ok):
        n = self.peek(1)
        if n.text in ('*', '(', '['):
            return True
        if n.kind == 'id' and n.text not in KEYWORDS and not self.is_typedef_name(n):
            # "(name)" – a parenthesised declarator; in abstract context an unknown identifier followed by
            # more specifier material is a parameter list instead
            if abstract_ok:
                n2 = self.peek(2)
                return n2.text in (')', '[', '(')
            return True
        return False

    def parameter_list(self):
        self._in_params = getattr(self, '_in_params', 0) + 1
        try:
            params = []
            while True:
                if self.peek().text == '...':
                    t = self.next()
                    params.append(RawSymbol(CSYMBOL_TYPE_ELLIPSIS, t.file, t.line))
                else:
                    specs = self.declaration_specifiers()
                    if self.peek().text in (',', ')'):
                        s = self.newsym()
                        s.base_type = specs
                    else:
                        s = self.declarator(abstract_ok=True)
                        s.merge_type(specs)
                    params.append(s)
                if not self.accept(','):
                    break
            return params
        finally:
            self._in_params -= 1

    def type_name(self):
        specs = self.declaration_specifiers(allow_storage=False)
        if self.peek().text != ')':
            s = self.declarator(abstract_ok=True)
            s.merge_type(specs)
            return s.base_type
        return specs

    # -- expressions (transcribed value semantics)
    def constant_expression(self):
        return self.conditional_expression()

    def assignment_expression(self):
        return self.conditional_expression()

    def conditional_expression(self):
        c = self.binary(0)
        if self.accept('?'):
            a = self.conditional_expression()
            self.expect(':')
            b = self.conditional_expression()
            return a if c.get_bool() else b
        return c

    LEVELS = [['||'], ['&&'], ['|'], ['^'], ['&'], ['==', '!='], ['<', '>', '<=', '>='], ['<<', '>>'], ['+', '-'],
              ['*', '/', '%']]

    def binary(self, lvl):
        if lvl == len(self.LEVELS):
            return self.cast_expression()
        left = self.binary(lvl + 1)
        while self.peek().kind == 'op' and self.peek().text in self.LEVELS[lvl]:
            op = self.next()
            right = self.binary(lvl + 1)
            r = RawSymbol(CSYMBOL_TYPE_CONST, op.file, op.line)
            r.ci_set = True
            a, b = _i64(left._ci), _i64(right._ci)
            o = op.text
            if o == '||':
                v = int(left.get_bool() or right.get_bool())
            elif o == '&&':
                v = int(left.get_bool() and right.get_bool())
            elif o == '|':
                v = a | b
            elif o == '^':
                v = a ^ b
            elif o == '&':
                v = a & b
            elif o == '==':
                v = int(a == b)
            elif o == '!=':
                v = int(a != b)
            elif o == '<':
                v = int(a < b)
            elif o == '>':
                v = int(a > b)
            elif o == '<=':
                v = int(a <= b)
            elif o == '>=':
                v = int(a >= b)
            elif o == '<<':
                v = a << (b & 63) if b >= 0 else 0
                self._is_bitfield = True
            elif o == '>>':
                v = a >> (b & 63) if b >= 0 else 0
            elif o == '+':
                v = a + b
            elif o == '-':
                v = a - b
            elif o == '*':
                v = a * b
            elif o == '/':
                v = int(a / b) if b != 0 else 0
            else:
                v = (a - int(a / b) * b) if b != 0 else 0
            r._ci = _i64(v)
            left = r
        return left

    def _starts_type_name(self):
        """after '(': is this a cast?  In macro-scan mode only typedef names and struct/union/enum/void/signed...
        keywords survive as type tokens (basic type words are IDENTIFIERs there, scannerlexer.l line ~207)."""
        t = self.peek()
        if t.kind != 'id':
            return False
        if self.sc.macro_scan:
            if t.text in ('_Bool', 'bool'):
                return True
            return self.is_typedef_name(t)
        return (t.text in BASIC_TYPES or t.text in QUALS or t.text in ('void', 'signed', 'unsigned', 'struct', 'union', 'enum')
                or self.is_typedef_name(t))

    def cast_expression(self):
        if self.peek().text == '(':
            save = self.i
            self.next()
            if self._starts_type_name():
                try:
                    tn = self.type_name()
                    self.expect(')')
                except ParseError:
                    self.i = save
                    return self.unary_expression()
                val = self.cast_expression()
                if val.ci_set or val.const_double is not None or val.const_string is not None:
                    val.base_type = tn
                return val
            self.i = save
        return self.unary_expression()

    def unary_expression(self):
        t = self.peek()
        if t.kind == 'op' and t.text in ('+', '-', '~', '!', '&', '*'):
            self.next()
            v = self.cast_expression()
            if t.text == '+':
                return v
            if t.text == '-':
                r = v.copy()
                r._ci = _i64(-v._ci)
                return r
            if t.text == '~':
                r = v.copy()
                r._ci = _i64(~v._ci)
                return r
            if t.text == '!':
                r = v.copy()
                r._ci = int(not v.get_bool())
                return r
            return self.newsym(tok=t)
        if t.kind == 'id' and t.text in ('G_GINT64_CONSTANT', 'G_GUINT64_CONSTANT'):
            self.next()
            self.expect('(')
            v = self.unary_expression()
            self.expect(')')
            if v.ci_set:
                if t.text == 'G_GUINT64_CONSTANT':
                    v.base_type = RawType(CTYPE_BASIC_TYPE, 'guint64')
                else:
                    v.base_type = RawType(CTYPE_BASIC_TYPE, 'guint64' if v.ci_unsigned else 'gint64')
            return v
        if t.kind == 'id' and t.text in ('sizeof', '_Alignof', '__alignof', '__alignof__'):
            self.next()
            if self.accept('('):
                depth = 1
                while depth:
                    x = self.next()
                    if x.kind == 'eof':
                        raise ParseError('eof in sizeof')
                    if x.text == '(':
                        depth += 1
                    elif x.text == ')':
                        depth -= 1
            else:
                self.unary_expression()
            return self.newsym(tok=t)
        return self.postfix_expression()

    def postfix_expression(self):
        v = self.primary_expression()
        while True:
            t = self.peek()
            if t.text == '[':
                self.next()
                self.conditional_expression()
                self.expect(']')
                v = self.newsym(tok=t)
            elif t.text == '(':
                self.next()
                depth = 1
                while depth:
                    x = self.next()
                    if x.kind == 'eof':
                        raise ParseError('eof in call')
                    if x.text == '(':
                        depth += 1
                    elif x.text == ')':
                        depth -= 1
                v = self.newsym(tok=t)
            elif t.text in ('.', '->'):
                self.next()
                self.next()
                v = self.newsym(tok=t)
            elif t.text in ('++', '--'):
                self.next()
                v = self.newsym(tok=t)
            else:
                return v

    def primary_expression(self):
        t = self.next()
        if t.kind == 'id':
            if t.text in BOOLEANS:
                s = RawSymbol(CSYMBOL_TYPE_CONST, t.file, t.line)
                s.const_boolean = t.text.lower() == 'true'
                return s
            if t.text in KEYWORDS:
                raise ParseError("syntax error, unexpected '%s'" % t.text)
            c = self.sc.const_table.get(t.text)
            if c is not None:
                return c
            return RawSymbol(CSYMBOL_TYPE_INVALID, t.file, t.line)
        if t.kind == 'int':
            s = RawSymbol(CSYMBOL_TYPE_CONST, t.file, t.line)
            s.ci_set = True
            tx = t.text
            if tx.startswith('0x') and len(tx) > 2:
                m = re.match(r'[0-9a-fA-F]*', tx[2:])
                val = int(m.group() or '0', 16)
                rest = tx[2 + m.end():]
            elif tx.startswith('0') and len(tx) > 1:
                m = re.match(r'[0-7]*', tx[1:])
                val = int(m.group() or '0', 8)
                rest = tx[1 + m.end():]
            else:
                m = re.match(r'[0-9]*', tx)
                val = int(m.group() or '0', 10)
                rest = tx[m.end():]
            val = min(val, (1 << 64) - 1)
            s._ci = _i64(val)
            s.ci_unsigned = rest[:1] == 'U'
            return s
        if t.kind == 'float':
            s = RawSymbol(CSYMBOL_TYPE_CONST, t.file, t.line)
            try:
                s.const_double = float(re.match(r'[0-9.]+(?:[eE][+-]?[0-9]+)?', t.text).group())
            except Exception:
                s.const_double = 0.0
            return s
        if t.kind == 'chr':
            s = RawSymbol(CSYMBOL_TYPE_CONST, t.file, t.line)
            s.ci_set = True
            s._ci = ord(t.text[1])
            return s
        if t.kind == 'str':
            s = RawSymbol(CSYMBOL_TYPE_CONST, t.file, t.line)
            s.const_string = parse_c_string_literal(t.text[1:-1])
            while self.peek().kind == 'str':
                n = self.next()
                s2 = parse_c_string_literal(n.text[1:-1])
                if s.const_string is not None and s2 is not None:
                    s.const_string = s.const_string + s2
            return s
        if t.text == '(':
            v = self.conditional_expression()
            while self.accept(','):
                v = self.conditional_expression()
            self.expect(')')
            return v
        raise ParseError("syntax error, unexpected '%s'" % t.text)


def install():
    """register the stand-in as giscanner._giscanner (must run before `import giscanner.sourcescanner`)"""
    m = types.ModuleType('giscanner._giscanner')
    m.SourceScanner = SourceScanner
    m.__verif_standin__ = True
    sys.modules['giscanner._giscanner'] = m
    return m
