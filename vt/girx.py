"""Independent GIR reader: ElementTree -> neutral Node tree.  Never imports giscanner."""
import xml.etree.ElementTree as ET

CORE = 'http://www.gtk.org/introspection/core/1.0'
C = 'http://www.gtk.org/introspection/c/1.0'
GLIB = 'http://www.gtk.org/introspection/glib/1.0'
XMLNS = 'http://www.w3.org/XML/1998/namespace'
_PFX = {CORE: '', C: 'c:', GLIB: 'glib:', XMLNS: 'xml:'}


def _name(q):
    if q.startswith('{'):
        uri, local = q[1:].split('}', 1)
        return _PFX.get(uri, '{%s}' % uri) + local
    return q


class Node(object):
    __slots__ = ('tag', 'a', 'children', 'text', 'parent')

    def __init__(self, tag, a, text):
        self.tag, self.a, self.text = tag, a, text
        self.children = []
        self.parent = None

    def get(self, k, d=None):
        return self.a.get(k, d)

    def find(self, tag):
        for c in self.children:
            if c.tag == tag:
                return c
        return None

    def findall(self, *tags):
        return [c for c in self.children if c.tag in tags]

    def iter(self, *tags):
        st = [self]
        while st:
            n = st.pop()
            if not tags or n.tag in tags:
                yield n
            st.extend(reversed(n.children))

    def path(self):
        parts = []
        n = self
        while n is not None:
            nm = n.a.get('name') or n.a.get('c:identifier') or ''
            parts.append('%s[%s]' % (n.tag, nm) if nm else n.tag)
            n = n.parent
        return '/'.join(reversed(parts))

    def __repr__(self):
        return '<%s %r>' % (self.tag, self.a)

    def to_obj(self):
        return {'tag': self.tag, 'a': dict(self.a), 'text': self.text, 'children': [c.to_obj() for c in self.children]}


def _conv(el, parent=None):
    n = Node(_name(el.tag), {_name(k): v for k, v in el.attrib.items()}, el.text)
    n.parent = parent
    for c in el:
        n.children.append(_conv(c, n))
    return n


def parse_string(xml):
    if isinstance(xml, str):
        xml = xml.encode('utf-8')
    return _conv(ET.fromstring(xml))


def parse_file(path):
    with open(path, 'rb') as f:
        return parse_string(f.read())


def namespace(root):
    return root.find('namespace')


CALLABLE_TAGS = ('function', 'method', 'constructor', 'callback', 'virtual-method', 'glib:signal', 'function-inline',
                 'method-inline')
TYPE_DEF_TAGS = ('class', 'interface', 'record', 'union', 'enumeration', 'bitfield', 'callback', 'alias', 'glib:boxed')


def params_of(callable_node):
    """-> (instance_parameter or None, [parameter nodes])"""
    ps = callable_node.find('parameters')
    if ps is None:
        return None, []
    return ps.find('instance-parameter'), ps.findall('parameter')


def type_of(node):
    """the <type>/<array>/<varargs> child of a parameter/return-value/field/property/constant/alias"""
    for c in node.children:
        if c.tag in ('type', 'array', 'varargs', 'callback'):
            return c
    return None


def type_sig(t):
    """compact structural signature of a type node"""
    if t is None:
        return None
    if t.tag == 'varargs':
        return ('varargs',)
    if t.tag == 'array':
        sub = [type_sig(c) for c in t.children if c.tag in ('type', 'array')]
        return ('array', t.get('name'), t.get('length'), t.get('fixed-size'), t.get('zero-terminated'), t.get('c:type'), tuple(sub))
    if t.tag == 'callback':
        return ('callback', t.get('name'))
    sub = [type_sig(c) for c in t.children if c.tag in ('type', 'array')]
    return ('type', t.get('name'), t.get('c:type'), tuple(sub))
