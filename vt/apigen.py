"""Generators of small C API descriptions (header text + GTK-Doc comment blocks in a .c file + optional dump XML)
shared by the pyscan checks.  A library is a dict accepted by vt.scan.scan()."""
import collections
from . import docgen

PRELUDE = '''typedef struct _FooRec FooRec;
struct _FooRec {
  gint x;
  gchar *name;
};
typedef union _FooUni FooUni;
union _FooUni {
  gint i;
  gdouble d;
};
typedef struct _FooOpaque FooOpaque;
typedef enum {
  FOO_MODE_A,
  FOO_MODE_B
} FooMode;
typedef enum {
  FOO_FLAGS_X = 1 << 0,
  FOO_FLAGS_Y = 1 << 1
} FooFlags;
typedef void (*FooCallback) (gint value, gpointer user_data);
typedef gint FooAlias;
typedef guint8 FooByte;
typedef FooRec FooRecAlias;
typedef FooUni FooUniAlias;
'''

# value kinds: spelling -> properties used by the reference models
#   ptr: pointer depth as written (gpointer/callbacks count as pointer-like)
KINDS = collections.OrderedDict([
    ('int', ['gint', 'guint', 'int', 'gboolean', 'gdouble', 'gsize', 'guint8', 'gint64', 'glong', 'gfloat', 'unsigned int',
             'gunichar', 'GType', 'gchar', 'guint16', 'gssize', 'double', 'unsigned long', 'short']),
    ('alias', ['FooAlias', 'FooByte']),
    ('enum', ['FooMode', 'FooFlags']),
    ('intptr', ['gint *', 'guint *', 'gdouble *', 'gsize *', 'gboolean *', 'guint8 *', 'const guint8 *', 'int *', 'gint64 *']),
    ('string', ['const char *', 'const gchar *', 'gchar *', 'char *']),
    ('strptr', ['gchar **', 'char **', 'const gchar **']),
    ('record', ['FooRec *', 'const FooRec *', 'FooUni *', 'FooOpaque *', 'FooRecAlias *', 'FooUniAlias *']),      # incl. typedef aliases of aggregates
    ('recordpp', ['FooRec **', 'FooOpaque **']),
    ('object', ['GObject *', 'GCancellable *', 'GFile *', 'GAsyncResult *']),      # classes and interfaces
    ('objectpp', ['GObject **']),
    ('gpointer', ['gpointer', 'gconstpointer', 'void *']),
    ('list', ['GList *', 'GSList *', 'GHashTable *', 'GPtrArray *', 'GArray *', 'GByteArray *', 'const GList *']),
    ('listpp', ['GList **', 'GHashTable **']),
    ('callback', ['FooCallback']),
    ('variant', ['GVariant *']),
    ('closure', ['GClosure *']),
    ('enumptr', ['FooMode *']),
])
RETURN_KINDS = ['void', 'int', 'alias', 'enum', 'intptr', 'string', 'strptr', 'record', 'object', 'gpointer', 'list', 'variant']

KIND_OF = {}
for _k, _sp in KINDS.items():
    for _s in _sp:
        KIND_OF[_s] = _k


def pointer_depth(sp):
    return sp.count('*')


def base_of(sp):
    return sp.replace('*', '').replace('const ', '').strip()


def decl(sp, name):
    """C declaration of a parameter `name` of spelled type `sp`"""
    if sp.endswith('*'):
        return '%s%s' % (sp, name)
    return '%s %s' % (sp, name)


def render_function(name, ret, params, varargs=False):
    """params: [(spelling, name)]"""
    ps = ', '.join(decl(sp, n) for sp, n in params) or 'void'
    if varargs:
        ps += ', ...'
    r = ret if ret.endswith('*') else ret + ' '
    return '%s%s (%s);' % (r, name, ps)


class Source(object):
    """accumulates text and keeps track of line numbers (1-based)"""

    def __init__(self, filename):
        self.filename = filename
        self.lines = []

    def add(self, text):
        """-> first line number of the added text"""
        first = len(self.lines) + 1
        self.lines.extend(text.split('\n'))
        return first

    def text(self):
        return '\n'.join(self.lines) + '\n'


def library(namespace='Foo', headers=None, sources=None, includes=('GObject-2.0', 'Gio-2.0'), **kw):
    d = {'namespace': namespace, 'version': '1.0', 'identifier_prefixes': [namespace], 'symbol_prefixes': [namespace.lower()],
         'includes': list(includes), 'headers': headers or [], 'sources': sources or []}
    d.update(kw)
    return d
