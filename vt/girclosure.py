"""Structural closure rules over a GIR document (property C05's statement), written against vt.girx trees.
Shared by C05 (scanner outputs) and C15 (what the typelib compiler must be able to consume)."""
import collections
from . import girx

FUNDAMENTALS = set('''none gboolean gint8 guint8 gint16 guint16 gint32 guint32 gint64 guint64 gchar guchar gshort gushort gint guint
glong gulong gsize gssize gintptr guintptr gfloat gdouble gunichar GType utf8 filename gpointer time_t off_t dev_t gid_t pid_t
socklen_t uid_t'''.split())
UNBINDABLE = {'va_list', 'long long', 'unsigned long long', 'long double'}
DEF_TAGS = ('class', 'interface', 'record', 'union', 'enumeration', 'bitfield', 'callback', 'alias', 'glib:boxed')
CALLABLE_TAGS = ('function', 'method', 'constructor', 'callback', 'virtual-method', 'glib:signal')


class Closure(object):
    def __init__(self, root, includes=None, partial_namespaces=()):
        """includes: {namespace name: girx root}; partial_namespaces: namespaces whose definitions are only partly known
        (stubs) - references into them are only checked for 'namespace is in the include closure'"""
        self.root = root
        self.ns = girx.namespace(root)
        self.name = self.ns.get('name')
        self.includes = includes or {}
        self.partial = set(partial_namespaces)
        self.defs = {self.name: self._defs_of(self.ns)}
        for n, r in self.includes.items():
            self.defs[n] = self._defs_of(girx.namespace(r))
        self.problems = []
        self.counts = collections.Counter()

    @staticmethod
    def _defs_of(ns):
        d = {}
        for c in ns.children:
            if c.tag in DEF_TAGS:
                nm = c.get('name') or c.get('glib:name')
                if nm:
                    d[nm] = c
        return d

    def lookup(self, name):
        """-> ('fundamental'|'def'|'unknown-ns'|'missing'|'partial', node)"""
        if name in FUNDAMENTALS or name in UNBINDABLE:
            return 'fundamental', None
        if '.' in name:
            nsn, local = name.split('.', 1)
        else:
            nsn, local = self.name, name
        if nsn not in self.defs:
            return 'unknown-ns', None
        d = self.defs[nsn].get(local)
        if d is None:
            return ('partial', None) if nsn in self.partial else ('missing', None)
        return 'def', d

    @staticmethod
    def introspectable(node):
        n = node
        while n is not None:
            if n.get('introspectable') == '0':
                return False
            n = n.parent
        return True

    def problem(self, key, node, what):
        self.problems.append((key, '%s: %s' % (node.path(), what)))

    # ---- type usage ------------------------------------------------------------------------------------
    def check_type(self, t, owner, collect):
        if t is None:
            return
        if t.tag == 'varargs':
            collect.append(('varargs', owner, 'variadic parameter'))
            return
        if t.tag == 'array':
            kids = [c for c in t.children if c.tag in ('type', 'array')]
            if not kids:
                collect.append(('array-without-element-type', owner, 'array without element type'))
            elif kids[0].tag == 'type' and kids[0].get('name') == 'gpointer' and t.get('name') is None and False:
                pass
            for k in kids:
                self.check_type(k, owner, collect)
            nm = t.get('name')
            if nm:
                self._check_name(nm, owner, collect)
            return
        nm = t.get('name')
        if nm is None:
            collect.append(('unresolved-type', owner, 'type without a name (c:type %r)' % t.get('c:type')))
            return
        if nm in UNBINDABLE:
            collect.append(('unbindable:' + nm.replace(' ', '-'), owner, 'uses %s' % nm))
            return
        kids = [c for c in t.children if c.tag in ('type', 'array')]
        if nm in ('GLib.List', 'GLib.SList'):
            if not kids:
                collect.append(('list-without-element-type', owner, '%s without element type' % nm))
        for k in kids:
            self.check_type(k, owner, collect)
        self._check_name(nm, owner, collect)

    def _check_name(self, nm, owner, collect):
        kind, d = self.lookup(nm)
        self.counts['type-reference'] += 1
        if kind == 'unknown-ns':
            collect.append(('reference-outside-includes', owner, 'type %s: namespace not in the include closure' % nm))
        elif kind == 'missing':
            collect.append(('dangling-type', owner, 'type %s has no definition' % nm))
        elif kind == 'def' and d.get('introspectable') == '0':
            collect.append(('non-introspectable-type', owner, 'type %s is marked introspectable="0"' % nm))

    def callable_problems(self, c):
        col = []
        _, ps = girx.params_of(c)
        inst, _ = girx.params_of(c)
        allp = ([inst] if inst is not None else []) + ps
        rv = c.find('return-value')
        for p in allp + ([rv] if rv is not None else []):
            if p.get('skip') != '1':
                # a skipped value is not passed through bindings: its type is not judged
                self.check_type(girx.type_of(p), p, col)
            if p.get('transfer-ownership') is None and p.get('skip') != '1':
                col.append(('missing-transfer', p, 'no transfer-ownership'))
        for p in ps:
            t = girx.type_of(p)
            if t is not None and t.tag == 'type' and t.get('name'):
                kind, d = self.lookup(t.get('name'))
                target = d
                # follow aliases
                hops = 0
                while target is not None and target.tag == 'alias' and hops < 5:
                    tt = girx.type_of(target)
                    kind, target = self.lookup(tt.get('name')) if tt is not None and tt.get('name') else ('missing', None)
                    hops += 1
                is_cb = (target is not None and target.tag == 'callback')
                if is_cb and t.get('name') not in ('GLib.DestroyNotify', 'Gio.AsyncReadyCallback') and p.get('scope') is None \
                        and p.get('skip') != '1':
                    col.append(('callback-without-scope', p, 'callback parameter of type %s without scope' % t.get('name')))
        return col

    # ---- whole document ---------------------------------------------------------------------------------
    def run(self):
        ns = self.ns
        demoted = collections.Counter()
        for c in ns.iter(*CALLABLE_TAGS):
            if c.parent is not None and c.parent.tag == 'field' and not self.introspectable(c):
                continue
            probs = self.callable_problems(c)
            self.counts['callable'] += 1
            if self.introspectable(c):
                for key, node, what in probs:
                    self.problem(key, node, what)
            elif probs:
                demoted[probs[0][0]] += 1
            self.cross_refs_callable(c)
        for f in ns.iter('field'):
            if f.find('callback') is not None:
                continue
            col = []
            self.check_type(girx.type_of(f), f, col)
            self.counts['field'] += 1
            if self.introspectable(f):
                for key, node, what in col:
                    self.problem(key, node, what)
            elif col:
                demoted[col[0][0]] += 1
            t = girx.type_of(f)
            if t is not None and t.tag == 'array' and t.get('length') is not None:
                sibs = [x for x in f.parent.findall('field')]
                try:
                    li = int(t.get('length'))
                    ok = 0 <= li < len(sibs)
                except ValueError:
                    ok = False
                if not ok:
                    self.problem('length-index-out-of-range', f, 'array length=%r, record has %d fields' % (t.get('length'), len(sibs)))
        for p in ns.iter('property'):
            col = []
            self.check_type(girx.type_of(p), p, col)
            self.counts['property'] += 1
            if self.introspectable(p):
                for key, node, what in col:
                    self.problem(key, node, what)
            elif col:
                demoted[col[0][0]] += 1
        for a in ns.findall('alias'):
            col = []
            self.check_type(girx.type_of(a), a, col)
            self.counts['alias'] += 1
            # the target of an alias is written as one flat <type>: a container there has no element type by construction
            col = [c for c in col if c[0] not in ('list-without-element-type', 'array-without-element-type', 'map-without-element-types')]
            if self.introspectable(a):
                for key, node, what in col:
                    self.problem(key, node, what)
            elif col:
                demoted[col[0][0]] += 1
        self.cross_refs_types()
        self.demoted = demoted
        return self.problems

    def cross_refs_callable(self, c):
        _, ps = girx.params_of(c)
        n = len(ps)
        for i, p in enumerate(ps):
            for attr in ('closure', 'destroy'):
                v = p.get(attr)
                if v is None:
                    continue
                self.counts['index-reference'] += 1
                try:
                    vi = int(v)
                except ValueError:
                    vi = -1
                if not (0 <= vi < n):
                    self.problem('%s-index-out-of-range' % attr, p, '%s=%r with %d parameters' % (attr, v, n))
        rv = c.find('return-value')
        for holder in ps + ([rv] if rv is not None else []):
            t = girx.type_of(holder)
            if t is not None and t.tag == 'array' and t.get('length') is not None:
                self.counts['index-reference'] += 1
                try:
                    li = int(t.get('length'))
                except ValueError:
                    li = -1
                if not (0 <= li < n):
                    self.problem('length-index-out-of-range', holder, 'array length=%r with %d parameters' % (t.get('length'), n))
        # shadows / shadowed-by
        sh = c.get('shadows')
        if sh is not None and c.parent is not None:
            self.counts['shadow-reference'] += 1
            sibs = [x for x in c.parent.children if x.tag == c.tag and x.get('name') == sh]
            if not any(x.get('shadowed-by') == c.get('name') for x in sibs):
                self.problem('shadows-not-mutual', c, 'shadows=%r but no sibling %r with shadowed-by=%r' % (sh, sh, c.get('name')))
        sb = c.get('shadowed-by')
        if sb is not None and c.parent is not None:
            self.counts['shadow-reference'] += 1
            sibs = [x for x in c.parent.children if x.tag == c.tag and x.get('name') == sb]
            if not any(x.get('shadows') == c.get('name') for x in sibs):
                self.problem('shadowed-by-not-mutual', c, 'shadowed-by=%r but no sibling with shadows=%r' % (sb, c.get('name')))
        if c.tag == 'virtual-method' and c.get('invoker') is not None:
            self.counts['invoker-reference'] += 1
            ms = [m for m in c.parent.findall('method', 'method-inline') if m.get('name') == c.get('invoker')]
            if not ms:
                self.problem('invoker-not-a-method', c, 'invoker=%r is not a method of %s' % (c.get('invoker'), c.parent.get('name')))

    def cross_refs_types(self):
        ns = self.ns
        for t in ns.findall('class', 'interface'):
            ts = t.get('glib:type-struct')
            if ts is not None:
                self.counts['type-struct-reference'] += 1
                kind, d = self.lookup(ts)
                if d is None or d.get('glib:is-gtype-struct-for') != t.get('name'):
                    self.problem('type-struct-not-mutual', t, 'glib:type-struct=%r, that record says is-gtype-struct-for=%r' % (
                        ts, d.get('glib:is-gtype-struct-for') if d is not None else None))
            for p in t.findall('property'):
                for attr, mattr in (('setter', 'glib:set-property'), ('getter', 'glib:get-property')):
                    v = p.get(attr)
                    if v is None:
                        continue
                    self.counts['accessor-reference'] += 1
                    ms = [m for m in t.findall('method', 'method-inline') if m.get('name') == v]
                    if not ms:
                        self.problem('accessor-missing', p, '%s=%r is not a method of %s' % (attr, v, t.get('name')))
                    elif ms[0].get(mattr) != p.get('name'):
                        self.problem('accessor-not-mutual', p, '%s=%r but that method has %s=%r' % (attr, v, mattr, ms[0].get(mattr)))
            # the converse (a method's explicit set-property/get-property naming a property whose accessor is another method)
            # is a contradiction between two annotations of the input, not between an inferred accessor and its method: the
            # statement does not cover it, so it is counted but not judged
            for m in t.findall('method', 'method-inline'):
                for attr in ('glib:set-property', 'glib:get-property'):
                    if m.get(attr) is not None:
                        self.counts['accessor-reference'] += 1
        for r in ns.findall('record'):
            sf = r.get('glib:is-gtype-struct-for')
            if sf is not None:
                self.counts['type-struct-reference'] += 1
                kind, d = self.lookup(sf)
                if d is None or d.get('glib:type-struct') != r.get('name'):
                    self.problem('is-gtype-struct-for-not-mutual', r, 'is-gtype-struct-for=%r, that type says type-struct=%r' % (
                        sf, d.get('glib:type-struct') if d is not None else None))


def load_includes(root, search_dirs, partial_ok=True):
    """-> (includes dict, partial set): transitive <include> closure; namespaces whose file cannot be found are
    registered as empty partial namespaces (references into them are only checked for membership in the closure)"""
    import os
    incs, partial = {}, set()
    todo = [(i.get('name'), i.get('version')) for i in root.findall('include')]
    seen = set()
    while todo:
        name, ver = todo.pop()
        if name in seen:
            continue
        seen.add(name)
        path = None
        for d in search_dirs:
            pth = os.path.join(d, '%s-%s.gir' % (name, ver))
            if os.path.exists(pth):
                path = pth
                break
        if path is None:
            partial.add(name)
            incs[name] = girx.parse_string('<repository xmlns="%s"><namespace name="%s" version="%s"/></repository>' % (girx.CORE, name, ver))
            continue
        r = girx.parse_file(path)
        incs[name] = r
        for i in r.findall('include'):
            todo.append((i.get('name'), i.get('version')))
    return incs, partial
