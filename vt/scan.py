"""Drives the *real* scanner passes from /repo's working tree in-process, with monitors attached.

    setup()                 installs the _giscanner stand-in, imports giscanner.* once
    scan(case) -> result    Transformer.parse -> GDumpParser -> MainTransformer -> IntrospectablePass -> GIRWriter

Monitors: a recorder wrapped around MessageLogger.log (records every diagnostic *before* the suppression test),
entry counters on the mechanism functions named by the properties' anchors.
"""
import os, sys, io, json, tempfile, builtins, collections, shutil, stat, types, functools
from . import core, cparse

_G = {}
mech = collections.Counter()

STUB_DIR = None


def setup():
    if _G:
        return _G
    os.environ['GI_SCANNER_DISABLE_CACHE'] = '1'
    os.environ.pop('GI_GIR_PATH', None)
    os.environ['XDG_DATA_DIRS'] = '/nonexistent-verif/share'
    os.environ['XDG_DATA_HOME'] = '/nonexistent-verif/home-share'
    cparse.install()
    builtins.__dict__['DATADIR'] = '/nonexistent-verif/share'
    builtins.__dict__['GIR_DIR'] = '/nonexistent-verif/share/gir-1.0'
    if core.REPO not in sys.path:
        sys.path.insert(0, core.REPO)
    from giscanner import ast, message, sourcescanner, transformer, maintransformer, introspectablepass
    from giscanner import annotationparser, girwriter, girparser, gdumpparser, utils, xmlwriter
    _G.update(ast=ast, message=message, sourcescanner=sourcescanner, transformer=transformer,
              maintransformer=maintransformer, introspectablepass=introspectablepass,
              annotationparser=annotationparser, girwriter=girwriter, girparser=girparser,
              gdumpparser=gdumpparser, utils=utils, xmlwriter=xmlwriter)
    _install_log_recorder()
    return _G


# ---- monitors --------------------------------------------------------------------------------------
_events = []


def _install_log_recorder():
    message = _G['message']
    orig = message.MessageLogger.log

    def log(self, log_type, text, positions=None, prefix=None, marker_pos=None, marker_line=None):
        pos = positions
        if isinstance(pos, set):
            pos = sorted(pos)
        elif isinstance(pos, message.Position):
            pos = [pos]
        _events.append({'type': log_type, 'text': str(text), 'prefix': prefix,
                        'positions': [(p.filename, p.line, p.column) for p in (pos or [])],
                        'marker_pos': marker_pos, 'marker_line': marker_line,
                        'count_before': self._warning_count})
        return orig(self, log_type, text, positions, prefix, marker_pos, marker_line)
    message.MessageLogger.log = log
    _G['orig_log'] = orig


def count_entries(modname, clsname, names):
    """wrap methods with counting decorators (idempotent)"""
    mod = _G[modname]
    cls = getattr(mod, clsname) if clsname else mod
    for n in names:
        f = cls.__dict__.get(n) if clsname else getattr(mod, n, None)
        if f is None or getattr(f, '_vt_counted', False):
            continue
        key = '%s.%s' % (clsname or modname, n)
        if isinstance(f, (staticmethod, classmethod)):
            continue

        def mk(f, key):
            @functools.wraps(f)
            def w(*a, **k):
                mech[key] += 1
                return f(*a, **k)
            w._vt_counted = True
            return w
        setattr(cls, n, mk(f, key))


# ---- stub dependency GIRs ---------------------------------------------------------------------------
GIR_HEAD = ('<?xml version="1.0"?>\n<repository version="1.2" xmlns="http://www.gtk.org/introspection/core/1.0" '
            'xmlns:c="http://www.gtk.org/introspection/c/1.0" xmlns:glib="http://www.gtk.org/introspection/glib/1.0">\n')

GLIB_STUB = GIR_HEAD + '''<package name="glib-2.0"/>
<c:include name="glib.h"/>
<namespace name="GLib" version="2.0" shared-library="libglib-2.0.so.0" c:identifier-prefixes="G" c:symbol-prefixes="g,glib">
<callback name="DestroyNotify" c:type="GDestroyNotify"><return-value transfer-ownership="none"><type name="none" c:type="void"/></return-value>
<parameters><parameter name="data" transfer-ownership="none" nullable="1" allow-none="1"><type name="gpointer" c:type="gpointer"/></parameter></parameters></callback>
<callback name="Func" c:type="GFunc"><return-value transfer-ownership="none"><type name="none" c:type="void"/></return-value>
<parameters><parameter name="data" transfer-ownership="none" nullable="1" allow-none="1"><type name="gpointer" c:type="gpointer"/></parameter>
<parameter name="user_data" transfer-ownership="none" nullable="1" allow-none="1" closure="1"><type name="gpointer" c:type="gpointer"/></parameter></parameters></callback>
<callback name="SourceFunc" c:type="GSourceFunc"><return-value transfer-ownership="none"><type name="gboolean" c:type="gboolean"/></return-value>
<parameters><parameter name="user_data" transfer-ownership="none" nullable="1" allow-none="1" closure="0"><type name="gpointer" c:type="gpointer"/></parameter></parameters></callback>
<callback name="CompareFunc" c:type="GCompareFunc"><return-value transfer-ownership="none"><type name="gint" c:type="gint"/></return-value>
<parameters><parameter name="a" transfer-ownership="none" nullable="1" allow-none="1"><type name="gpointer" c:type="gconstpointer"/></parameter>
<parameter name="b" transfer-ownership="none" nullable="1" allow-none="1"><type name="gpointer" c:type="gconstpointer"/></parameter></parameters></callback>
<record name="Error" c:type="GError" glib:type-name="GError" glib:get-type="g_error_get_type" c:symbol-prefix="error">
<field name="domain" writable="1"><type name="Quark" c:type="GQuark"/></field>
<field name="code" writable="1"><type name="gint" c:type="gint"/></field>
<field name="message" writable="1"><type name="utf8" c:type="gchar*"/></field></record>
<alias name="Quark" c:type="GQuark"><type name="guint32" c:type="guint32"/></alias>
<alias name="Pid" c:type="GPid"><type name="gint" c:type="int"/></alias>
<alias name="Strv" c:type="GStrv"><type name="utf8" c:type="gchar**"/></alias>
<record name="List" c:type="GList" disguised="1" opaque="1"/>
<record name="SList" c:type="GSList" disguised="1" opaque="1"/>
<record name="HashTable" c:type="GHashTable" disguised="1" opaque="1" glib:type-name="GHashTable" glib:get-type="g_hash_table_get_type" c:symbol-prefix="hash_table"/>
<record name="Array" c:type="GArray" glib:type-name="GArray" glib:get-type="g_array_get_type" c:symbol-prefix="array"/>
<record name="PtrArray" c:type="GPtrArray" glib:type-name="GPtrArray" glib:get-type="g_ptr_array_get_type" c:symbol-prefix="ptr_array"/>
<record name="ByteArray" c:type="GByteArray" glib:type-name="GByteArray" glib:get-type="g_byte_array_get_type" c:symbol-prefix="byte_array"/>
<record name="Bytes" c:type="GBytes" disguised="1" opaque="1" glib:type-name="GBytes" glib:get-type="g_bytes_get_type" c:symbol-prefix="bytes"/>
<record name="Variant" c:type="GVariant" disguised="1" opaque="1" glib:type-name="GVariant" glib:get-type="intern" c:symbol-prefix="variant"/>
<record name="VariantType" c:type="GVariantType" disguised="1" opaque="1" glib:type-name="GVariantType" glib:get-type="g_variant_type_get_gtype" c:symbol-prefix="variant_type"/>
<record name="MainLoop" c:type="GMainLoop" disguised="1" opaque="1" glib:type-name="GMainLoop" glib:get-type="g_main_loop_get_type" c:symbol-prefix="main_loop"/>
<record name="String" c:type="GString" glib:type-name="GString" glib:get-type="g_gstring_get_type" c:symbol-prefix="string">
<field name="str" writable="1"><type name="utf8" c:type="gchar*"/></field><field name="len" writable="1"><type name="gsize" c:type="gsize"/></field></record>
<enumeration name="SeekType" c:type="GSeekType"><member name="cur" value="0" c:identifier="G_SEEK_CUR"/><member name="set" value="1" c:identifier="G_SEEK_SET"/></enumeration>
<bitfield name="IOCondition" c:type="GIOCondition"><member name="in" value="1" c:identifier="G_IO_IN"/><member name="out" value="4" c:identifier="G_IO_OUT"/></bitfield>
</namespace></repository>
'''

GOBJECT_STUB = GIR_HEAD + '''<include name="GLib" version="2.0"/>
<package name="gobject-2.0"/>
<c:include name="glib-object.h"/>
<namespace name="GObject" version="2.0" shared-library="libgobject-2.0.so.0" c:identifier-prefixes="G" c:symbol-prefixes="g,gobject">
<alias name="Type" c:type="GType"><type name="gsize" c:type="gsize"/></alias>
<class name="Object" c:symbol-prefix="object" c:type="GObject" glib:type-name="GObject" glib:get-type="g_object_get_type" glib:type-struct="ObjectClass">
<field name="g_type_instance"><type name="TypeInstance" c:type="GTypeInstance"/></field>
<field name="ref_count" readable="0" private="1"><type name="guint" c:type="guint"/></field>
<field name="qdata" readable="0" private="1"><type name="gpointer" c:type="gpointer"/></field>
</class>
<record name="ObjectClass" c:type="GObjectClass" glib:is-gtype-struct-for="Object">
<field name="g_type_class"><type name="TypeClass" c:type="GTypeClass"/></field>
<field name="pdummy" readable="0" private="1"><array zero-terminated="0" fixed-size="15"><type name="gpointer" c:type="gpointer"/></array></field>
</record>
<class name="InitiallyUnowned" c:symbol-prefix="initially_unowned" c:type="GInitiallyUnowned" parent="Object" glib:type-name="GInitiallyUnowned" glib:get-type="g_initially_unowned_get_type" glib:type-struct="InitiallyUnownedClass">
<field name="g_type_instance"><type name="TypeInstance" c:type="GTypeInstance"/></field>
<field name="ref_count" readable="0" private="1"><type name="guint" c:type="guint"/></field>
<field name="qdata" readable="0" private="1"><type name="gpointer" c:type="gpointer"/></field>
</class>
<record name="InitiallyUnownedClass" c:type="GInitiallyUnownedClass" glib:is-gtype-struct-for="InitiallyUnowned">
<field name="g_type_class"><type name="TypeClass" c:type="GTypeClass"/></field>
<field name="pdummy" readable="0" private="1"><array zero-terminated="0" fixed-size="15"><type name="gpointer" c:type="gpointer"/></array></field>
</record>
<record name="TypeInstance" c:type="GTypeInstance"><field name="g_class" readable="0" private="1"><type name="TypeClass" c:type="GTypeClass*"/></field></record>
<record name="TypeClass" c:type="GTypeClass"><field name="g_type" readable="0" private="1"><type name="GType" c:type="GType"/></field></record>
<record name="TypeInterface" c:type="GTypeInterface"><field name="g_type" readable="0" private="1"><type name="GType" c:type="GType"/></field>
<field name="g_instance_type" readable="0" private="1"><type name="GType" c:type="GType"/></field></record>
<class name="ParamSpec" c:symbol-prefix="param_spec" c:type="GParamSpec" abstract="1" glib:type-name="GParam" glib:get-type="intern" glib:fundamental="1"
 glib:ref-func="g_param_spec_ref_sink" glib:unref-func="g_param_spec_unref" glib:set-value-func="g_value_set_param" glib:get-value-func="g_value_get_param"/>
<record name="Value" c:type="GValue" glib:type-name="GValue" glib:get-type="g_value_get_type" c:symbol-prefix="value">
<field name="g_type" readable="0" private="1"><type name="GType" c:type="GType"/></field>
<field name="data"><array zero-terminated="0" fixed-size="2"><type name="gint64" c:type="gint64"/></array></field></record>
<record name="Closure" c:type="GClosure" glib:type-name="GClosure" glib:get-type="g_closure_get_type" c:symbol-prefix="closure">
<field name="ref_count" readable="0" private="1" bits="15"><type name="guint" c:type="guint"/></field>
<field name="marshal"><type name="gpointer" c:type="gpointer"/></field><field name="data"><type name="gpointer" c:type="gpointer"/></field><field name="notifiers"><type name="gpointer" c:type="gpointer"/></field></record>
<callback name="Callback" c:type="GCallback"><return-value transfer-ownership="none"><type name="none" c:type="void"/></return-value></callback>
<bitfield name="ParamFlags" c:type="GParamFlags"><member name="readable" value="1" c:identifier="G_PARAM_READABLE"/><member name="writable" value="2" c:identifier="G_PARAM_WRITABLE"/></bitfield>
</namespace></repository>
'''

GIO_STUB = GIR_HEAD + '''<include name="GObject" version="2.0"/>
<package name="gio-2.0"/>
<c:include name="gio/gio.h"/>
<namespace name="Gio" version="2.0" shared-library="libgio-2.0.so.0" c:identifier-prefixes="G" c:symbol-prefixes="g">
<callback name="AsyncReadyCallback" c:type="GAsyncReadyCallback"><return-value transfer-ownership="none"><type name="none" c:type="void"/></return-value>
<parameters><parameter name="source_object" transfer-ownership="none" nullable="1" allow-none="1"><type name="GObject.Object" c:type="GObject*"/></parameter>
<parameter name="res" transfer-ownership="none"><type name="AsyncResult" c:type="GAsyncResult*"/></parameter>
<parameter name="data" transfer-ownership="none" nullable="1" allow-none="1" closure="2"><type name="gpointer" c:type="gpointer"/></parameter></parameters></callback>
<interface name="AsyncResult" c:symbol-prefix="async_result" c:type="GAsyncResult" glib:type-name="GAsyncResult" glib:get-type="g_async_result_get_type"/>
<class name="Cancellable" c:symbol-prefix="cancellable" c:type="GCancellable" parent="GObject.Object" glib:type-name="GCancellable" glib:get-type="g_cancellable_get_type">
<field name="parent_instance"><type name="GObject.Object" c:type="GObject"/></field></class>
<interface name="File" c:symbol-prefix="file" c:type="GFile" glib:type-name="GFile" glib:get-type="g_file_get_type"/>
<class name="Task" c:symbol-prefix="task" c:type="GTask" parent="GObject.Object" glib:type-name="GTask" glib:get-type="g_task_get_type"><implements name="AsyncResult"/></class>
</namespace></repository>
'''


def stub_dir():
    """writes the stub dependency GIRs once per process tree; returns the directory"""
    global STUB_DIR
    if STUB_DIR and os.path.isdir(STUB_DIR):
        return STUB_DIR
    fixed = os.environ.get('VT_STUB_DIR')
    if fixed:
        # a stable location shared by several processes (cache experiments need stable file names)
        os.makedirs(fixed, exist_ok=True)
        for name, text in (('GLib-2.0.gir', GLIB_STUB), ('GObject-2.0.gir', GOBJECT_STUB), ('Gio-2.0.gir', GIO_STUB)):
            pth = os.path.join(fixed, name)
            if not os.path.exists(pth):
                tmp = pth + '.%d.tmp' % os.getpid()
                with open(tmp, 'w') as f:
                    f.write(text)
                os.utime(tmp, (1000000000, 1000000000))
                os.replace(tmp, pth)
        STUB_DIR = fixed
        return fixed
    d = tempfile.mkdtemp(prefix='vt-stubgir-')
    for name, text in (('GLib-2.0.gir', GLIB_STUB), ('GObject-2.0.gir', GOBJECT_STUB), ('Gio-2.0.gir', GIO_STUB)):
        with open(os.path.join(d, name), 'w') as f:
            f.write(text)
    STUB_DIR = d
    import atexit
    pid = os.getpid()

    def rm():
        if os.getpid() == pid:
            shutil.rmtree(d, ignore_errors=True)
    atexit.register(rm)
    return d


# ---- the pipeline ----------------------------------------------------------------------------------
DUMP_SCRIPT = '''#!/bin/sh
# fake introspection binary: copies the prepared dump to the requested output file
for a in "$@"; do case "$a" in --introspect-dump=*) arg="${a#--introspect-dump=}";; esac; done
out="${arg#*,}"
cp "%s" "$out"
'''


class Result(dict):
    pass


def scan(case, want_ast=False):
    """case keys: namespace, version, identifier_prefixes (list|None), symbol_prefixes (list|None),
    includes ['GObject-2.0'], headers [(filename, text)], sources [(filename, text)] (comments only),
    dump (xml text|None), accept_unprefixed, warn_all (default True), strict, c_includes, packages,
    macros {name: replacement}  (object-like macros removed before parsing, emulating cpp),
    include_paths [dir...] (prepended to the stub directory)."""
    G = setup()
    ast, message = G['ast'], G['message']
    message.MessageLogger._instance = None
    del _events[:]
    out = io.StringIO()
    res = Result(gir=None, fatal=None, events=None, log=None, exception=None)
    tmp = None
    try:
        ns = ast.Namespace(case['namespace'], case.get('version', '1.0'),
                           identifier_prefixes=case.get('identifier_prefixes') or None,
                           symbol_prefixes=case.get('symbol_prefixes') or None)
        logger = message.MessageLogger.get(namespace=ns, output=out)
        logger.enable_warnings(case.get('warn_all', True))
        if case.get('strict'):
            logger.enable_strict(True)
        xf = G['transformer'].Transformer(ns, accept_unprefixed=bool(case.get('accept_unprefixed')),
                                          identifier_filter_cmd=case.get('identifier_filter_cmd'),
                                          symbol_filter_cmd=case.get('symbol_filter_cmd'))
        xf.set_include_paths(list(case.get('include_paths') or []) + [stub_dir()])
        for inc in case.get('includes') or []:
            xf.register_include(ast.Include.from_string(inc))
        ss = G['sourcescanner'].SourceScanner()
        raw = ss._scanner
        macros = case.get('macros') or {}
        for fn, text in case.get('headers') or []:
            raw.append_filename(fn)
        for fn, text in case.get('sources') or []:
            raw.append_filename(fn)
        for fn, text in case.get('sources') or []:
            raw._tokenize(text, fn, comments_only=True)
        for fn, text in case.get('headers') or []:
            t = text
            for k, v in macros.items():
                t = _replace_word(t, k, v)
            toks = raw._tokenize(t, fn)
            raw._parse_translation_unit(toks)
        raw.macro_scan = True
        for fn, text in case.get('headers') or []:
            raw._parse_macro_lines(text, fn)
        raw.macro_scan = False
        res['scan_errors'] = list(raw.errors)
        blocks = G['annotationparser'].GtkDocCommentBlockParser().parse_comment_blocks(ss.get_comments())
        xf.parse(ss.get_symbols())
        if case.get('dump') is not None:
            tmp = tempfile.mkdtemp(prefix='vt-dump-')
            dumpfile = os.path.join(tmp, "prepared-dump.xml")
            with open(dumpfile, 'w') as f:
                f.write(case['dump'])
            script = os.path.join(tmp, 'introspect.sh')
            with open(script, 'w') as f:
                f.write(DUMP_SCRIPT % dumpfile)
            os.chmod(script, 0o755)
            gd = G['gdumpparser'].GDumpParser(xf)
            gd.init_parse()
            res['get_type_functions'] = sorted(gd.get_get_type_functions())
            res['error_quark_functions'] = sorted(gd.get_error_quark_functions())
            gd.set_introspection_binary(G['gdumpparser'].IntrospectionBinary([script], tmp))
            gd.parse()
        ns.shared_libraries = case.get('shared_libraries') or []
        G['maintransformer'].MainTransformer(xf, blocks).transform()
        if 'after_transform' in case:
            case['after_transform'](xf, ns, res)
        G['introspectablepass'].IntrospectablePass(xf, blocks).validate()
        res['warning_count'] = logger.get_warning_count()
        ns.c_includes = case.get('c_includes') or []
        ns.exported_packages = case.get('packages') or []
        if case.get('doc_format'):
            ns.doc_format = case['doc_format']
        top = case.get('sources_top_dirs') or sorted(set(os.path.dirname(fn) for fn, _ in case.get('headers') or []))
        writer = G['girwriter'].GIRWriter(ns, top)
        res['gir'] = writer.get_encoded_xml().decode('utf-8')
        if want_ast:
            res['_ns'] = ns
            res['_xf'] = xf
            res['_blocks'] = blocks
    except SystemExit as e:
        res['fatal'] = str(e.code)
    except Exception as e:
        import traceback
        res['exception'] = '%s: %s' % (type(e).__name__, e)
        res['traceback'] = traceback.format_exc()[-4000:]
    finally:
        if tmp:
            shutil.rmtree(tmp, ignore_errors=True)
    res['events'] = list(_events)
    res['log'] = out.getvalue()
    return res


def _replace_word(text, word, repl):
    import re
    return re.sub(r'\b%s\b' % re.escape(word), repl, text)
