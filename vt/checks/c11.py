"""C11 - comment parsing never aborts, and its diagnostics point at the source.

Events : exceptions escaping parse_comment_block / parse_comment_blocks; every MessageLogger.log call recorded before the
         suppression test (type, position, marker_pos, marker_line); blocks returned for a batch; get_warning_count();
         what reached the log output; exit status of scanner_main under --warn-error.
Oracle : (1) nothing propagates; an exception inside parse_comment_block (converted by the catch-all) is a violation;
         (2) good blocks around a hostile one come back equal to their models; (3) a part whose annotation field was
         rejected carries no annotations; (4) file name, line range, quoted line and caret of every diagnostic;
         (5) every diagnostic is counted, suppressed or not, and --warn-error fails exactly when one was recorded.
"""
import os, sys, io, re, glob, collections, tempfile, shutil
import xml.etree.ElementTree as ET
from .. import core, docgen

_st = {}
_DEPRECATED_LINE_RE = re.compile(r'^[^A-Za-z0-9]*(attributes|get\s+value\s+func|ref\s+func|rename\s+to|set\s+value\s+func|transfer|type|'
                                 r'unref\s+func|value|virtual)\s*:', re.I)


class DEPRECATED_TAG_RE:
    """does any line (split at LINE_BREAK_RE as the parser does) start - after any run of non-alphanumerics, so
    whatever the parser makes of the ' * ' prefix - with a deprecated tag-style annotation?"""
    @staticmethod
    def search(text):
        return any(_DEPRECATED_LINE_RE.match(l) for l in re.split(r'\r\n|\r|\n', text))


def setup_subject():
    if _st:
        return _st
    from .. import scan
    G = scan.setup()
    ap = G['annotationparser']
    raised = []
    orig = ap.GtkDocCommentBlockParser.parse_comment_block

    def watched(self, comment, filename, lineno):
        try:
            return orig(self, comment, filename, lineno)
        except Exception as e:
            import traceback
            tb = traceback.extract_tb(e.__traceback__)
            raised.append((type(e).__name__, tb[-1].name if tb else '?', str(e)[:200]))
            raise
    ap.GtkDocCommentBlockParser.parse_comment_block = watched
    scan.count_entries('annotationparser', 'GtkDocCommentBlockParser', ['parse_comment_blocks', '_parse_annotations'])
    scan.count_entries('annotationparser', 'GtkDocAnnotatable', ['validate'])
    _st.update(scan=scan, G=G, ap=ap, message=G['message'], raised=raised, upstream=None)
    return _st


def upstream_inputs():
    st = setup_subject()
    if st['upstream'] is None:
        base = os.path.join(core.REPO, 'tests', 'scanner', 'annotationparser')
        nsuri = '{http://schemas.gnome.org/gobject-introspection/2013/test}'
        out = []
        for f in sorted(glob.glob(os.path.join(base, '**', '*.xml'), recursive=True)):
            try:
                root = ET.parse(f).getroot()
            except ET.ParseError:
                continue
            for t in root.findall(nsuri + 'test'):
                inp = t.find(nsuri + 'input')
                if inp is not None and inp.text:
                    out.append(inp.text)
        st['upstream'] = out
    return st['upstream']


META = ['(', ')', ':', '@', '*', '/', ' ', '\t', '\n', '\r\n', '=', '<', '>', '((', '))', '()', '(:', ':)', '::', '...',
        'Returns:', 'Since:', 'Attributes:', 'Rename to:', 'SECTION:', '|', '.', '**', '*/', '/**', 'é', '中', '\x0c', '\x0b', '\x00',
        '(skip)', '(array length=', '(transfer', '(nullable) (', '@x:', 'foo_bar:', '  ', '\\', '"', '%', '\x7f', '​', '퟿']


def mutate(rng, text):
    lines = text.split('\n')
    k = rng.choice(['del', 'dup', 'swap', 'paren', 'colon', 'trunc', 'splice', 'ctrl', 'indent', 'join', 'none', 'meta'])
    if k == 'del' and len(lines) > 2:
        del lines[rng.randrange(1, len(lines) - 1)]
    elif k == 'dup' and len(lines) > 2:
        i = rng.randrange(1, len(lines) - 1)
        lines.insert(i, lines[i])
    elif k == 'swap' and len(lines) > 3:
        i = rng.randrange(1, len(lines) - 2)
        lines[i], lines[i + 1] = lines[i + 1], lines[i]
    elif k == 'join' and len(lines) > 2:
        i = rng.randrange(0, len(lines) - 1)
        lines[i:i + 2] = [lines[i] + ' ' + lines[i + 1].lstrip(' *')]
    elif k == 'indent' and len(lines) > 2:
        i = rng.randrange(1, len(lines) - 1)
        lines[i] = lines[i].replace('* ', '*' + ' ' * rng.randrange(2, 6), 1)
    text = '\n'.join(lines)
    if k in ('paren', 'colon', 'splice', 'ctrl', 'meta'):
        for _ in range(rng.choice([1, 1, 2, 4])):
            pos = rng.randrange(0, len(text) + 1)
            ins = {'paren': rng.choice(['(', ')', '((', '))', '()']), 'colon': rng.choice([':', '::', ' :', ': ']),
                   'splice': rng.choice(META), 'ctrl': rng.choice(['\x0c', '\x0b', '\x00', '\x1b', '\x85', ' ', '\r']),
                   'meta': rng.choice(META)}[k]
            if rng.random() < 0.3 and pos < len(text):
                text = text[:pos] + ins + text[pos + 1:]
            else:
                text = text[:pos] + ins + text[pos:]
    elif k == 'trunc':
        text = text[:rng.randrange(0, len(text) + 1)]
        if rng.random() < 0.7:
            text += rng.choice(['*/', ' */', '\n */', '**/'])
    return text


def random_text(rng):
    n = rng.choice([0, 1, 3, 10, 40])
    body = ''.join(rng.choice(META + ['foo', 'bar_baz', 'x', '1.0', 'Foo']) for _ in range(n))
    return rng.choice(['/**', '/** ', '/**\n', '/**\n * ', '/*', '', '/***']) + body + rng.choice(['*/', '\n */', ' */', '', '**/', '\n*/'])


def check_events(text, filename, lineno, events, res, tag):
    """oracle (4)"""
    src_lines = re.split(r'\r\n|\r|\n', text)
    nlines = len(src_lines)
    first_alone = src_lines[0].strip() == '/**'
    last_alone = re.match(r'^\s*\*+/\s*$', src_lines[-1]) is not None
    deprecated = bool(DEPRECATED_TAG_RE.search(text))
    for e in events:
        res['hits']['event'] += 1
        pos = e['positions']
        if not pos:
            res['viol'].append(('diagnostic-without-position', 'diagnostic %r has no position' % e['text'], text))
            continue
        for (fn, line, col) in pos:
            if fn != filename:
                res['viol'].append(('diagnostic-filename', 'diagnostic %r names file %r, expected %r' % (e['text'], fn, filename), text))
            if first_alone and (line is None or not (lineno <= line <= lineno + nlines - 1)):
                res['viol'].append(('diagnostic-line-range', 'diagnostic %r at line %r, block spans %d..%d' % (
                    e['text'], line, lineno, lineno + nlines - 1), text))
        if e['marker_line'] is None:
            continue
        res['hits']['marker'] += 1
        ml, mp = e['marker_line'], e['marker_pos']
        if not first_alone or deprecated:
            res['hits']['marker_out_of_scope'] += 1
            continue
        line = pos[-1][1]
        actual = src_lines[line - lineno] if lineno <= line <= lineno + nlines - 1 else None
        if actual is not None and not last_alone and line == lineno + nlines - 1:
            # the end token shares the last line with text: the parser quotes the line without the token
            m2 = re.match(r'^\s*(.*?)\s*\*+/.*$', actual)
            if m2 and ml == m2.group(1):
                res['hits']['marker_ok'] += 1
                continue
        if actual != ml:
            res['viol'].append(('marker-line', 'diagnostic %r at line %d quotes %r but that source line is %r' % (
                e['text'], line, ml, actual), text))
        elif mp is None or not (0 <= mp <= len(ml)):
            res['viol'].append(('marker-pos', 'diagnostic %r: caret at %r outside quoted line of length %d' % (e['text'], mp, len(ml)), text))
        else:
            res['hits']['marker_ok'] += 1
        # unique-token rule: a quoted @name that occurs on exactly one source line must be on the reported line
        m = re.search(r'"@([\w.-]+)"', e['text'])
        if m:
            tok = '@' + m.group(1)
            where = [i for i, l in enumerate(src_lines) if tok in l]
            if len(where) == 1 and lineno + where[0] != line:
                res['viol'].append(('token-line', 'diagnostic %r reported at line %d, but %s stands on line %d' % (
                    e['text'], line, tok, lineno + where[0]), text))
            res['hits']['token_line'] += 1


def parse_batch(st, comments, enable):
    """runs the real parse_comment_blocks on [(text, file, line)] -> (blocks dict, events, count, output, raised)"""
    from .. import scan
    st['message'].MessageLogger._instance = None
    out = io.StringIO()
    logger = st['message'].MessageLogger.get(namespace=None, output=out)
    logger.enable_warnings(enable)
    del scan._events[:]
    del st['raised'][:]
    blocks = st['ap'].GtkDocCommentBlockParser().parse_comment_blocks(comments)
    return blocks, list(scan._events), logger.get_warning_count(), out.getvalue(), list(st['raised'])


def run_case(case):
    seed, idx = case
    st = setup_subject()
    from .. import scan
    rng = core.rng_for(seed, 'c11', idx)
    res = {'classes': [], 'hits': collections.Counter(), 'viol': []}
    m0 = dict(scan.mech)
    mode = rng.choice(['mutate', 'mutate', 'mutate', 'upstream', 'random', 'reject', 'sweep'])
    filename = '/src/dir/foo-%d.c' % idx
    good = []
    for gi in range(2):
        m = docgen.gen_block(rng, strict=True)
        m['name'] = m['name'].replace('foo_', 'good%d_' % gi, 1) if m['kind'] == 'symbol' else m['name'] + ('Good%d' % gi if m['kind'] == 'type' else '')
        if m['kind'] not in ('symbol', 'type'):
            m = docgen.gen_block(rng, strict=True)
            m['kind'], m['name'] = 'symbol', 'good%d_fn_%d' % (gi, idx)
            m['annotations'] = collections.OrderedDict()
        text, _ = docgen.render_block(rng, m, docgen.gen_layout(rng))
        good.append((m, text))
    hostile = []
    expect_reject = None
    if mode == 'reject':
        # fault planted in exactly one parameter's annotation field
        m = docgen.gen_block(rng, strict=True)
        m['kind'], m['name'], m['annotations'] = 'symbol', 'hostile_fn', collections.OrderedDict()
        while len(m['params']) < 2:
            m['params'].append({'name': 'p%d' % len(m['params']), 'annotations': collections.OrderedDict([('nullable', [])]), 'description': ['text']})
        names = [p['name'] for p in m['params']]
        if len(set(names)) == len(names):
            victim = rng.choice(m['params'])
            victim['annotations'] = collections.OrderedDict([('transfer', ['full']), ('nullable', [])])
            text, info = docgen.render_block(rng, m, {'split_anns': False})
            lines = text.split('\n')
            li = 1 + info['params'][victim['name']]
            if rng.random() < 0.4 and '\n' not in lines[li]:
                # the fault sits on a continuation line of the annotations, after a well-formed one: the first line's
                # annotations stay, nothing of the faulty line may be applied
                lines[li] = ' * @%s: (transfer full)' % victim['name']
                lines.insert(li + 1, ' *   %s %s' % (rng.choice(['(nullable)', '(allow-none)', '(out)']), rng.choice(['(out', '()', '((optional))', '(inout))'])))
                text = '\n'.join(lines)
                expect_reject = (victim['name'], li + 1, [p['name'] for p in m['params'] if p is not victim], {'transfer': ['full']})
            else:
                fault = rng.choice(['((', '(()', ')', '(transfer full', '(nullable))'])
                lines[li] = lines[li].replace('(transfer full)', fault if fault != ')' else '(transfer full))', 1)
                text = '\n'.join(lines)
                expect_reject = (victim['name'], li, [p['name'] for p in m['params'] if p is not victim], {})
            hostile.append(text)
    if mode == 'sweep':
        m = docgen.gen_block(rng, strict=True)
        text, info = docgen.render_block(rng, m, {})
        lines = text.split('\n')
        for li in range(1, len(lines) - 1):
            l2 = list(lines)
            l2[li] = l2[li] + ' @sweep%d: ((' % li if rng.random() < 0.5 else ' * @sweep%d: (( x' % li
            hostile.append('\n'.join(l2))
        hostile = hostile[:6]
    elif mode == 'mutate':
        m = docgen.gen_block(rng, strict=rng.random() < 0.5)
        text, _ = docgen.render_block(rng, m, docgen.gen_layout(rng))
        for _ in range(rng.choice([1, 2, 3])):
            text = mutate(rng, text)
        hostile.append(text)
    elif mode == 'upstream':
        ups = upstream_inputs()
        text = rng.choice(ups)
        if rng.random() < 0.7:
            text = mutate(rng, text)
        hostile.append(text)
    elif mode == 'random':
        hostile.append(random_text(rng))
    for h in hostile:
        comments = [(good[0][1], filename, 5), (h, filename, 200), (good[1][1], filename, 900)]
        enable = rng.random() < 0.5
        try:
            blocks, events, count, output, raised = parse_batch(st, comments, enable)
        except BaseException as e:
            res['viol'].append(('escape:' + type(e).__name__, 'parse_comment_blocks let %r escape' % (e,), h))
            continue
        res['hits']['batch'] += 1
        for (etype, fn, msg) in raised:
            res['viol'].append(('parser-raised:%s:%s' % (etype, fn), 'parse_comment_block raised %s in %s: %s' % (etype, fn, msg), h))
        # (2) no loss
        for (m, text) in good:
            b = blocks.get(m['name'])
            res['hits']['good_checked'] += 1
            if b is None:
                # the hostile block may legitimately document the same identifier (last wins): only then excuse
                res['viol'].append(('good-block-lost', 'block %r missing from the batch result' % m['name'], h))
                continue
            if b.position.line not in (5, 900):
                continue    # the hostile text re-documented this identifier (last one wins by design)
            from .c10 import diff
            d = diff(docgen.neutral_from_model(m), docgen.neutral_from_parsed(b))
            if d:
                res['viol'].append(('good-block-damaged', 'neighbour block changed: ' + d, h))
        # (5) counting
        res['hits']['count_checked'] += 1
        if count != len(events):
            res['viol'].append(('count-mismatch', '%d diagnostics recorded, get_warning_count() = %d (warnings %s)' % (
                len(events), count, 'enabled' if enable else 'suppressed'), h))
        if not enable and output and all(e['type'] != 2 for e in events):
            res['viol'].append(('output-while-suppressed', 'log output written although warnings are disabled: %r' % output[:200], h))
        if enable and events and not output:
            res['viol'].append(('no-output', 'diagnostics recorded but nothing written', h))
        # (4) positions, for the diagnostics of the hostile block only
        hev = [e for e in events if any(200 <= (p[1] or 0) < 900 for p in e['positions']) or not e['positions']]
        gev = [e for e in events if e not in hev]
        if gev:
            res['viol'].append(('diagnostic-on-good-block', 'diagnostic %r attributed to a well-formed neighbour block' % gev[0]['text'], h))
        check_events(h, filename, 200, hev, res, mode)
        # (3) no half-application
        if expect_reject:
            vname, li, others, kept = expect_reject
            b = blocks.get('hostile_fn')
            ign = [e for e in hev if 'will be ignored' in e['text']]
            res['hits']['reject_checked'] += 1
            if not ign:
                res['viol'].append(('reject-silent', 'malformed annotation field produced no "ignored" diagnostic', h))
            elif ign[0]['positions'][-1][1] != 200 + li:
                res['viol'].append(('reject-line', '"ignored" diagnostic at line %r, fault is on line %d' % (ign[0]['positions'][-1][1], 200 + li), h))
            if b is not None and vname in b.params and {k: list(v) if isinstance(v, list) else v for k, v in b.params[vname].annotations.items()} != kept:
                res['viol'].append(('half-applied', 'parameter @%s has annotations %r after a rejected field, expected %r' % (vname, dict(b.params[vname].annotations), kept), h))
            res['hits']['reject_checked:continuation' if kept else 'reject_checked:same-line'] += 1
            if b is not None:
                for o in others:
                    if o not in b.params:
                        res['viol'].append(('reject-collateral', 'parameter @%s lost because of a fault in @%s' % (o, vname), h))
        kinds = sorted(set(e['text'].split(':')[0][:40].split('"')[0].strip() for e in hev))
        res['classes'].append('%s|enable=%d|n=%d|%s' % (mode, enable, min(len(hev), 3), ';'.join(kinds)[:80]))
        if idx < 3:
            res['sample'] = {'hostile': h[:500], 'diagnostics': [e['text'] for e in hev][:5]}
    res['mech'] = {k: v - m0.get(k, 0) for k, v in scan.mech.items() if v - m0.get(k, 0)}
    res['hits'] = dict(res['hits'])
    return res


# ---- the CLI path: --warn-error fails the run exactly when something was diagnosed --------------------
def cli_case(case):
    seed, idx, tmpdir = case
    st = setup_subject()
    from .. import scan
    G = st['G']
    rng = core.rng_for(seed, 'c11cli', idx)
    clean = rng.random() < 0.4
    m = docgen.gen_block(rng, strict=True)
    m['kind'], m['name'], m['annotations'], m['params'], m['tags'] = 'symbol', 'foo_do_it', collections.OrderedDict(), [], []
    text, _ = docgen.render_block(rng, m, {})
    if not clean:
        body = mutate(rng, text[3:-2])
        body = body.replace('*/', '* /').replace('/*', '/ *')
        if body.endswith('/'):
            body += ' '
        text = '/**' + body + '*/'
        if text.startswith('/***') or text.startswith('/**/'):
            text = '/** ' + text[3:]
    d = tempfile.mkdtemp(dir=tmpdir)
    try:
        hdr = os.path.join(d, 'foo.h')
        with open(hdr, 'w', encoding='utf-8', errors='surrogateescape') as f:
            f.write(text.replace('\x00', '') + '\nvoid foo_do_it (void);\n')
        out = os.path.join(d, 'Foo-1.0.gir')
        from giscanner import scannermain, sourcescanner

        def _parse(self, filenames):
            for fn in filenames:
                self._scanner.parse_file(fn)
        sourcescanner.SourceScanner._parse = _parse
        G['message'].MessageLogger._instance = None
        del scan._events[:]
        code = None
        err = io.StringIO()
        old = sys.stderr, sys.stdout
        sys.stderr, sys.stdout = err, io.StringIO()
        try:
            try:
                code = scannermain.scanner_main(['g-ir-scanner', '--namespace=Foo', '--nsversion=1.0', '--header-only',
                                                 '--warn-error', '--quiet', '--output=' + out] + (['--warn-all'] if rng.random() < 0.5 else []) + [hdr])
            except SystemExit as e:
                code = e.code if e.code is not None else 0
        finally:
            sys.stderr, sys.stdout = old
        nonfatal = [e for e in scan._events if e['text'] != 'warnings configured as fatal']
        failed = code not in (0, None)
        return {'failed': failed, 'n': len(nonfatal), 'texts': [e['text'] for e in nonfatal][:3], 'text': text, 'clean': clean,
                'wrote': os.path.exists(out)}
    finally:
        shutil.rmtree(d, ignore_errors=True)


def run(args):
    chk = core.Check('C11', args.tier, args.seed,
                     'hostile comment text (mutations of rendered block models and of upstream test inputs: deleted/duplicated/'
                     'transposed/joined lines, injected parentheses, colons, control bytes, truncation; random metacharacter '
                     'strings; a fault planted in one parameter; the same fault swept over every line) parsed between two '
                     'well-formed neighbour blocks; class = (workload, warnings enabled, #diagnostics, diagnostic kinds); '
                     'non-trivial = batch parsed and judged')
    st = setup_subject()
    n = int((6000 if args.tier == 'quick' else 400000) * args.scale)
    ncli = int((150 if args.tier == 'quick' else 4000) * args.scale)
    cases = [(args.seed, i) for i in range(n)]
    cases = core.replay_cases(args, cases)
    if args.replay and core.REPLAY.get('key') == 'warn-error-mismatch':
        cases = []
    B = 50
    batches = [cases[k:k + B] for k in range(0, len(cases), B)]
    hf = 0
    for _, b, results in core.forkmap(lambda bb: [run_case(c) for c in bb], batches, isolated=False):
        if isinstance(results, dict):
            hf += 1
            chk.extra.setdefault('harness_errors', []).append(str(results)[:500])
            continue
        for c, r in zip(b, results):
            chk.evaluations += 1
            chk.merge_counts(r)
            for key, what, text in r.get('viol', []):
                chk.violation(key, what, {'case': c, 'text': text})
            if 'sample' in r:
                chk.sample(r['sample'])
    tmpdir = tempfile.mkdtemp(prefix='vt-c11-')
    try:
        ccases = [(args.seed, i, tmpdir) for i in range(ncli)]
        if args.replay:
            ccases = [(args.seed, args.replay_case[1], tmpdir)] if core.REPLAY.get('key') == 'warn-error-mismatch' else []
        for _, c, r in core.forkmap(cli_case, ccases, isolated=True, timeout=60):
            chk.evaluations += 1
            if core.is_harness_failure(r) or '_exception' in r:
                hf += 1
                chk.extra.setdefault('harness_errors', []).append(str(r)[:800])
                continue
            chk.monitor_hits['cli_runs'] += 1
            chk.monitor_hits['cli_runs_with_diagnostics'] += 1 if r['n'] else 0
            chk.cls('cli|diag=%d|failed=%d' % (min(r['n'], 2), r['failed']))
            if r['failed'] != (r['n'] > 0):
                chk.violation('warn-error-mismatch', '--warn-error run %s although %d diagnostics were recorded %r' % (
                    'failed' if r['failed'] else 'succeeded', r['n'], r['texts']), {'case': c[:2], 'text': r['text']})
    finally:
        shutil.rmtree(tmpdir, ignore_errors=True)
    chk.extra['harness_failures'] = hf
    chk.require(chk.monitor_hits['event'] > 0 and chk.monitor_hits['marker_ok'] > 0, 'no diagnostics observed')
    chk.require(chk.monitor_hits['reject_checked'] > 0, 'no rejected-annotation case')
    chk.require(chk.monitor_hits['cli_runs_with_diagnostics'] > 0 and chk.monitor_hits['cli_runs'] > chk.monitor_hits['cli_runs_with_diagnostics'],
                'CLI path: need runs with and without diagnostics')
    chk.require(chk.mechanism_entries['GtkDocCommentBlockParser.parse_comment_blocks'] > 0, 'parse_comment_blocks never entered')
    chk.require(hf <= max(2, chk.evaluations // 200), 'harness failures %d' % hf)
    chk.assumptions = ['caret/quoted-line assertions only for blocks whose "/**" stands alone and that contain no deprecated tag-style annotations (as the statement scopes it)',
                       'CLI path runs scanner_main with the stand-in C front end (no preprocessor)']
    return chk.finish()
