"""C13 - enumeration members and constants keep correct names, types and values.

Events : <enumeration>/<bitfield>/<member>/<constant> elements of the GIR emitted by the real pipeline
         (stand-in C front end -> Transformer -> MainTransformer -> IntrospectablePass -> GIRWriter) for generated headers.
Oracle : reference computed from the generated *model* (never from the code): member order/identifier/value, whole-word
         common prefix, bitfield-ness; constant name/type/value-in-range.  The same rule is attached as an icontract
         postcondition to Transformer._enum_common_prefix so every call is judged.
"""
import sys, os, collections
from .. import core, girx, ctable

WORDS = ['A', 'B', 'AB', 'AC', 'NONE', 'ALL', 'READ', 'WRITE', 'ONLY', 'X1', 'X2', '1', '2', '10', 'FIRST', 'LAST', 'ITEM',
         'MODE', 'TYPE', 'LEFT', 'RIGHT', 'UP', 'DOWN', 'ABC', 'ABD', 'Z']
CAMEL = ['Bar', 'Mode', 'Type', 'Flags', 'Kind', 'State', 'Io', 'Text', 'Direction', 'X']


def upper_us(camel_words):
    return '_'.join(w.upper() for w in camel_words)


def word_prefix_related(a, b):
    aw, bw = a.split('_'), b.split('_')
    n = min(len(aw), len(bw))
    return aw[:n] == bw[:n]


def ref_common_prefix(names):
    """whole-word common prefix incl. trailing '_' ; None if fewer than two members or no shared word"""
    if len(names) < 2:
        return None
    words = [n.split('_') for n in names]
    common = []
    for i in range(min(len(w) for w in words)):
        ws = set(w[i] for w in words)
        if len(ws) != 1:
            break
        common.append(words[0][i])
    if not common:
        return None
    return '_'.join(common) + '_'


def gen_enum(rng, used_types, used_members, idx):
    while True:
        tw = [rng.choice(CAMEL) for _ in range(rng.choice([1, 1, 2, 2, 3]))]
        ctype = 'Foo' + ''.join(tw)
        if ctype not in used_types:
            used_types.add(ctype)
            break
    style = rng.choice(['full', 'full', 'ns-only', 'extra', 'partial'])
    base = 'FOO_' + upper_us(tw) + '_'
    if style == 'ns-only':
        base = 'FOO_'
    elif style == 'extra':
        base += rng.choice(WORDS) + '_'
    n = rng.choice([1, 2, 2, 3, 4, 5, 8, 16, 40])
    tails = []
    tries = 0
    while len(tails) < n and tries < 400:
        tries += 1
        k = rng.choice([1, 1, 1, 2, 2, 3])
        t = '_'.join(rng.choice(WORDS) for _ in range(k))
        if style == 'partial' and rng.random() < 0.7:
            t = rng.choice(['AB', 'AC', 'ABC', 'ABD']) + rng.choice(['', 'X', 'Y', '_Q', '1'])
        if t[0].isdigit() and style == 'ns-only':
            continue
        if any(word_prefix_related(t, o) for o in tails):
            continue
        if (base + t) in used_members:
            continue
        tails.append(t)
    for t in tails:
        used_members.add(base + t)
    flags_marker = rng.random() < 0.15
    valstyle = rng.choice(['implicit', 'explicit', 'mixed', 'shift', 'neg', 'big', 'ref'])
    members = []
    last = -1
    uses_shift = False
    priv_from = rng.randrange(1, len(tails) + 1) if (rng.random() < 0.25 and len(tails) > 2) else None
    priv_to = rng.randrange(priv_from, len(tails) + 1) if (priv_from is not None and rng.random() < 0.6) else len(tails)
    for i, t in enumerate(tails):
        name = base + t
        expr = None
        if valstyle == 'implicit' or (valstyle == 'mixed' and rng.random() < 0.5):
            val = last + 1
        elif valstyle == 'shift':
            sh = rng.choice([0, 1, 2, 3, 7, 15, 30, 31]) if i else 0
            if rng.random() < 0.2 and members:
                o = rng.choice(members)
                val = (1 << sh) | o['value']
                expr = '(1 << %d) | %s' % (sh, o['name'])
            else:
                val = 1 << sh
                expr = '1 << %d' % sh
            uses_shift = True
        elif valstyle == 'neg':
            val = rng.choice([-1, -2, -128, -32768, -2147483648, 5, 0, 127, -2147483647])
            expr = ('(%d)' % val) if rng.random() < 0.3 else str(val)
        elif valstyle == 'big':
            val = rng.choice([2147483647, 2147483648, 4294967295, 4294967296, 1 << 33, (1 << 63) - 1, -(1 << 62), 65535, 65536, 255, 256])
            expr = rng.choice(['%d', '0x%x']) % val if val >= 0 else str(val)
        elif valstyle == 'ref' and members:
            o = rng.choice(members)
            k = rng.choice([1, 2, 10])
            val = o['value'] + k
            expr = '%s + %d' % (o['name'], k)
        else:
            val = rng.choice([0, 1, 2, 3, 10, 100, 0x10, 0o17, 255, 1000])
            expr = rng.choice(['%d', '0x%x', '0%o']) % val if val else '0'
        last = val
        members.append({'name': name, 'expr': expr, 'value': val, 'private': priv_from is not None and priv_from <= i < priv_to})
    tagstyle = rng.choice(['anon', 'anon', '_tag', 'same'])
    return {'ctype': ctype, 'members': members, 'flags_marker': flags_marker, 'uses_shift': uses_shift, 'tag': tagstyle,
            'style': style, 'valstyle': valstyle}


def render_enum(e):
    tag = {'anon': '', '_tag': ' _' + e['ctype'], 'same': ' ' + e['ctype']}[e['tag']]
    lines = ['typedef enum%s%s {' % (tag, ' /*< flags >*/' if e['flags_marker'] else '')]
    was_private = False
    for i, m in enumerate(e['members']):
        if m['private'] and not was_private:
            lines.append('  /*< private >*/')
            was_private = True
        elif not m['private'] and was_private:
            lines.append('  /*< public >*/')
            was_private = False
        v = (' = ' + m['expr']) if m['expr'] is not None else ''
        lines.append('  %s%s%s' % (m['name'], v, ',' if i + 1 < len(e['members']) else ''))
    lines.append('} %s;' % e['ctype'])
    return lines


INT_CASTS = ['gint8', 'guint8', 'gint16', 'guint16', 'gint32', 'guint32', 'gint64', 'guint64', 'guchar', 'gushort', 'guint',
             'gulong', 'gsize', 'gshort', 'gint', 'glong', 'gssize', 'gunichar2', 'goffset', 'gchar', 'uint8_t', 'uint16_t',
             'uint32_t', 'uint64_t', 'int8_t', 'int32_t', 'guintptr', 'gintptr']


def gen_const(rng, used, aliases, idx):
    while True:
        cname = 'FOO_' + '_'.join(rng.choice(WORDS) for _ in range(rng.choice([1, 2, 3])))
        if cname[4].isdigit():
            continue
        if cname not in used:
            used.add(cname)
            break
    kind = rng.choice(['int', 'int', 'cast', 'cast', 'cast', 'cast', 'str', 'bool', 'double', 'shift', 'g64', 'alias'])
    c = {'cname': cname, 'kind': kind}
    if kind == 'int':
        v = rng.choice([0, 1, 42, 255, 256, 65535, 65536, 2147483647, -1, -2147483648, 7, 1000])
        c.update(text=rng.choice(['%d', '(%d)']) % v if v < 0 or rng.random() < 0.5 else rng.choice(['0x%x', '%d']) % v,
                 gi='gint', written=v, bits=32, signed=True)
    elif kind in ('cast', 'alias'):
        cast = rng.choice(INT_CASTS)
        gi, k, bits, signed = ctable.BASIC[cast]
        if bits is None:
            bits = 32
        edge = rng.choice([0, 1, (1 << bits) - 1, 1 << bits, (1 << bits) + 1, (1 << (bits - 1)) - 1, 1 << (bits - 1), 300, 70000,
                           (1 << 32) + 5, -1, -2, 200])
        if signed:
            lo, hi = -(1 << (bits - 1)), (1 << (bits - 1)) - 1
            edge = max(lo, min(hi, edge))
        else:
            edge = max(-(1 << 62), min((1 << 63) - 1, edge))
        sp = cast
        giname = gi
        if kind == 'alias':
            an = 'Foo' + rng.choice(['Byte', 'Word', 'Id', 'Handle', 'Count']) + cast.capitalize().replace('_', '')
            aliases[an] = cast
            sp = an
            giname = an[3:]
        txt = '%d' % edge if edge >= 0 else '-%d' % -edge
        if edge >= 0 and rng.random() < 0.3:
            txt = '0x%x' % edge
        c.update(text='((%s) %s)' % (sp, txt), gi=giname, written=edge, bits=bits, signed=signed, cast=cast)
    elif kind == 'shift':
        sh = rng.choice([0, 1, 4, 15, 30])
        c.update(text='(1 << %d)' % sh, gi='gint', written=1 << sh, bits=32, signed=True)
    elif kind == 'g64':
        if rng.random() < 0.5:
            v = rng.choice([0, 1, (1 << 63) - 1, 1 << 40, -5])
            c.update(text='G_GINT64_CONSTANT(%d)' % v if v >= 0 else '(-G_GINT64_CONSTANT(%d))' % -v, gi='gint64', written=v, bits=64, signed=True)
            if v < 0:
                c['kind'] = 'g64neg'
        else:
            v = rng.choice([0, 1, (1 << 64) - 1, 1 << 63, 1 << 40])
            c.update(text='G_GUINT64_CONSTANT(%d)' % v, gi='guint64', written=v, bits=64, signed=False)
    elif kind == 'str':
        parts = []
        for _ in range(rng.choice([0, 1, 2, 5])):
            parts.append(rng.choice(['a', 'Z', ' ', 'hello', '\\n', '\\t', '\\"', '\\\\', '<', '>', '&', "'", 'é', '中', '%s', '\\x41',
                                     '\\101', '/', '*', '  ']))
        body = ''.join(parts)
        val = body
        for a, b in (('\\n', '\n'), ('\\t', '\t'), ('\\"', '"'), ('\\x41', 'A'), ('\\101', 'A'), ('\\\\', '\\')):
            val = val.replace(a, b)
        if '\\\\' in body:   # replacing in sequence is ambiguous with backslashes: keep those cases simple
            body = body.replace('\\\\', 'B').replace('\\n', 'n').replace('\\t', 't').replace('\\"', 'q').replace('\\x41', 'x').replace('\\101', 'o')
            val = body
        c.update(text='"%s"' % body, gi='utf8', strval=val)
    elif kind == 'bool':
        t = rng.choice(['TRUE', 'FALSE', 'true', 'false'])
        c.update(text=t, gi='gboolean', boolval=t.lower())
    else:
        v = rng.choice(['0.5', '3.14', '100.0', '2.5', '0.000001', '1234567.875', '1.0'])
        c.update(text=v, gi='gdouble', dblval=float(v))
    return c


def gen_library(seed, idx):
    rng = core.rng_for(seed, 'c13', idx)
    used_types, used_members, used_consts, aliases = set(), set(), set(), {}
    enums = [gen_enum(rng, used_types, used_members, i) for i in range(rng.choice([2, 4, 6]))]
    consts = []
    for i in range(rng.choice([4, 8, 14])):
        c = gen_const(rng, used_consts | used_members, aliases, i)
        used_consts.add(c['cname'])
        consts.append(c)
    # namespaces with two symbol prefixes: an enumeration whose members carry different ones shares no word at all, so
    # each member loses the namespace prefix it carries
    symbol_prefixes = ['foo']
    if rng.random() < 0.3:
        symbol_prefixes = ['foo', 'bar']
        for k in range(rng.choice([1, 2])):
            tw = 'Mix%d' % k
            tails = rng.sample(WORDS, min(len(WORDS), rng.choice([2, 3, 5])))
            members = []
            for i, t in enumerate(tails):
                base = ['FOO_', 'BAR_'][i % 2] if rng.random() < 0.8 else rng.choice(['FOO_', 'BAR_'])
                if len(members) == 1:
                    base = 'BAR_' if members[0]['name'].startswith('FOO_') else 'FOO_'
                nm = base + t + ('_%d' % k if k else '')
                if nm in used_members:
                    continue
                used_members.add(nm)
                members.append({'name': nm, 'value': len(members), 'expr': None, 'private': False})
            if len(members) >= 2:
                enums.append({'ctype': 'Foo' + tw, 'members': members, 'flags_marker': False, 'uses_shift': False, 'tag': 'anon',
                              'style': 'two-prefix', 'valstyle': 'implicit'})
    lines = ['#ifndef FOO_H', '#define FOO_H', '']
    for an, cast in aliases.items():
        lines.append('typedef %s %s;' % (cast, an))
    items = [('e', e) for e in enums] + [('c', c) for c in consts]
    rng.shuffle(items)
    for k, it in items:
        if k == 'e':
            lines.extend(render_enum(it))
        else:
            lines.append('#define %s %s' % (it['cname'], it['text']))
        lines.append('')
    lines.append('#endif')
    return {'enums': enums, 'consts': consts, 'aliases': aliases, 'header': '\n'.join(lines) + '\n', 'symbol_prefixes': symbol_prefixes}


class PostBroken(Exception):
    pass


_st = {}


def setup_subject():
    if _st:
        return _st
    from .. import scan
    G = scan.setup()
    import icontract
    T = G['transformer'].Transformer
    cnt = collections.Counter()

    def prefix_is_whole_words(symbol, result):
        cnt['contract'] += 1
        names = [c.ident for c in symbol.base_type.child_list]
        for a in names:
            for b in names:
                if a != b and word_prefix_related(a, b):
                    return True     # outside the quantifier
        return result == ref_common_prefix(names)
    T._enum_common_prefix = icontract.ensure(
        prefix_is_whole_words, error=lambda symbol, result: PostBroken(
            '_enum_common_prefix(%s) = %r, whole-word prefix is %r' % (
                [c.ident for c in symbol.base_type.child_list], result,
                ref_common_prefix([c.ident for c in symbol.base_type.child_list]))))(T._enum_common_prefix)
    scan.count_entries('transformer', 'Transformer', ['_create_enum', '_create_const'])
    scan.count_entries('girwriter', 'GIRWriter', ['_write_enum', '_write_bitfield', '_write_member', '_write_constant'])
    _st.update(scan=scan, cnt=cnt)
    return _st


def check_library(lib, gir):
    """-> list of (key, what), classes"""
    out = []
    classes = []
    root = girx.parse_string(gir)
    ns = girx.namespace(root)
    by_ctype = {}
    for n in ns.findall('enumeration', 'bitfield'):
        by_ctype.setdefault(n.get('c:type'), []).append(n)
    hits = collections.Counter()
    for e in lib['enums']:
        nodes = by_ctype.get(e['ctype'], [])
        if len(nodes) != 1:
            out.append(('enum-missing', 'enum %s appears %d times in the GIR' % (e['ctype'], len(nodes))))
            continue
        node = nodes[0]
        hits['enum'] += 1
        want_tag = 'bitfield' if (e['flags_marker'] or e['uses_shift']) else 'enumeration'
        if node.tag != want_tag:
            out.append(('enum-kind', '%s emitted as <%s>, expected <%s>' % (e['ctype'], node.tag, want_tag)))
        if node.get('name') != e['ctype'][3:]:
            out.append(('enum-name', '%s named %r' % (e['ctype'], node.get('name'))))
        public = [m for m in e['members'] if not m['private']]
        allnames = [m['name'] for m in e['members']]
        prefix = ref_common_prefix(allnames)
        if prefix is None:
            prefix = 'FOO_'
        got = node.findall('member')
        if [g.get('c:identifier') for g in got] != [m['name'] for m in public]:
            out.append(('member-order-or-set', '%s: members %r, expected %r' % (
                e['ctype'], [g.get('c:identifier') for g in got], [m['name'] for m in public])))
            continue
        for g, m in zip(got, public):
            hits['member'] += 1
            if g.get('value') != str(m['value']):
                out.append(('member-value', '%s = %s emitted with value=%r (written: %s)' % (m['name'], m['value'], g.get('value'), m['expr'])))
            if e['style'] == 'two-prefix' and ref_common_prefix(allnames) is None:
                prefix = m['name'][:4]          # FOO_ or BAR_: the namespace prefix this member carries
            if not m['name'].startswith(prefix):
                continue
            want = m['name'][len(prefix):].lower()
            if g.get('name') != want:
                out.append(('member-name', '%s in %s named %r, expected %r (members %r)' % (m['name'], e['ctype'], g.get('name'), want, allnames)))
        classes.append('enum|%s|%s|n=%d|%s|priv=%d|%s' % (e['style'], e['valstyle'], min(len(e['members']), 9), want_tag,
                                                           int(any(m['private'] for m in e['members'])), e['tag']))
    cons = {}
    for n in ns.findall('constant'):
        cons.setdefault(n.get('c:type'), []).append(n)
    for c in lib['consts']:
        nodes = cons.get(c['cname'], [])
        if len(nodes) != 1:
            out.append(('const-missing:' + c['kind'], 'constant %s (%s) appears %d times' % (c['cname'], c['text'], len(nodes))))
            continue
        n = nodes[0]
        hits['const'] += 1
        if n.get('name') != c['cname'][4:]:
            out.append(('const-name', '%s named %r' % (c['cname'], n.get('name'))))
        t = girx.type_of(n)
        tname = t.get('name') if t is not None else None
        if tname != c['gi']:
            out.append(('const-type:' + str(c.get('cast') or c['kind']), '%s = %s typed %r, expected %r' % (c['cname'], c['text'], tname, c['gi'])))
        v = n.get('value')
        if 'written' in c:
            try:
                iv = int(v)
            except (TypeError, ValueError):
                out.append(('const-value-notint', '%s value %r' % (c['cname'], v)))
                continue
            bits, signed, w = c['bits'], c['signed'], c['written']
            gi_base = ctable.BASIC[c['cast']][0] if c.get('cast') else c['gi']
            if signed:
                if iv != w:
                    out.append(('const-value:' + gi_base, '%s = %s emitted as %r' % (c['cname'], c['text'], v)))
            else:
                if not (0 <= iv < (1 << bits)) or (iv - w) % (1 << bits) != 0:
                    out.append(('const-range:' + gi_base, '#define %s %s emitted as value=%r typed %s: outside [0, 2^%d) or not congruent to the written value' % (
                        c['cname'], c['text'], v, tname, bits)))
            classes.append('const|%s|%s|%s' % (c['kind'], gi_base, 'wraps' if (not signed and not 0 <= w < (1 << bits)) else 'inrange'))
        elif 'strval' in c:
            if v != c['strval']:
                out.append(('const-string', '%s = %s emitted as %r' % (c['cname'], c['text'], v)))
            classes.append('const|str|%s' % ('esc' if '\\' in c['text'] else 'plain'))
        elif 'boolval' in c:
            if v != c['boolval']:
                out.append(('const-bool', '%s = %s emitted as %r' % (c['cname'], c['text'], v)))
            classes.append('const|bool|' + c['text'])
        elif 'dblval' in c:
            try:
                ok = abs(float(v) - c['dblval']) <= 5e-7
            except (TypeError, ValueError):
                ok = False
            if not ok:
                out.append(('const-double', '%s = %s emitted as %r' % (c['cname'], c['text'], v)))
            classes.append('const|double')
    return out, classes, hits


def run_case(case):
    seed, idx = case
    st = setup_subject()
    scan = st['scan']
    lib = gen_library(seed, idx)
    m0 = dict(scan.mech)
    c0 = st['cnt']['contract']
    r = scan.scan({'namespace': 'Foo', 'version': '1.0', 'identifier_prefixes': ['Foo'], 'symbol_prefixes': lib.get('symbol_prefixes', ['foo']),
                   'includes': ['GLib-2.0'], 'headers': [('/src/foo.h', lib['header'])]})
    res = {'mech': {k: v - m0.get(k, 0) for k, v in scan.mech.items() if v - m0.get(k, 0)},
           'hits': {'contract_enum_common_prefix': st['cnt']['contract'] - c0}}
    if r['exception']:
        if 'PostBroken' in r['exception']:
            res['viol'] = [('member-name', r['exception'])]
        else:
            res['viol'] = [('exception:' + r['exception'].split(':')[0], r['exception'] + '\n' + r.get('traceback', ''))]
        res['header'] = lib['header']
        return res
    if r['gir'] is None:
        res['viol'] = [('fatal', 'scanner stopped: %s' % r['fatal'])]
        res['header'] = lib['header']
        return res
    if r.get('scan_errors'):
        res['harness'] = 'stand-in parse errors: %r' % r['scan_errors'][:3]
        res['header'] = lib['header']
        return res
    viol, classes, hits = check_library(lib, r['gir'])
    res['classes'] = classes
    for k, v in hits.items():
        res['hits'][k] = v
    if viol:
        res['viol'] = viol
        res['header'] = lib['header']
        res['gir'] = r['gir'][:6000]
    if idx < 2:
        res['sample'] = {'header': lib['header'][:1500]}
    return res


def run(args):
    chk = core.Check('C13', args.tier, args.seed,
                     'generated headers (2-6 enums/flags + 4-14 #define constants each) through the real pipeline; class = '
                     '(prefix style, value style, member count, element kind, private members, tag style) for enums and '
                     '(literal kind, GI type, wraps/in-range) for constants; non-trivial = element found and judged')
    n = int((500 if args.tier == 'quick' else 40000) * args.scale)
    cases = [(args.seed, i) for i in range(n)]
    cases = core.replay_cases(args, cases)
    B = 10
    batches = [cases[k:k + B] for k in range(0, len(cases), B)]
    harness = []

    def work(b):
        return [run_case(c) for c in b]

    for _, b, results in core.forkmap(work, batches, isolated=False):
        if isinstance(results, dict):
            harness.append(str(results)[:300])
            continue
        for c, r in zip(b, results):
            chk.evaluations += 1
            chk.merge_counts(r)
            if 'harness' in r:
                harness.append(r['harness'])
            for key, what in r.get('viol', []):
                chk.violation(key, what, {'case': c, 'header': r.get('header'), 'gir': r.get('gir')})
            if 'sample' in r:
                chk.sample(r['sample'])
    chk.extra['harness_failures'] = harness[:5]
    for m in ('Transformer._create_enum', 'Transformer._create_const', 'GIRWriter._write_member', 'GIRWriter._write_constant'):
        chk.require(chk.mechanism_entries[m] > 0, 'mechanism %s never entered' % m)
    chk.require(chk.monitor_hits['contract_enum_common_prefix'] > 0, 'contract on _enum_common_prefix never evaluated')
    chk.require(chk.monitor_hits['member'] > 0 and chk.monitor_hits['const'] > 0, 'oracle judged nothing')
    chk.require(len(harness) <= max(2, n // 50), 'harness failures: %r' % harness[:2])
    chk.assumptions = ['C front end replaced by the stand-in parser (vt/cparse.py), validated against 8 upstream expected GIRs',
                       'signed constants are generated inside their type range; strings restricted to XML-representable text',
                       'no enum member is a word-prefix of another (quantifier)']
    return chk.finish()
