"""C15 - whatever the scanner writes, the typelib compiler accepts.

Events : for each GIR emitted by the real scanner pipeline (un-edited): exit status and stderr of the freshly built
         sanitizer g-ir-compiler (the tool makes GLib warnings fatal; 'no warning' = empty stderr and exit 0), the typelib.
Oracle : exit 0 and silent; the typelib passes the byte-level invariants; its decode contains exactly the GIR's introspectable
         elements with the flags the GIR states (vt/tlexpect.py) and none of the non-introspectable ones.
"""
import os, re, tempfile, shutil, collections, glob
from .. import core, girx, typelib, tlexpect, girclosure
from . import c06


def classify_rejection(se):
    for pat, key in ((r"required attribute 'transfer-ownership' missing", 'rejected:missing-transfer-ownership'),
                     (r"Unknown (getter|setter) ", 'rejected:dangling-property-accessor'),
                     (r"Unknown property .* for accessor", 'rejected:dangling-accessor-property'),
                     (r"Caught NULL node", 'crash:field-with-non-introspectable-callback'),
                     (r"type reference '[^']*' not found", 'rejected:dangling-type-reference'),
                     (r"Unknown member function", 'rejected:dangling-invoker')):
        if re.search(pat, se):
            return key
    return 'rejected:other'


def classify_warning(se):
    m = re.search(r'warning: element (\S+) from state (\d+) is unknown', se)
    if m:
        return 'warning:element-%s-in-state-%s' % (m.group(1), m.group(2))
    return 'warning:other'


def run_case(case):
    seed, idx, tmpdir, mode = case
    st = c06.setup_subject()
    csan, info = st['csan'], st['info']
    res = {'viol': [], 'classes': [], 'hits': collections.Counter()}
    viol, hits, classes = res['viol'], res['hits'], res['classes']
    stub = st['scan'].stub_dir()
    if mode == 'scanner':
        kind, gir = c06.scanner_gir(seed, idx)
        if gir is None:
            return res
        name, incdirs = 'Foo-1.0.gir', [stub]
    else:
        gir = open(mode, encoding='utf-8').read()
        kind = 'file:' + os.path.basename(mode)
        name = os.path.basename(mode).replace('-expected', '')
        incdirs = [stub]
    d = tempfile.mkdtemp(dir=tmpdir)
    try:
        gpath = os.path.join(d, name)
        with open(gpath, 'w', encoding='utf-8') as f:
            f.write(gir)
        out1 = os.path.join(d, 'out.typelib')
        rc, so, se = csan.compile_gir(info, gpath, out1, incdirs)
        replay = {'gir': gir[:30000], 'kind': kind, 'stderr': se[-1500:]}
        hits['compiled'] += 1
        for sig, text in csan.sanitizer_reports(se):
            viol.append((sig, 'sanitizer report while compiling scanner output: ' + text[:700], replay))
        if 'Could not find GIR file' in se:
            res['harness'] = 'dependency missing: ' + se[-200:]
            return res
        if rc != 0 or not os.path.exists(out1):
            key = classify_rejection(se)
            if key == 'rejected:other':
                # differential attribution to the recorded mechanism "introspectable field whose inline callback is not
                # introspectable": the same GIR without exactly those fields must compile
                def drop(m):
                    cb = re.search(r'<callback\b[^>]*>', m.group(0))
                    return '' if (cb and 'introspectable="0"' in cb.group(0) and 'introspectable="0"' not in m.group(1)) else m.group(0)
                fixed = re.sub(r'<field\b([^>]*)>(?:(?!</field>).)*</field>', drop, gir, flags=re.S)
                if fixed != gir:
                    g2 = os.path.join(d, 'alt', name)
                    os.makedirs(os.path.dirname(g2))
                    with open(g2, 'w', encoding='utf-8') as f:
                        f.write(fixed)
                    rc2, so2, se2 = csan.compile_gir(info, g2, os.path.join(d, 'alt.typelib'), incdirs)
                    if rc2 == 0:
                        key = 'crash:field-with-non-introspectable-callback'
                        hits['attributed_by_recompiling_without_those_fields'] += 1
            viol.append((key, 'compiler exit %s on scanner output: %s' % (rc, se.strip()[-400:]), replay))
            return res
        se_clean = '\n'.join(l for l in se.splitlines() if 'runtime error' not in l and not l.startswith('    #') and l.strip() and 'SUMMARY' not in l)
        if se_clean.strip():
            viol.append((classify_warning(se_clean), 'compiler wrote to stderr: %s' % se_clean[-300:], replay))
        data = open(out1, 'rb').read()
        c06.check_typelib(st, gir, data, gpath, incdirs, viol, hits, classes, kind, replay)
        # none of the non-introspectable elements may be exposed
        root = girx.parse_string(gir)
        ns = girx.namespace(root)
        hidden = set()
        visible = set()
        for n in ns.children:
            nm = n.get('shadows') or n.get('name') or n.get('glib:name')
            if n.tag in tlexpect.TOP_KINDS and nm:
                (visible if (n.get('introspectable') != '0' and n.get('shadowed-by') is None) else hidden).add(nm)
        try:
            tl = typelib.Typelib(data)
            names = set(e['name'] for e in tl.entries if e['local'])
            hits['hidden_elements_checked'] += len(hidden - visible)
            for h in sorted((hidden - visible) & names)[:3]:
                viol.append(('non-introspectable-exposed', 'element %s is introspectable="0" in the GIR but present in the typelib' % h, replay))
        except typelib.TypelibDecodeError:
            pass
    finally:
        shutil.rmtree(d, ignore_errors=True)
    res['hits'] = dict(hits)
    return res


def run(args):
    chk = core.Check('C15', args.tier, args.seed,
                     'GIRs emitted on the spot by the real scanner pipeline from the generators of C01, C02, C03/C12 (GObject-style '
                     'libraries with documentation blocks and dumps) and C13, plus the expected GIRs without unavailable includes; each '
                     'compiled un-edited by the freshly built ASan+UBSan g-ir-compiler; class = (generator, blob type); non-trivial = '
                     'compile attempted and judged')
    st = c06.setup_subject()
    if not st['info']['ok']:
        chk.require(False, 'sanitizer build failed: %r' % st['info']['errors'][:1])
        return chk.finish()
    n = int((150 if args.tier == 'quick' else 8000) * args.scale)
    tmpdir = tempfile.mkdtemp(prefix='vt-c15-')
    harness = []
    try:
        files = [os.path.join(core.REPO, 'tests', 'scanner', '%s-1.0-expected.gir' % x) for x in ('Headeronly', 'Identfilter', 'Symbolfilter', 'SLetter')]
        cases = [(args.seed, i, tmpdir, 'scanner') for i in range(n)] + [(args.seed, 100000 + k, tmpdir, f) for k, f in enumerate(files)]
        cases = core.replay_cases(args, cases, lambda sd, i, mode: (sd, i, tmpdir, mode))
        B = 4
        batches = [cases[k:k + B] for k in range(0, len(cases), B)]
        for _, b, results in core.forkmap(lambda bb: [run_case(c) for c in bb], batches, isolated=False):
            if isinstance(results, dict):
                harness.append(str(results)[:500])
                continue
            for c, r in zip(b, results):
                chk.evaluations += 1
                chk.merge_counts(r)
                if 'harness' in r:
                    harness.append(r['harness'])
                for key, what, replay in r.get('viol', []):
                    chk.violation(key, what, dict(replay, case=[c[0], c[1], c[3]]))
    finally:
        shutil.rmtree(tmpdir, ignore_errors=True)
    chk.extra['harness_failures'] = harness[:5]
    for k in ('function', 'struct', 'enum', 'object', 'interface', 'constant', 'callback'):
        chk.require(chk.monitor_hits['blob:' + k] > 0, 'blob type %s never decoded' % k)
    chk.require(chk.monitor_hits['hidden_elements_checked'] > 0, 'no non-introspectable element met')
    chk.require(len(harness) <= max(2, chk.evaluations // 40), 'harness failures: %r' % harness[:2])
    chk.assumptions = ['dependency GIRs are the harness stubs (GLib/GObject/Gio); the expected GIRs that include the real GObject/Gio/cairo are left out',
                       'C code built against the hand-written GLib declaration shim']
    return chk.finish()
