"""C02 - undocumented APIs get the documented default ownership, types and roles.

Events : the GIR emitted by the real pipeline for declarations that carry no comment block at all (direction
         annotations only where the statement itself talks about out/inout parameters).
Oracle : an independently written table C spelling -> GI name (vt/ctable.py) plus the defaults of the statement:
         c:type keeps the spelling, in -> none, out/inout -> full unless caller-allocated, const/basic returns -> none,
         non-const string return -> full, untyped pointers nullable, trailing GError** -> throws, callback/user_data/
         destroy-notify triples, async-ready scope, fixed-size array fields.  Everything else is UNSPECIFIED.
"""
import collections
from .. import core, girx, apigen, ctable, docgen

NS_TYPES = {'FooRec': 'Rec', 'FooUni': 'Uni', 'FooOpaque': 'Opaque', 'FooMode': 'Mode', 'FooFlags': 'Flags', 'FooCallback': 'Callback',
            'FooAlias': 'Alias', 'FooByte': 'Byte', 'GObject': 'GObject.Object', 'GCancellable': 'Gio.Cancellable', 'GVariant': 'GLib.Variant',
            'GClosure': 'GObject.Closure', 'GDestroyNotify': 'GLib.DestroyNotify', 'GAsyncReadyCallback': 'Gio.AsyncReadyCallback',
            'GError': 'GLib.Error', 'GQuark': 'GLib.Quark', 'GValue': 'GObject.Value', 'GBytes': 'GLib.Bytes'}
CONTAINERS = {'GList': 'GLib.List', 'GSList': 'GLib.SList', 'GHashTable': 'GLib.HashTable', 'GArray': 'GLib.Array',
              'GPtrArray': 'GLib.PtrArray', 'GByteArray': 'GLib.ByteArray'}
BASIC_SPELLINGS = sorted(ctable.BASIC)
UNBINDABLE = sorted(ctable.UNBINDABLE)


def norm_ctype(sp):
    """spelling as the scanner is documented to keep it: blanks around '*' dropped"""
    out = sp.replace(' *', '*').replace('* ', '*')
    return out


def expected_type(sp, position):
    """-> dict(name=..., ctype=..., kind='plain'|'array-utf8'|'container'|None) or None when unspecified"""
    const = sp.startswith('const ')
    core_sp = sp[6:] if const else sp
    depth = core_sp.count('*')
    base = core_sp.replace('*', '').strip()
    ct = norm_ctype(sp)
    if base in ('char', 'gchar') and depth == 2 and position == 'return':
        return {'array_of': 'utf8', 'ctype': ct}
    if base in ('char', 'gchar') and depth >= 1:
        return {'name': 'utf8', 'ctype': ct}
    if base in ('_Bool', 'bool') and depth >= 1:
        return None     # only the by-value mapping is documented (a pointer to _Bool is not a pointer to gboolean)
    if (base == 'void' and depth == 1) or (base in ('gpointer', 'gconstpointer') and depth == 0):
        return {'name': 'gpointer', 'ctype': ct}
    if base == 'void' and depth == 0:
        return {'name': 'none', 'ctype': 'void'}
    if base in ctable.BASIC:
        return {'name': ctable.BASIC[base][0], 'ctype': ct}
    if base in ctable.UNBINDABLE:
        return {'name': ctable.UNBINDABLE[base], 'ctype': ct}
    if base in NS_TYPES and depth <= 2:
        return {'name': NS_TYPES[base], 'ctype': ct}
    if base in CONTAINERS and depth == 1:
        return {'name': CONTAINERS[base], 'ctype': ct, 'container': True}
    return None


CONST_CONTAINERS = ['const GSList *', 'const GHashTable *', 'const GArray *', 'const GPtrArray *', 'const GByteArray *']
PARAM_SPELLINGS = ([s for s in BASIC_SPELLINGS] + [s + ' *' for s in BASIC_SPELLINGS if s not in ('char', 'gchar')] +
                   ['const ' + s + ' *' for s in ('gint', 'guint8', 'double', 'gsize')] +
                   ['char *', 'gchar *', 'const char *', 'const gchar *', 'gchar **', 'const gchar **', 'char **',
                    'void *', 'gpointer', 'gconstpointer', 'const void *',
                    'FooRec *', 'const FooRec *', 'FooUni *', 'FooOpaque *', 'FooMode', 'FooFlags', 'FooAlias', 'FooByte', 'FooRec **',
                    'GObject *', 'GCancellable *', 'GVariant *', 'GClosure *', 'GList *', 'GSList *', 'GHashTable *', 'GArray *',
                    'GPtrArray *', 'GByteArray *', 'const GList *', 'GValue *', 'const GValue *', 'GBytes *', 'FooCallback',
                    'long long', 'unsigned long long', 'long double'] + CONST_CONTAINERS + ['const FooUni *', 'const FooOpaque *', 'const GObject *', 'const GVariant *'])
RETURN_SPELLINGS = ['void'] + [s for s in PARAM_SPELLINGS if s not in ('FooCallback',)]
FIELD_SPELLINGS = [s for s in PARAM_SPELLINGS if s not in ('FooCallback', 'const void *') and not s.startswith('const GList') and s not in CONST_CONTAINERS]


def gen_library(seed, idx):
    rng = core.rng_for(seed, 'c02', idx)
    hdr = apigen.Source('/src/foo.h')
    src = apigen.Source('/src/foo.c')
    hdr.add(apigen.PRELUDE)
    items = []
    # 1. plain functions: spelling x position
    for fi in range(rng.choice([6, 10, 14])):
        n = rng.choice([0, 1, 2, 3])
        params = [(rng.choice(PARAM_SPELLINGS), 'p%d' % i) for i in range(n)]
        ret = rng.choice(RETURN_SPELLINGS)
        name = 'foo_plain%d' % fi
        hdr.add(apigen.render_function(name, ret, params))
        items.append(('plain', name, params, ret))
    # 2. callback arrangements (the well-known callback types also through typedef aliases of them)
    hdr.add('typedef GAsyncReadyCallback FooReadyCallback;\ntypedef GDestroyNotify FooNotify;')
    for ci in range(rng.choice([2, 4, 6])):
        arr = rng.choice(['cb+data', 'x+cb+data', 'cb+data+destroy', 'cb+destroy', 'cb+other', 'cb1+data1+cb2+data2', 'cb1+cb2+data',
                          'async+data', 'cancellable+async+data', 'cb+data+x', 'data+cb', 'cb+destroy+data', 'x+cb+destroy+data'])
        dname = rng.choice(['user_data', 'data', 'func_data', 'cb_data'])
        P = {'cb': ('FooCallback', 'func'), 'cb1': ('FooCallback', 'func1'), 'cb2': ('FooCallback', 'func2'), 'data': ('gpointer', dname),
             'data1': ('gpointer', 'func1_data'), 'data2': ('gpointer', 'user_data'), 'destroy': (['GDestroyNotify', 'GDestroyNotify', 'FooNotify'][ci % 3], 'notify'),
             'x': ('gint', 'x'), 'other': ('gpointer', 'closure_arg'), 'async': (['GAsyncReadyCallback', 'FooReadyCallback'][ci % 2], 'callback'),
             'cancellable': ('GCancellable *', 'cancellable')}
        params = [P[t] for t in arr.split('+')]
        err = rng.random() < 0.3
        if err:
            params.append(('GError **', 'error'))
        name = 'foo_cbs%d' % ci
        hdr.add(apigen.render_function(name, rng.choice(['void', 'gboolean', 'guint']), params))
        items.append(('cbs', name, params, arr, err))
    # 3. GError positions
    for ei in range(rng.choice([1, 2, 3])):
        pos = rng.choice(['trailing', 'trailing', 'middle', 'first', 'only'])
        base = [(rng.choice(['gint', 'const gchar *', 'FooRec *']), 'a%d' % i) for i in range(rng.choice([1, 2]))]
        if pos == 'trailing':
            params = base + [('GError **', rng.choice(['error', 'err', 'e']))]
        elif pos == 'middle':
            params = base[:1] + [('GError **', 'error')] + base[:1] and base[:1] + [('GError **', 'error'), ('gint', 'tail')]
        elif pos == 'first':
            params = [('GError **', 'error')] + base
        else:
            params = [('GError **', 'error')]
        name = 'foo_err%d' % ei
        form = rng.choice(['function', 'function', 'callback', 'field'])
        if form == 'function':
            hdr.add(apigen.render_function(name, 'gboolean', params))
        elif form == 'callback':
            name = 'FooErrFunc%d' % ei
            hdr.add('typedef gboolean (*%s) (%s);' % (name, ', '.join(apigen.decl(sp, n) for sp, n in params)))
        else:
            name = 'FooErrOps%d' % ei
            hdr.add('typedef struct _%s %s;\nstruct _%s {\n  gint before;\n  gboolean (*slot) (%s);\n};' % (name, name, name, ', '.join(apigen.decl(sp, n) for sp, n in params)))
        items.append(('err', name, params, pos, form))
    # 4. record with fields
    for ri in range(rng.choice([1, 2])):
        fields = []
        for k in range(rng.choice([2, 4, 7])):
            sp = rng.choice(FIELD_SPELLINGS)
            dims = rng.choice([None, None, None, (4,), (1,), (2, 3), (16,)])
            fields.append((sp, 'f%d' % k, dims))
        name = 'FooStruct%d' % ri
        lines = ['typedef struct _%s %s;' % (name, name), 'struct _%s {' % name]
        for sp, fn, dims in fields:
            d = ''.join('[%d]' % x for x in dims) if dims else ''
            lines.append('  %s%s;' % (apigen.decl(sp, fn), d))
        lines.append('};')
        hdr.add('\n'.join(lines))
        items.append(('record', name, fields))
    # 5. aliases and constants of alias types
    for ai in range(rng.choice([1, 3])):
        sp = rng.choice([s for s in BASIC_SPELLINGS if ' ' not in s or True])
        name = 'FooAl%d' % ai
        hdr.add('typedef %s %s;' % (sp, name))
        items.append(('alias', name, sp))
    # 6. out / inout defaults (direction annotations only)
    for oi in range(rng.choice([2, 4])):
        sp = rng.choice(['gint *', 'gchar **', 'FooRec *', 'FooRec **', 'GObject **', 'GList **', 'gdouble *', 'FooOpaque **', 'FooMode *',
                         'GVariant **', 'guint8 **'])
        d = rng.choice(['out', 'inout', 'out caller-allocates', 'out callee-allocates'])
        name = 'foo_out%d' % oi
        hdr.add(apigen.render_function(name, 'void', [(sp, 'result')]))
        src.add('/**\n * %s:\n * @result: (%s): a value\n */\n' % (name, d))
        items.append(('out', name, sp, d))
    # 7. typedef'd spellings in return and parameter position (the defaults look through the alias)
    for ti in range(rng.choice([1, 2, 3])):
        sp = rng.choice(['const char *', 'const gchar *', 'char *', 'gchar *', 'gint', 'guint32', 'gdouble', 'const FooRec *', 'gboolean', 'const guint8 *'])
        tname = 'FooTd%d' % ti
        hdr.add('typedef %s%s;' % (sp if sp.endswith('*') else sp + ' ', tname))
        fname = 'foo_td%d' % ti
        hdr.add(apigen.render_function(fname, tname, [(tname, 'a')]))
        items.append(('typedef-fn', fname, tname, sp))
    # 8. typedefs of containers, records and callbacks (aliases whose target is not a basic type) and a user of each
    for ci, sp in enumerate(rng.sample(['GPtrArray', 'GArray', 'GByteArray', 'GList', 'GSList', 'GHashTable', 'FooRec', 'FooCallback', 'GObject',
                                        'gchar *', 'FooMode'], rng.choice([0, 1, 2, 3]))):
        tname = 'FooCt%d' % ci
        hdr.add('typedef %s%s;' % (sp if sp.endswith('*') else sp + ' ', tname))
        ptr = '' if sp in ('FooCallback', 'gchar *', 'FooMode') else ' *'
        hdr.add(apigen.render_function('foo_ct%d' % ci, 'void', [(tname + ptr, 'a')]))
        items.append(('other-alias', tname, sp))
    return {'items': items, 'header': hdr.text(), 'source': src.text()}


def check_type(node, sp, position, where, out, classes):
    exp = expected_type(sp, position)
    t = girx.type_of(node)
    if exp is None or t is None:
        return
    classes.append('type|%s|%s' % (position, sp))
    if 'array_of' in exp:
        et = girx.type_of(t) if t.tag == 'array' else None
        if t.tag != 'array' or et is None or et.get('name') != exp['array_of']:
            out.append(('type:returned-char**', '%s: %s gives %r, documented: array of utf8' % (where, sp, girx.type_sig(t))))
        elif t.get('c:type') != exp['ctype']:
            out.append(('ctype', '%s: c:type %r, spelling %r' % (where, t.get('c:type'), sp)))
        return
    if t.tag != ('type' if not (exp.get('container') and exp['name'] in ('GLib.Array', 'GLib.PtrArray', 'GLib.ByteArray')) else 'array'):
        out.append(('type:shape', '%s: %s gives <%s>' % (where, sp, t.tag)))
        return
    if t.get('name') != exp['name']:
        out.append(('type:name:' + (apigen.base_of(sp) if apigen.base_of(sp) in ctable.BASIC or apigen.base_of(sp) in ctable.UNBINDABLE else 'other'),
                    '%s: %s mapped to %r, documented %r' % (where, sp, t.get('name'), exp['name'])))
    if t.get('c:type') != exp['ctype']:
        key = 'ctype:const-void' if sp.replace(' ', '') == 'constvoid*' else 'ctype'
        out.append((key, '%s: c:type %r for spelling %r (expected %r)' % (where, t.get('c:type'), sp, exp['ctype'])))


def judge(lib, gir):
    out, classes = [], []
    hits = collections.Counter()
    root = girx.parse_string(gir)
    ns = girx.namespace(root)
    funcs = {n.get('c:identifier'): n for n in ns.iter('function', 'method', 'constructor')}
    recs = {n.get('c:type'): n for n in ns.findall('record')}
    aliases = {n.get('c:type'): n for n in ns.findall('alias')}
    for it in lib['items']:
        kind = it[0]
        if kind == 'plain':
            _, name, params, ret = it
            f = funcs.get(name)
            if f is None:
                out.append(('function-missing', '%s missing from the GIR' % name))
                continue
            hits['plain'] += 1
            inst, ps = girx.params_of(f)
            allp = ([inst] if inst is not None else []) + ps
            if len(allp) != len(params):
                out.append(('param-count', '%s: %d parameters in GIR, %d declared' % (name, len(allp), len(params))))
                continue
            for (sp, pn), pnode in zip(params, allp):
                where = '%s(%s)' % (name, pn)
                check_type(pnode, sp, 'param', where, out, classes)
                if pnode.get('transfer-ownership') != 'none':
                    out.append(('transfer:in-param', '%s: in-parameter of type %s has transfer-ownership=%r' % (where, sp, pnode.get('transfer-ownership'))))
                if pnode.get('direction') is not None:
                    out.append(('direction:default', '%s: un-annotated parameter has direction=%r' % (where, pnode.get('direction'))))
                base = apigen.base_of(sp)
                if (base in ('gpointer', 'gconstpointer') and '*' not in sp) or (base == 'void' and sp.count('*') == 1):
                    hits['gpointer'] += 1
                    if pnode.get('nullable') != '1':
                        out.append(('nullable:gpointer', '%s: untyped pointer %s is not nullable' % (where, sp)))
            rv = f.find('return-value')
            where = '%s()' % name
            check_type(rv, ret, 'return', where, out, classes)
            rbase = apigen.base_of(ret)
            rdepth = ret.count('*')
            tr = rv.get('transfer-ownership')
            if (ret.startswith('const ') and rdepth == 1) or (rdepth == 0 and (rbase in ctable.BASIC or rbase == 'void')):
                hits['return-none'] += 1
                if tr != 'none':
                    out.append(('transfer:return-const-or-basic', '%s: returns %s with transfer-ownership=%r' % (where, ret, tr)))
            elif rbase in ('char', 'gchar') and rdepth == 1:
                hits['return-string'] += 1
                if tr != 'full':
                    out.append(('transfer:return-string', '%s: returns non-const %s with transfer-ownership=%r' % (where, ret, tr)))
            if rbase in ('gpointer', 'gconstpointer') and rdepth == 0 or (rbase == 'void' and rdepth == 1):
                if rv.get('nullable') != '1':
                    out.append(('nullable:gpointer-return', '%s: untyped pointer return %s is not nullable' % (where, ret)))
        elif kind == 'typedef-fn':
            _, name, tname, sp = it
            f = funcs.get(name)
            if f is None:
                out.append(('function-missing', '%s missing from the GIR' % name))
                continue
            hits['typedef-fn'] += 1
            classes.append('typedef-fn|%s' % sp)
            rv = f.find('return-value')
            tr = rv.get('transfer-ownership')
            if sp.startswith('const ') or '*' not in sp:
                if tr != 'none':
                    out.append(('transfer:return-const-or-basic:typedef', '%s(): returns %s (typedef %s) with transfer-ownership=%r' % (name, tname, sp, tr)))
            elif apigen.base_of(sp) in ('char', 'gchar'):
                if tr != 'full':
                    out.append(('transfer:return-string:typedef', '%s(): returns non-const %s (typedef %s) with transfer-ownership=%r' % (name, tname, sp, tr)))
            inst, ps = girx.params_of(f)
            for pnode in ([inst] if inst is not None else []) + ps:
                if pnode.get('transfer-ownership') != 'none':
                    out.append(('transfer:in-param:typedef', '%s(%s): in-parameter of type %s (typedef %s) has transfer-ownership=%r' % (
                        name, pnode.get('name'), tname, sp, pnode.get('transfer-ownership'))))
        elif kind == 'other-alias':
            _, tname, sp = it
            hits['other-alias'] += 1
            classes.append('other-alias|%s' % sp)
            if len([n for n in ns.children if n.get('c:type') == tname]) != 1:
                out.append(('alias-missing', 'typedef %s %s: %d elements carry that c:type' % (sp, tname, len([n for n in ns.children if n.get('c:type') == tname]))))
        elif kind == 'cbs':
            _, name, params, arr, err = it
            f = funcs.get(name)
            if f is None:
                out.append(('function-missing', '%s missing' % name))
                continue
            hits['cbs'] += 1
            inst, ps = girx.params_of(f)
            byname = {p.get('name'): (i, p) for i, p in enumerate(ps)}
            classes.append('callbacks|%s|err=%d' % (arr, err))
            if err:
                if 'error' in byname or f.get('throws') != '1':
                    out.append(('throws', '%s: trailing GError** kept (%s) / throws=%r' % (name, 'error' in byname, f.get('throws'))))
            def idx(n):
                return str(byname[n][0]) if n in byname else None
            dname = [p for p in params if p[0] == 'gpointer' and p[1] in ('user_data', 'data', 'func_data', 'cb_data') and arr != 'cb1+data1+cb2+data2']
            if arr in ('cb+data', 'x+cb+data', 'cb+data+destroy', 'cb+data+x', 'cb+destroy+data', 'x+cb+destroy+data'):
                p = byname['func'][1]
                if p.get('closure') != idx(dname[0][1]):
                    out.append(('closure', '%s [%s]: callback closure=%r, user data is parameter %s' % (name, arr, p.get('closure'), idx(dname[0][1]))))
                d = byname[dname[0][1]][1]
                if d.get('nullable') != '1':
                    out.append(('closure-nullable', '%s: user data parameter not nullable' % name))
            if arr in ('cb+data+destroy', 'cb+destroy', 'cb+destroy+data', 'x+cb+destroy+data'):
                p = byname['func'][1]
                if p.get('destroy') != idx('notify') or p.get('scope') != 'notified':
                    out.append(('destroy', '%s [%s]: destroy=%r scope=%r, expected destroy=%s scope=notified' % (name, arr, p.get('destroy'), p.get('scope'), idx('notify'))))
            if arr == 'cb1+data1+cb2+data2':
                if byname['func1'][1].get('closure') != idx('func1_data') or byname['func2'][1].get('closure') != idx('user_data'):
                    out.append(('closure', '%s [%s]: closures %r/%r' % (name, arr, byname['func1'][1].get('closure'), byname['func2'][1].get('closure'))))
            if arr == 'cb1+cb2+data':
                if byname['func2'][1].get('closure') != idx(dname[0][1]):
                    out.append(('closure', '%s [%s]: second callback closure=%r' % (name, arr, byname['func2'][1].get('closure'))))
            if arr in ('async+data', 'cancellable+async+data'):
                p = byname['callback'][1]
                if p.get('scope') != 'async':
                    out.append(('scope-async', '%s: GAsyncReadyCallback scope=%r' % (name, p.get('scope'))))
                if p.get('closure') != idx(dname[0][1]):
                    out.append(('closure', '%s [%s]: async callback closure=%r' % (name, arr, p.get('closure'))))
            if arr == 'data+cb':
                p = byname['func'][1]
                if p.get('closure') is not None:
                    out.append(('closure-before', '%s: user data *before* the callback became its closure' % name))
        elif kind == 'err':
            _, name, params, pos, form = it
            if form == 'function':
                f = funcs.get(name)
            elif form == 'callback':
                f = next((n for n in ns.findall('callback') if n.get('c:type') == name), None)
            else:
                rec = next((n for n in ns.findall('record') if n.get('c:type') == name), None)
                fld = next((x for x in rec.findall('field') if x.get('name') == 'slot'), None) if rec is not None else None
                f = fld.find('callback') if fld is not None else None
            if f is None:
                out.append(('function-missing', '%s (%s) missing' % (name, form)))
                continue
            hits['err'] += 1
            hits['err:' + form] += 1
            inst, ps = girx.params_of(f)
            names = [p.get('name') for p in ps]
            enames = [p[1] for p in params if p[0] == 'GError **']
            classes.append('gerror|%s|%s' % (pos, form))
            if pos in ('trailing', 'only'):
                if enames[0] in names or f.get('throws') != '1':
                    out.append(('throws', '%s: trailing GError** -> params %r throws=%r' % (name, names, f.get('throws'))))
            else:
                if enames[0] not in names or f.get('throws') == '1':
                    out.append(('throws-nontrailing', '%s: non-trailing GError** -> params %r throws=%r' % (name, names, f.get('throws'))))
        elif kind == 'record':
            _, name, fields = it
            r = recs.get(name)
            if r is None:
                out.append(('record-missing', '%s missing' % name))
                continue
            hits['record'] += 1
            fn = {f.get('name'): f for f in r.findall('field')}
            for sp, fname, dims in fields:
                f = fn.get(fname)
                if f is None:
                    out.append(('field-missing', '%s.%s missing' % (name, fname)))
                    continue
                where = '%s.%s' % (name, fname)
                if dims:
                    t = girx.type_of(f)
                    size = 1
                    for d in dims:
                        size *= d
                    classes.append('field-array|%d' % len(dims))
                    if t is None or t.tag != 'array' or t.get('fixed-size') != str(size) or t.get('zero-terminated') != '0':
                        out.append(('field-array', '%s: %s[%s] gives %r' % (where, sp, dims, girx.type_sig(t))))
                    else:
                        exp = expected_type(sp, 'field')
                        et = girx.type_of(t)
                        if exp and 'name' in exp and et is not None and et.tag == 'type' and not exp.get('container') and et.get('name') != exp['name']:
                            out.append(('field-array-element', '%s: element %r, expected %r' % (where, et.get('name'), exp['name'])))
                else:
                    check_type(f, sp, 'field', where, out, classes)
        elif kind == 'alias':
            _, name, sp = it
            a = aliases.get(name)
            if a is None:
                out.append(('alias-missing', '%s missing' % name))
                continue
            hits['alias'] += 1
            check_type(a, sp, 'alias', name, out, classes)
        elif kind == 'out':
            _, name, sp, d = it
            f = funcs.get(name)
            if f is None:
                out.append(('function-missing', '%s missing' % name))
                continue
            hits['out'] += 1
            inst, ps = girx.params_of(f)
            p = (ps or [inst])[0]
            classes.append('out|%s|%s' % (d, sp))
            ca = p.get('caller-allocates')
            want = 'none' if ca == '1' else 'full'
            if p.get('transfer-ownership') != want:
                out.append(('transfer:out', '%s: (%s) %s caller-allocates=%s has transfer-ownership=%r, documented default %s' % (
                    name, d, sp, ca, p.get('transfer-ownership'), want)))
    return out, classes, hits


_st = {}


def setup_subject():
    if _st:
        return _st
    from .. import scan
    scan.setup()
    scan.count_entries('transformer', 'Transformer', ['_canonicalize_ctype', 'create_type_from_ctype_string', '_create_bare_container_type',
                                                    '_create_source_type', '_create_complete_source_type', '_create_type_from_base',
                                                    '_create_callback'])
    scan.count_entries('maintransformer', 'MainTransformer', ['_get_transfer_default', '_get_transfer_default_param',
                                                            '_get_transfer_default_return', '_pass_callable_defaults',
                                                            '_pass3_callable_callbacks', '_pass3_callable_throws'])
    _st['scan'] = scan
    return _st


def run_case(case):
    seed, idx = case
    st = setup_subject()
    scan = st['scan']
    lib = gen_library(seed, idx)
    m0 = dict(scan.mech)
    r = scan.scan(apigen.library(headers=[('/src/foo.h', lib['header'])], sources=[('/src/foo.c', lib['source'])]))
    res = {'viol': [], 'classes': [], 'hits': {}}
    replay = {'header': lib['header'], 'source': lib['source']}
    if r['exception']:
        res['viol'].append(('exception:' + r['exception'].split(':')[0], r['exception'] + '\n' + r.get('traceback', ''), replay))
        return res
    if r['gir'] is None:
        res['viol'].append(('fatal', 'scanner stopped: %s' % (r['fatal'] or '')[:300], replay))
        return res
    if r.get('scan_errors'):
        res['harness'] = 'stand-in parse errors %r' % r['scan_errors'][:2]
        return res
    res['mech'] = {k: v - m0.get(k, 0) for k, v in scan.mech.items() if v - m0.get(k, 0)}
    viol, classes, hits = judge(lib, r['gir'])
    res['classes'] = classes
    res['hits'] = dict(hits)
    for k, w in viol:
        res['viol'].append((k, w, dict(replay, gir=r['gir'][:3000])))
    if idx < 2:
        res['sample'] = {'header': lib['header'][-1500:]}
    return res


def run(args):
    chk = core.Check('C02', args.tier, args.seed,
                     'generated un-annotated headers: every C spelling of the table in parameter/return/field/alias position, '
                     'callback/user-data/destroy/async arrangements, GError** positions, fixed-size array fields, out/inout '
                     'defaults; class = (position, spelling) / arrangement; non-trivial = element found and judged')
    n = int((300 if args.tier == 'quick' else 20000) * args.scale)
    cases = [(args.seed, i) for i in range(n)]
    cases = core.replay_cases(args, cases)
    B = 8
    batches = [cases[k:k + B] for k in range(0, len(cases), B)]
    harness = []
    for _, b, results in core.forkmap(lambda bb: [run_case(c) for c in bb], batches, isolated=False):
        if isinstance(results, dict):
            harness.append(str(results)[:400])
            continue
        for c, r in zip(b, results):
            chk.evaluations += 1
            chk.merge_counts(r)
            if 'harness' in r:
                harness.append(r['harness'])
            for key, what, replay in r.get('viol', []):
                chk.violation(key, what, dict(replay, case=c))
            if 'sample' in r:
                chk.sample(r['sample'])
    chk.extra['harness_failures'] = harness[:5]
    for m in ('Transformer._canonicalize_ctype', 'Transformer._create_bare_container_type', 'MainTransformer._get_transfer_default',
              'MainTransformer._pass3_callable_callbacks', 'MainTransformer._pass3_callable_throws'):
        chk.require(chk.mechanism_entries[m] > 0, 'mechanism %s never entered' % m)
    for h in ('plain', 'cbs', 'err', 'record', 'alias', 'out', 'typedef-fn'):
        chk.require(chk.monitor_hits[h] > 0, 'oracle part %s judged nothing' % h)
    chk.require(len(harness) <= max(2, n // 50), 'harness failures: %r' % harness[:2])
    core.require_standin_validated(chk)
    chk.assumptions = ['stand-in C parser; stub GLib/GObject/Gio GIRs', 'default transfer of returned records/objects is not documented and not asserted']
    return chk.finish()
