"""C20 - the XML writer always produces well-formed, lossless XML.

Events : the bytes returned by the *real* giscanner.xmlwriter.XMLWriter after a generated operation sequence.
Oracle : two independent parsers (expat/ElementTree, minidom) must accept the document and yield exactly the
         reference tree that the operation sequence denotes.  A live-object invariant
         (_indent == _indent_unit*len(_tag_stack)) is attached with icontract and evaluated after every public call.
"""
import sys, os, io, json, random, collections
import xml.etree.ElementTree as ET
import xml.dom.minidom as minidom
from .. import core

sys.path.insert(0, core.REPO)

NS = {'c': 'urn:verif:c', 'glib': 'urn:verif:glib'}
SPECIALS = ['"', "'", '<', '>', '&', '\n', '\t', '\r', ']]>', '&amp;', '&#10;', '<!--', '-->', '<?', '?>', ' ',
            '  ', '\u00a0', '\u0085', '\u2028', '\ud7ff', '\ue000', '\ufffd', '\U00010000', '\U0010ffff',
            '\u00e9', '\u4e2d', '%s', '%', '\\', '{', '}', "'\"", '"\'"']


class InvariantBroken(Exception):
    pass


def rand_text(rng, allow_cr=True, maxlen=40, hot=0.5):
    n = rng.choice([0, 1, 1, 2, 3, 5, 8, 13, maxlen])
    out = []
    for _ in range(n):
        r = rng.random()
        if r < hot:
            s = rng.choice(SPECIALS)
        elif r < hot + 0.3:
            s = rng.choice('abcdefghijklmnopqrstuvwxyzABCXYZ0123456789_-. ')
        else:
            # any XML 1.0 Char
            while True:
                cp = rng.choice([rng.randrange(0x20, 0x7f), rng.randrange(0x80, 0xd800), rng.randrange(0xe000, 0xfffe),
                                 rng.randrange(0x10000, 0x110000), 9, 10, 13])
                break
            s = chr(cp)
        out.append(s)
    t = ''.join(out)
    if not allow_cr:
        t = t.replace('\r', '')
    return t


NAME_START = 'abcdefghijklmnopqrstuvwxyzABCDEFGHIJKLMNOPQRSTUVWXYZ_'
NAME_REST = NAME_START + '0123456789-.'


def rand_name(rng, prefix_ok=True):
    n = rng.choice(NAME_START) + ''.join(rng.choice(NAME_REST) for _ in range(rng.choice([0, 1, 3, 6, 12, 30])))
    if n.lower().startswith('xml'):
        n = 'n' + n
    if prefix_ok and rng.random() < 0.2:
        n = rng.choice(list(NS)) + ':' + n
    return n


def rand_attrs(rng, mode, prefix_ok=True):
    """mode: 'none' | 'short' | 'long' | 'any'"""
    if mode == 'none':
        return rng.choice([None, []])
    k = {'short': rng.randrange(0, 3), 'long': rng.randrange(4, 41), 'any': rng.choice([0, 1, 2, 5, 12, 40])}[mode]
    names = set()
    attrs = []
    for _ in range(k):
        n = rand_name(rng, prefix_ok)
        if n in names:
            continue
        names.add(n)
        r = rng.random()
        if r < 0.12:
            v = None
        elif mode == 'short':
            v = rand_text(rng, maxlen=4)
        else:
            v = rand_text(rng, maxlen=rng.choice([4, 40, 200]))
        attrs.append((n, v))
    return attrs


class Unspecified(Exception):
    pass


class Boom(Exception):
    pass


def gen_ops(rng, depth_budget, attr_mode, size, budget=None):
    """Return a nested op list.  op = ('tag', name, attrs, data) | ('comment', text) | ('line', text)
       | ('push', name, attrs, [ops]) | ('ctx', name, attrs, [ops], raises_at_end: bool, catch_here: bool)"""
    ops = []
    if budget is None:
        budget = [120]          # global node budget: keeps deep cases narrow instead of exponential
    n = rng.randrange(0, size + 1)
    if depth_budget > 8 and n == 0:
        n = 1
    for _ in range(n):
        if budget[0] <= 0:
            break
        budget[0] -= 1
        r = rng.random()
        if depth_budget > 8 and r < 0.55:
            r = 0.6 + r * 0.7  # deep cases: prefer nesting so the requested depth is actually reached
        if r < 0.4 or depth_budget <= 0:
            data = rng.choice([None, None, '', rand_text(rng, allow_cr=False)])
            ops.append(('tag', rand_name(rng), rand_attrs(rng, attr_mode), data))
        elif r < 0.5:
            t = rand_text(rng, allow_cr=False, hot=0.2).replace('--', '- ').replace('\x00', '')
            if t.endswith('-'):
                t += ' '
            ops.append(('comment', t))
        elif r < 0.55:
            t = rand_text(rng, allow_cr=False).strip()
            t = ' '.join(t.split())
            if t:
                ops.append(('line', t))
        elif r < 0.58:
            # an element whose opening itself fails (an attribute the writer cannot serialise): nothing of it may remain
            ops.append(('badopen', rand_name(rng), rng.choice(['push', 'ctx', 'tag']), rng.choice(['int-value', 'triple'])))
        elif r < 0.8:
            ops.append(('push', rand_name(rng), rand_attrs(rng, attr_mode), gen_ops(rng, depth_budget - 1, attr_mode, size, budget)))
        else:
            ops.append(('ctx', rand_name(rng), rand_attrs(rng, attr_mode), gen_ops(rng, depth_budget - 1, attr_mode, size, budget),
                        rng.random() < 0.35, rng.random() < 0.5))
    return ops


def qname(n):
    if ':' in n:
        p, l = n.split(':', 1)
        return '{%s}%s' % (NS[p], l)
    return n


def apply_ops(w, ops, ref_children, stats):
    """Drive the real writer and build the reference tree; a Boom may propagate upward."""
    for op in ops:
        kind = op[0]
        if kind == 'tag':
            _, name, attrs, data = op
            w.write_tag(name, attrs if attrs is not None else [], data)
            ref_children.append(('el', name, attrs or [], data or '', []))
            stats['leaf'] += 1
        elif kind == 'comment':
            w.write_comment(op[1])
            stats['comment'] += 1
        elif kind == 'line':
            w.write_line(op[1], do_escape=True)
            ref_children.append(('text', op[1]))
            stats['line'] += 1
        elif kind == 'badopen':
            _, name, how, what = op
            bad = {'int-value': [('value', 42)], 'triple': [('name', 'x', 'extra')]}[what]
            try:
                if how == 'push':
                    w.push_tag(name, bad)
                    w.pop_tag()         # not reached when the opening fails
                elif how == 'ctx':
                    with w.tagcontext(name, bad):
                        pass
                else:
                    w.write_tag(name, bad)
            except Boom:
                raise
            except Exception:
                stats['badopen-raised'] += 1
            else:
                # the writer accepted it (it serialised the odd value somehow): what the document then contains is not specified
                raise Unspecified()
        elif kind == 'push':
            _, name, attrs, body = op
            kids = []
            ref_children.append(('el', name, attrs or [], None, kids))
            if attrs is None:
                w.push_tag(name)
            else:
                w.push_tag(name, attrs)
            try:
                apply_ops(w, body, kids, stats)
            finally:
                # plain push/pop user code is expected to pop itself; emulate a well-behaved caller
                popped = w.pop_tag()
                if popped != name:
                    raise InvariantBroken('pop_tag returned %r for %r' % (popped, name))
            stats['push'] += 1
        elif kind == 'ctx':
            _, name, attrs, body, raises, catch = op
            kids = []
            ref_children.append(('el', name, attrs or [], None, kids))
            try:
                with w.tagcontext(name, attrs):
                    apply_ops(w, body, kids, stats)
                    if raises:
                        stats['raise'] += 1
                        raise Boom()
            except Boom:
                if not catch:
                    raise
                stats['caught'] += 1
            stats['ctx'] += 1


def norm_attrs(attrs):
    return sorted((qname(n), v) for n, v in attrs if v is not None)


def compare(el, ref, path, whitespace):
    """el: ET element; ref: ('el', name, attrs, data, kids). returns None or a message"""
    _, name, attrs, data, kids = ref
    if el.tag != qname(name):
        return '%s: tag %r != %r' % (path, el.tag, qname(name))
    got = sorted(el.attrib.items())
    exp = norm_attrs(attrs)
    if got != exp:
        return '%s: attributes %r != %r' % (path, got, exp)
    if data is not None:
        if len(el):
            return '%s: leaf has children' % path
        if (el.text or '') != data:
            return '%s: text %r != %r' % (path, el.text, data)
        return None
    # container: interleaved text pieces and child elements
    pieces = [el.text or ''] + [c.tail or '' for c in el]
    ref_el = [k for k in kids if k[0] == 'el']
    if len(el) != len(ref_el):
        return '%s: %d children != %d' % (path, len(el), len(ref_el))
    # text: every ('text', t) between element i-1 and element i must appear, in order, in piece i
    idx = 0
    expect = [[]]
    for k in kids:
        if k[0] == 'el':
            expect.append([])
        else:
            expect[-1].append(k[1])
    for i, (piece, exp_lines) in enumerate(zip(pieces, expect)):
        if whitespace:
            got_lines = [l.strip(' ') for l in piece.split('\n')]
            got_lines = [l for l in got_lines if l != '']
            exp2 = [l for l in exp_lines]
            if got_lines != exp2:
                return '%s: text piece %d: %r != %r' % (path, i, got_lines, exp2)
        else:
            if piece != ''.join(exp_lines):
                return '%s: text piece %d: %r != %r' % (path, i, piece, ''.join(exp_lines))
    for i, (c, r) in enumerate(zip(el, ref_el)):
        m = compare(c, r, '%s/%s[%d]' % (path, r[1], i), whitespace)
        if m:
            return m
    return None


def dom_to_tuple(node):
    kids = []
    for c in node.childNodes:
        if c.nodeType == c.ELEMENT_NODE:
            kids.append(dom_to_tuple(c))
    attrs = sorted((node.attributes.item(i).name, node.attributes.item(i).value) for i in range(node.attributes.length))
    text = ''.join(c.data for c in node.childNodes if c.nodeType in (c.TEXT_NODE, c.CDATA_SECTION_NODE))
    return (node.tagName, attrs, text if not kids else None, kids)


def ref_to_tuple(ref):
    _, name, attrs, data, kids = ref
    ks = [ref_to_tuple(k) for k in kids if k[0] == 'el']
    return (name, sorted((n, v) for n, v in attrs if v is not None), (data or '') if not ks and data is not None else (None if ks else None), ks)


def dom_equal(d, r, path='/'):
    if d[0] != r[0]:
        return '%s dom tag %r != %r' % (path, d[0], r[0])
    if d[1] != r[1]:
        return '%s dom attrs %r != %r' % (path, d[1], r[1])
    if r[2] is not None and (d[2] or '') != r[2]:
        return '%s dom text %r != %r' % (path, d[2], r[2])
    if len(d[3]) != len(r[3]):
        return '%s dom children %d != %d' % (path, len(d[3]), len(r[3]))
    for i, (a, b) in enumerate(zip(d[3], r[3])):
        m = dom_equal(a, b, path + b[0] + '[%d]/' % i)
        if m:
            return m
    return None


_state = {}


def setup_subject():
    if _state:
        return _state
    import icontract
    from giscanner import xmlwriter

    counter = collections.Counter()

    def indent_matches_stack(self):
        counter['invariant'] += 1
        return self._indent == self._indent_unit * len(self._tag_stack)

    cls = icontract.invariant(indent_matches_stack, error=lambda self: InvariantBroken(
        'indent %r vs stack depth %r' % (self._indent, len(self._tag_stack))))(xmlwriter.XMLWriter)
    _state.update(cls=cls, counter=counter, mod=xmlwriter)
    return _state


def run_case(case):
    seed, idx, attr_mode, whitespace, depth, size = case
    st = setup_subject()
    rng = core.rng_for(seed, 'c20', idx)
    ops = gen_ops(rng, depth, attr_mode, size)
    root_attrs = [('xmlns:' + p, u) for p, u in NS.items()] + (rand_attrs(rng, attr_mode) or [])
    w = st['cls']()
    if not whitespace:
        w.disable_whitespace()
    stats = collections.Counter()
    ref_kids = []
    inv0 = st['counter']['invariant']
    escaped = False
    try:
        w.push_tag('root', root_attrs)
        try:
            apply_ops(w, ops, ref_kids, stats)
        except Boom:
            escaped = True
        # an exception that escaped all tagcontexts: everything opened by tagcontext must already be closed
        if w._tag_stack != ['root']:
            return {'fail': 'stack', 'what': 'open elements after exception unwound: %r' % (w._tag_stack,), 'ops': ops}
        w.pop_tag()
    except InvariantBroken as e:
        return {'fail': 'invariant', 'what': str(e), 'ops': ops}
    except Unspecified:
        return {'stats': {'badopen-accepted': 1}, 'inv': 0, 'bytes': 0, 'class': 'unspecified'}
    data = w.get_encoded_xml()
    text = w.get_xml()
    res = {'stats': dict(stats), 'inv': st['counter']['invariant'] - inv0, 'bytes': len(data)}
    if text.encode('utf-8') != data:
        return {'fail': 'encoding', 'what': 'get_encoded_xml() is not the utf-8 encoding of get_xml()', 'ops': ops}
    ref = ('el', 'root', [(n, v) for n, v in root_attrs if not n.startswith('xmlns:')], None, ref_kids)
    try:
        el = ET.fromstring(data)
    except ET.ParseError as e:
        return {'fail': 'wellformed', 'what': 'expat rejects the document: %s' % e, 'ops': ops, 'doc': text[:4000]}
    m = compare(el, ref, '/root', whitespace)
    if m:
        return {'fail': 'lossless', 'what': m, 'ops': ops, 'doc': text[:4000]}
    try:
        dom = minidom.parseString(data)
    except Exception as e:
        return {'fail': 'wellformed', 'what': 'minidom rejects the document: %s' % e, 'ops': ops, 'doc': text[:4000]}
    d = dom_to_tuple(dom.documentElement)
    r = ref_to_tuple(('el', 'root', root_attrs, None, ref_kids))
    m = dom_equal(d, r)
    if m:
        return {'fail': 'lossless', 'what': m, 'ops': ops, 'doc': text[:4000]}
    wrapped = '\n' in text and any(len(a or []) >= 3 for a in [root_attrs])
    # class key: what made this case non-trivial
    feats = []
    alltxt = json.dumps(ops)
    for tok, nm in (('\\"', 'dq'), ("'", 'sq'), ('<', 'lt'), ('&', 'amp'), ('\\n', 'nl'), ('\\t', 'tab'), ('\\r', 'cr'),
                    (']]>', 'cdend'), ('\\u', 'nonascii'), ('null', 'none-attr')):
        if tok in alltxt:
            feats.append(nm)
    res['class'] = '%s|ws=%d|exc=%d|esc=%d|d=%d|%s' % (attr_mode, whitespace, min(stats['raise'], 2), escaped,
                                                       min(maxdepth(ops), 8) // 2, '+'.join(feats[:6]))
    res['nontrivial'] = bool(stats['leaf'] + stats['push'] + stats['ctx'])
    if idx < 3:
        res['sample'] = {'ops': ops[:3], 'doc': text[:600]}
    return res


def maxdepth(ops):
    d = 0
    for op in ops:
        if op[0] in ('push', 'ctx'):
            d = max(d, 1 + maxdepth(op[3]))
    return d


def wrap_pair_case(case):
    """same structure written with short and with long attribute lists must denote the same tree except for the
    attributes themselves: checked through the ordinary oracle, plus a direct check on build_xml_tag()"""
    seed, idx = case
    st = setup_subject()
    rng = core.rng_for(seed, 'c20w', idx)
    attrs = rand_attrs(rng, 'long', prefix_ok=False)
    name = rand_name(rng, prefix_ok=False)
    data = rng.choice([None, '', rand_text(rng, allow_cr=False)])
    out = {}
    for indent in (0, 2, 40, 200):
        s = st['mod'].build_xml_tag(name, attrs, data, self_indent=indent)
        try:
            el = ET.fromstring(s)
        except ET.ParseError as e:
            return {'fail': 'wellformed', 'what': 'build_xml_tag: %s' % e, 'doc': s[:2000]}
        out[indent] = (el.tag, sorted(el.attrib.items()), el.text or '')
        if out[indent] != (name, norm_attrs(attrs), data or ''):
            return {'fail': 'lossless', 'what': 'build_xml_tag indent=%d: %r != %r' % (
                indent, out[indent], (name, norm_attrs(attrs), data or '')), 'doc': s[:2000]}
    wrapped = sum(1 for a, v in attrs if v is not None) > 1 and '\n ' in st['mod'].build_xml_tag(name, attrs, data, 0)
    return {'class': 'wrap-pair|wrapped=%d' % wrapped, 'nontrivial': True, 'stats': {'leaf': 4}, 'inv': 0}


def run(args):
    chk = core.Check('C20', args.tier, args.seed,
                     'random XMLWriter operation sequences (push/pop/tagcontext incl. raising bodies/write_tag/'
                     'write_comment/write_line) over XML-1.0 strings; class = (attribute-list mode, whitespace mode, '
                     'exceptions, escaped-exception, depth bucket, special-character features); non-trivial = wrote at '
                     'least one element below the root')
    n = int((6000 if args.tier == 'quick' else 400000) * args.scale)
    cases = []
    modes = ['none', 'short', 'long', 'any']
    # coverage preamble: every (mode, whitespace) pair, shallow and deep
    i = 0
    for m in modes:
        for ws in (True, False):
            for depth, size in ((1, 3), (5, 4), (60, 2)):
                cases.append((args.seed, i, m, ws, depth, size)); i += 1
    rng = core.rng_for(args.seed, 'c20-plan')
    while len(cases) < n:
        cases.append((args.seed, i, rng.choice(modes), rng.random() < 0.7, (rng.choice([20, 60]) if rng.random() < 0.02 else rng.choice([0, 1, 2, 3, 4, 6])),
                      rng.choice([1, 2, 3, 5])))
        i += 1
    cases = core.replay_cases(args, cases)
    harness_fail = 0
    inv_evals = 0

    def handle(res, case):
        nonlocal harness_fail, inv_evals
        chk.evaluations += 1
        if core.is_harness_failure(res):
            harness_fail += 1
            return
        if '_exception' in res or '_systemexit' in res:
            chk.violation('exception:' + res.get('_exception', 'SystemExit').split(':')[0],
                          'writer raised: %s' % res.get('_exception', res.get('_systemexit')),
                          {'case': case, 'tb': res.get('_tb')})
            return
        if 'fail' in res:
            chk.violation(res['fail'], res['what'], {'case': case, 'ops': res.get('ops'), 'doc': res.get('doc')})
            return
        inv_evals += res.get('inv', 0)
        for k, v in res.get('stats', {}).items():
            chk.monitor_hits['op:' + k] += v
        if res.get('nontrivial'):
            chk.cls(res['class'])
        if 'sample' in res:
            chk.sample(res['sample'])

    def batch(b):
        return [run_case(c) for c in b]

    B = 50
    batches = [cases[k:k + B] for k in range(0, len(cases), B)]
    for _, b, results in core.forkmap(batch, batches, isolated=False):
        if isinstance(results, dict):
            harness_fail += 1
            continue
        for c, r in zip(b, results):
            handle(r, c)
    wcases = [(args.seed, k) for k in range(n // 4)]
    if args.replay:
        wcases = []
    wb = [wcases[k:k + 200] for k in range(0, len(wcases), 200)]
    for _, b, results in core.forkmap(lambda bb: [wrap_pair_case(c) for c in bb], wb, isolated=False):
        if isinstance(results, dict):
            harness_fail += 1
            continue
        for c, r in zip(b, results):
            handle(r, ('wrap',) + c)
    chk.monitor_hits['invariant_indent_eq_stack'] = inv_evals
    chk.monitor_hits['parsed_by_expat_and_minidom'] = chk.evaluations
    chk.extra['harness_failures'] = harness_fail
    chk.require(inv_evals > 0, 'icontract invariant on XMLWriter never evaluated')
    chk.require(chk.monitor_hits['op:raise'] > 0, 'no tagcontext body raised')
    chk.require(harness_fail < max(3, chk.evaluations // 100), 'too many harness failures (%d)' % harness_fail)
    chk.assumptions = ['element/attribute names come from a safe NCName alphabet (names are not the subject)',
                       'comment text restricted to comment-representable text',
                       'expat and minidom are the trusted independent parsers']
    return chk.finish()
