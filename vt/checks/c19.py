"""C19 - library names resolve to the right shared objects or fail loudly.

Events : return value / SystemExit of the real giscanner.shlibs.resolve_from_ldd_output, of resolve_shlibs driven
         through options.ldd_wrapper (real subprocess path + sanitize_shlib_path) and of utils.extract_libtool_shlib.
Oracle : a reference written from the property statement with explicit character scanning (no regular
         expressions), attached to the real function as an icontract postcondition and also evaluated by the harness
         for the failing (SystemExit) path, which postconditions do not see.
"""
import sys, os, json, tempfile, collections, types, unittest, io, shutil
from .. import core

sys.path.insert(0, core.REPO)

NAMECHARS = set('abcdefghijklmnopqrstuvwxyzABCDEFGHIJKLMNOPQRSTUVWXYZ0123456789_-')


# ---- reference model -------------------------------------------------------------------------------
def satisfies(word, name):
    """word is one whitespace-separated token of the loader listing"""
    base = word[word.rfind('/') + 1:]
    pre = 'lib' + name
    if not base.startswith(pre) or len(base) == len(pre):
        return False
    return base[len(pre)] not in NAMECHARS


def listing_words(output):
    words = []
    for line in output.split('\n'):
        if line.endswith('\r'):
            line = line[:-1]
        if line.endswith(':'):
            continue
        for w in line.replace('\t', ' ').split(' '):
            if w:
                words.append(w)
    return words


def side_condition(names, output):
    for w in listing_words(output):
        if sum(1 for n in names if satisfies(w, n)) > 1:
            return False
    return len(set(names)) == len(names)


def reference(names, output):
    """-> (dict name->file or None)"""
    words = listing_words(output)
    res = {}
    for n in names:
        res[n] = None
        for w in words:
            if satisfies(w, n):
                res[n] = w
                break
    return res


class PostBroken(Exception):
    pass


_state = {}
counter = collections.Counter()


def result_matches_reference(libraries, output, result):
    counter['contract_eval'] += 1
    libs = [l for l in libraries if not os.path.isfile(l)]
    if not side_condition(libs, output) or any(c in output for c in '\x0b\x0c\x1c\x1d\x1e\x85\xa0\u2028\u2029'):
        counter['contract_skipped_side_condition'] += 1
        return True
    ref = reference(libs, output)
    if any(v is None for v in ref.values()):
        return False        # must have raised instead of returning
    return sorted(result) == sorted(ref.values())


def setup_subject():
    if _state:
        return _state
    import icontract
    from giscanner import shlibs, utils
    shlibs.resolve_from_ldd_output = icontract.ensure(
        result_matches_reference, error=lambda libraries, output, result: PostBroken(
            'resolve_from_ldd_output(%r, ...) returned %r, reference says %r' % (
                libraries, result, reference([l for l in libraries if not os.path.isfile(l)], output))))(
        shlibs.resolve_from_ldd_output)
    _state.update(shlibs=shlibs, utils=utils)
    return _state


# ---- generator -------------------------------------------------------------------------------------
BASES = ['pango', 'glib-2.0', 'gtk-3', 'foo', 'X', 'stdc++', 'sigc++-2.0', 'foo.bar', 'a*b', 'x(y', 'q[r', '^s', 't$', 'u\\v',
         'z', 'gobject-2.0', 'pangoft2', 'pango-1.0', 'c', 'm', 'foo_bar', 'Foo', 'a.b', 'a+b', 'w|v', 'k{2}', 'e?', 'barapp-1.0',
         'libfoo', 'lib', '1', 'gio-2.0']
SUFFIX_OK = ['.so', '.so.0', '.so.1.2.3', '.dylib', '.0.dylib', '.dll', '.so.0:', '.', '+.so', '.so.0.5800.3', '~', '@1', ',x', '.sl']
SUFFIX_BAD = ['', 'ft2.so', '-extra.so', '_x.so.1', '2.so', 'X.so', '-1.0.so.0', '0.so', '-.so', '_.so']
DIRS = ['', '/usr/lib/', '/usr/lib/x86_64-linux-gnu/', '@rpath/', '/opt/foo bar/'.replace(' ', '_'), './', '../lib/', '/a/b/c/',
        '/usr/lib/lib%s/', '/opt/lib%s.so/', '/lib%s-1.0/', '@loader_path/../']


def rand_name(rng):
    r = rng.random()
    if r < 0.7:
        return rng.choice(BASES)
    alphabet = 'abcxyzAZ019_-.+*([^$\\|?{}'
    return ''.join(rng.choice(alphabet) for _ in range(rng.choice([1, 2, 3, 6])))


def gen_case(rng, idx):
    style = rng.choice(['ldd', 'ldd', 'bsd', 'otool', 'wrapper'])
    nreq = rng.choice([0, 1, 1, 2, 3, 5])
    names = []
    while len(names) < nreq:
        n = rand_name(rng)
        if names and rng.random() < 0.4:
            b = rng.choice(names)
            n = rng.choice([b + '-1.0', b + 'ft2', 'lib' + b, b[:-1] or 'q', b + '.1', b + '_x', b.upper(), b + '2'])
        if n not in names and n:
            names.append(n)
    entries = []   # file paths placed in the listing
    feats = set()
    for n in names:
        r = rng.random()
        if r < 0.72:
            d = rng.choice(DIRS)
            if '%s' in d:
                d = d % n
                feats.add('dir-contains-name')
            entries.append(d + 'lib' + n + rng.choice(SUFFIX_OK))
            feats.add('present')
        else:
            feats.add('absent')
        # decoys
        for _ in range(rng.choice([0, 1, 2, 3])):
            k = rng.random()
            d = rng.choice(DIRS)
            if '%s' in d:
                d = d % n
            if k < 0.4:
                entries.append(d + 'lib' + n + rng.choice(SUFFIX_BAD)); feats.add('decoy-suffix')
            elif k < 0.6:
                entries.append(d + 'liblib' + n + rng.choice(SUFFIX_OK)); feats.add('decoy-liblib')
            elif k < 0.75:
                entries.append(d + rng.choice(['x', 'LIB', 'Lib', '_', 'l']) + 'lib' + n + '.so'); feats.add('decoy-prefix')
            elif k < 0.9:
                entries.append('/opt/lib%s.so/libother.so.1' % n); feats.add('decoy-dir')
            else:
                entries.append(d + 'lib' + n + rng.choice(SUFFIX_OK)); feats.add('duplicate')
    for _ in range(rng.choice([0, 1, 3])):
        entries.append(rng.choice(['linux-vdso.so.1', '/lib64/ld-linux-x86-64.so.2', 'libc.so.6', 'libdl.so.2',
                                   '/usr/lib/libSystem.B.dylib', 'libz.so.1']))
    rng.shuffle(entries)
    any_meta = any(c in ''.join(names) for c in '+.*([^$\\|?{}')
    if any_meta:
        feats.add('regex-meta')
    lines = []
    binary = rng.choice(['/tmp/build/g-ir-scanner-tmp/Foo-1.0', './tmp-introspect/lib%s.so.0' % (names[0] if names else 'foo'),
                         '/b/lib%s' % (names[0] if names else 'x')])
    if style in ('bsd', 'otool') or rng.random() < 0.15:
        lines.append(binary + ':')
        feats.add('header')
        if names and ('lib' + names[0]) in binary:
            feats.add('header-would-match')
    for e in entries:
        base = e[e.rfind('/') + 1:]
        if style == 'ldd':
            k = rng.random()
            if k < 0.7:
                lines.append('\t%s => %s (0x%016x)' % (base, e if '/' in e else '/usr/lib/' + e, rng.getrandbits(47)))
            elif k < 0.85:
                lines.append('\t%s (0x%016x)' % (e, rng.getrandbits(47)))
            else:
                lines.append('\t%s => not found' % base)
        elif style == 'bsd':
            lines.append('\t%s => %s (0x%x)' % (base, e, rng.getrandbits(40)))
        elif style == 'otool':
            lines.append('\t%s (compatibility version %d.0.0, current version %d.%d.0)' % (
                e, rng.randrange(9), rng.randrange(9000), rng.randrange(9)))
        else:
            lines.append(rng.choice(['%s', '  %s  ', 'libtool: execute: %s', '%s %s' % ('%s', rng.choice(entries)),
                                     'warning: something about %s here']).replace('%s', e, 1))
    if style == 'wrapper' and rng.random() < 0.5:
        lines.insert(0, 'libtool: warning: running ldd:')
    eol = rng.choice(['\n', '\n', '\r\n'])
    output = eol.join(lines) + rng.choice(['', eol])
    # enforce the quantifier's side condition: no listed file satisfies two requests
    changed = True
    while changed and not side_condition(names, output):
        changed = False
        for w in listing_words(output):
            sat = [n for n in names if satisfies(w, n)]
            if len(sat) > 1:
                names.remove(sat[-1])
                changed = True
                break
    feats.add(style)
    if eol == '\r\n':
        feats.add('crlf')
    rel = set()
    for a in names:
        for b in names:
            if a != b and b.startswith(a):
                rel.add('prefix-related')
            if a != b and b.endswith(a):
                rel.add('suffix-related')
    feats |= rel
    return {'names': names, 'output': output, 'feats': sorted(feats)}


def run_case(case):
    seed, idx = case
    st = setup_subject()
    rng = core.rng_for(seed, 'c19', idx)
    c = gen_case(rng, idx)
    names, output = c['names'], c['output']
    ref = reference(names, output)
    unresolved = [n for n, v in ref.items() if v is None]
    res = {'feats': c['feats'], 'n': len(names), 'unresolved': len(unresolved)}
    e0 = counter['contract_eval']
    try:
        got = st['shlibs'].resolve_from_ldd_output(list(names), output)
    except SystemExit as e:
        msg = str(e.code)
        res['exit'] = True
        if not unresolved:
            return dict(res, fail='spurious-failure', what='SystemExit %r although every name resolves per reference %r'
                        % (msg, ref), case=c)
        missing = [n for n in unresolved if n not in msg]
        if missing:
            return dict(res, fail='error-does-not-name-library', what='message %r does not name %r' % (msg, missing), case=c)
        return res
    except PostBroken as e:
        key = 'silent-unresolved' if unresolved else 'wrong-file'
        return dict(res, fail=key, what=str(e), case=c)
    res['contract'] = counter['contract_eval'] - e0
    if unresolved:
        return dict(res, fail='silent-unresolved', what='returned %r but %r cannot be resolved' % (got, unresolved), case=c)
    if sorted(got) != sorted(ref.values()):
        return dict(res, fail='wrong-file', what='returned %r, reference %r' % (got, ref), case=c)
    if idx < 4:
        res['sample'] = {'names': names, 'output': output, 'result': got}
    return res


def run_wrapper_case(case):
    """the real subprocess path: resolve_shlibs with options.ldd_wrapper + libtool archives"""
    seed, idx, tmpdir = case
    st = setup_subject()
    rng = core.rng_for(seed, 'c19w', idx)
    c = gen_case(rng, idx)
    names, output = [n for n in c['names'] if not n.endswith('.la')], c['output']
    d = tempfile.mkdtemp(dir=tmpdir)
    try:
        listing = os.path.join(d, 'listing.txt')
        with open(listing, 'w', newline='') as f:
            f.write(output)
        binary = os.path.join(d, 'bin')
        open(binary, 'w').close()
        # libtool archives
        las, la_expect = [], []
        for k in range(rng.choice([0, 1, 2])):
            dl = 'lib' + ''.join(rng.choice('abcXYZ019.-+_') for _ in range(rng.randrange(1, 8))) + rng.choice(['.so.0', '.so', '.dylib', '-0.dll'])
            p = os.path.join(d, 'lib%d.la' % k)
            with open(p, 'w') as f:
                f.write("# lib%d.la - a libtool library file\n# Generated by libtool\n\n# The name that we can dlopen(3).\n"
                        "dlname='%s'\n\n# Names of this library.\nlibrary_names='%s.1.2 %s'\n\nold_library='lib%d.a'\n"
                        "libdir='/usr/lib'\n" % (k, dl, dl, dl, k))
            las.append(p)
            la_expect.append(dl)
        opts = types.SimpleNamespace(ldd_wrapper=['cat', listing], nolibtool=True, libtool_path=None)
        binobj = types.SimpleNamespace(args=[binary])
        ref = reference(names, output)
        unresolved = [n for n, v in ref.items() if v is None]
        res = {'feats': c['feats'] + ['subprocess'] + (['libtool'] if las else []), 'n': len(names), 'unresolved': len(unresolved)}
        try:
            got = st['shlibs'].resolve_shlibs(opts, binobj, las + list(names))
        except SystemExit as e:
            res['exit'] = True
            if not unresolved:
                return dict(res, fail='spurious-failure', what='resolve_shlibs: SystemExit %r' % (e.code,), case=c)
            if [n for n in unresolved if n not in str(e.code)]:
                return dict(res, fail='error-does-not-name-library', what=str(e.code), case=c)
            return res
        except PostBroken as e:
            return dict(res, fail='silent-unresolved' if unresolved else 'wrong-file', what=str(e), case=c)
        if unresolved:
            return dict(res, fail='silent-unresolved', what='resolve_shlibs returned %r but %r unresolvable' % (got, unresolved), case=c)
        exp = la_expect + sorted(v[v.rfind('/') + 1:] for v in ref.values())
        if got[:len(la_expect)] != la_expect or sorted(got[len(la_expect):]) != exp[len(la_expect):]:
            return dict(res, fail='wrong-file', what='resolve_shlibs returned %r, expected base names %r' % (got, exp), case=c)
        return res
    finally:
        shutil.rmtree(d, ignore_errors=True)


def run_upstream_tests():
    """upstream's own shlibs tests with the contract switched on"""
    st = setup_subject()
    sys.path.insert(0, os.path.join(core.REPO, 'tests', 'scanner'))
    try:
        import importlib
        spec = importlib.util.spec_from_file_location('vt_test_shlibs', os.path.join(core.REPO, 'tests', 'scanner', 'test_shlibs.py'))
        mod = importlib.util.module_from_spec(spec)
        spec.loader.exec_module(mod)
    except Exception as e:
        return {'ran': 0, 'error': repr(e)}
    mod.resolve_from_ldd_output = st['shlibs'].resolve_from_ldd_output
    suite = unittest.defaultTestLoader.loadTestsFromModule(mod)
    buf = io.StringIO()
    e0 = counter['contract_eval']
    r = unittest.TextTestRunner(stream=buf, verbosity=0).run(suite)
    bad = [(str(t), tb[-600:]) for t, tb in r.errors + r.failures if 'PostBroken' in tb]
    return {'ran': r.testsRun, 'contract_evals': counter['contract_eval'] - e0, 'contract_failures': bad}


def run(args):
    chk = core.Check('C19', args.tier, args.seed,
                     'generated loader listings (ldd / BSD ldd / otool -L / wrapper styles; present, absent, decoy and '
                     'duplicate files; related and regex-metacharacter names) respecting the side condition that no listed '
                     'file satisfies two requests; class = sorted feature set of the case; non-trivial = at least one request')
    n = int((20000 if args.tier == 'quick' else 1500000) * args.scale)
    nw = int((300 if args.tier == 'quick' else 6000) * args.scale)
    cwd = tempfile.mkdtemp(prefix='vt-c19-')
    os.chdir(cwd)   # requested names must not accidentally be existing files
    try:
        cases = [(args.seed, i) for i in range(n)]
        rkind = (core.REPLAY.get('replay') or {}).get('kind') if args.replay else None
        cases = core.replay_cases(args, cases) if rkind != 'wrapper' else []
        B = 500
        batches = [cases[k:k + B] for k in range(0, len(cases), B)]
        hf = 0

        def handle(r, case, kind='direct'):
            chk.evaluations += 1
            if '_exception' in r:
                chk.violation('exception:' + r['_exception'].split(':')[0], r['_exception'], {'case': list(case[:2]), 'kind': kind, 'tb': r.get('_tb')})
                return
            if 'fail' in r:
                chk.violation(r['fail'], r['what'], {'case': list(case[:2]), 'kind': kind, 'detail': r.get('case')})
                return
            if r.get('n'):
                chk.cls('|'.join(r['feats']) + ('|exit' if r.get('exit') else ''))
            chk.monitor_hits['contract_postcondition'] += r.get('contract', 0)
            chk.monitor_hits['systemexit_oracle'] += 1 if r.get('exit') else 0
            chk.monitor_hits['resolved_oracle'] += 0 if r.get('exit') else 1
            if 'sample' in r:
                chk.sample(r['sample'])

        def safe(fn, c):
            try:
                return fn(c)
            except Exception as e:
                import traceback
                return {'_exception': type(e).__name__ + ': ' + str(e), '_tb': traceback.format_exc()[-2000:]}

        for _, b, results in core.forkmap(lambda bb: [safe(run_case, c) for c in bb], batches, isolated=False):
            if isinstance(results, dict):
                hf += 1
                continue
            for c, r in zip(b, results):
                handle(r, c)
        wcases = [(args.seed, i, cwd) for i in range(nw)]
        if args.replay:
            wcases = [(args.seed, args.replay_case[1], cwd)] if rkind == 'wrapper' else []
        wb = [wcases[k:k + 20] for k in range(0, len(wcases), 20)]
        for _, b, results in core.forkmap(lambda bb: [safe(run_wrapper_case, c) for c in bb], wb, isolated=False):
            if isinstance(results, dict):
                hf += 1
                continue
            for c, r in zip(b, results):
                handle(r, c, 'wrapper')
                chk.monitor_hits['subprocess_path'] += 1
        up = run_upstream_tests()
        chk.extra['upstream_tests_with_contract'] = up
        for t, tb in up.get('contract_failures', []):
            chk.violation('upstream-test-contract', '%s: %s' % (t, tb))
        chk.extra['harness_failures'] = hf
        chk.require(chk.monitor_hits['contract_postcondition'] > 0, 'icontract postcondition never evaluated')
        chk.require(chk.monitor_hits['systemexit_oracle'] > 0, 'no unresolved-library case produced')
        chk.require(chk.monitor_hits['subprocess_path'] > 0, 'ldd_wrapper subprocess path never driven')
        chk.require(hf == 0, 'harness failures: %d' % hf)
        chk.assumptions = ['listing lines separated by LF or CRLF, words by blanks/tabs', 'requested names contain no "/" or whitespace',
                           'character directly after lib<name> is ASCII']
        return chk.finish()
    finally:
        os.chdir('/')
        shutil.rmtree(cwd, ignore_errors=True)
