"""C05 - everything left introspectable is bindable and every reference resolves.

Events : the complete GIR of every pipeline execution this check drives (generators of C01, C02, C12, C13 plus a dedicated
         generator of exotic libraries) and every GIR file shipped or expected in the repository.
Oracle : purely structural closure rules over the document with its include closure loaded (vt/girclosure.py).
"""
import os, glob, collections
from .. import core, girx, apigen, objgen, girclosure, docgen

_st = {}
STUB_PARTIAL = ('GLib', 'GObject', 'Gio')


def setup_subject():
    if _st:
        return _st
    from .. import scan
    scan.setup()
    scan.count_entries('introspectablepass', 'IntrospectablePass',
                       ['_introspectable_param_analysis', '_type_is_introspectable', '_introspectable_callable_analysis',
                        '_introspectable_pass3', '_introspectable_property_analysis', '_introspectable_alias_analysis',
                        '_propagate_callable_skips'])
    scan.count_entries('transformer', 'Transformer', ['resolve_type', 'lookup_giname'])
    _st['scan'] = scan
    return _st


EXOTIC_TYPES = ['XyzUnknown *', 'long long', 'unsigned long long', 'long double', 'va_list', 'FooBig', 'FooSkipped *', 'FooCallback',
                'GList *', 'GSList *', 'GPtrArray *', 'GHashTable *', 'gint', 'const gchar *', 'FooRec *', 'GObject *', 'FooUnknownCb',
                'DepThing *', 'FooHiddenAlias', 'gpointer', 'GDestroyNotify', 'GAsyncReadyCallback', 'FooSkippedAlias', 'gchar **',
                'FooCallback *', 'FooRec **', 'GObject **']       # pointer forms that become out/inout parameters


def exotic_library(seed, idx):
    rng = core.rng_for(seed, 'c05x', idx)
    hdr = apigen.Source('/src/foo.h')
    src = apigen.Source('/src/foo.c')
    hdr.add(apigen.PRELUDE)
    hdr.add('typedef struct _FooEarly FooEarly;\nstruct _FooEarly {\n  gint a;\n};')
    hdr.add('typedef long long FooBig;\ntypedef struct _FooSkipped FooSkipped;\nstruct _FooSkipped {\n  gint a;\n};\n'
            'typedef XyzUnknown FooHiddenAlias;\ntypedef FooSkipped *FooSkippedAlias;')
    src.add('/**\n * FooSkipped: (skip)\n *\n * Skipped.\n */\n')
    n = rng.choice([5, 9, 14])
    for i in range(n):
        name = 'foo_exo%d' % i
        np = rng.choice([0, 1, 2, 3])
        params = [(rng.choice(EXOTIC_TYPES), 'p%d' % k) for k in range(np)]
        ret = rng.choice(['void', 'gint'] + EXOTIC_TYPES[:12])
        varargs = rng.random() < 0.15 and np > 0
        hdr.add(apigen.render_function(name, ret, params, varargs=varargs))
        if rng.random() < 0.5:
            lines = ['/**', ' * %s:%s' % (name, rng.choice(['', '', ' (skip)', ' (rename-to foo_exo0)' if i else '']))]
            for sp, pn in params:
                ann = rng.choice(['', '', '(skip)', '(scope call)', '(element-type utf8)', '(nullable)', '(type gint)', '(array length=p0)' if pn != 'p0' and params[0][0] == 'gint' else ''])
                if sp == 'GHashTable *' and rng.random() < 0.7:
                    # every combination of bindable and non-bindable key and value types
                    ann = '(element-type %s %s)' % (rng.choice(['utf8', 'gint', 'FooSkipped', 'XyzUnknown', 'FooBig', 'FooRec']),
                                                     rng.choice(['utf8', 'FooRec', 'FooSkipped', 'XyzUnknown', 'FooBig']))
                elif sp in ('FooCallback *', 'FooRec **', 'GObject **') and rng.random() < 0.8:
                    ann = rng.choice(['(out)', '(out)', '(inout)', '(out) (scope call)', '(out) (transfer none)'])
                elif sp in ('GList *', 'GSList *', 'GPtrArray *') and rng.random() < 0.7:
                    ann = '(element-type %s)' % rng.choice(['utf8', 'FooRec', 'FooSkipped', 'XyzUnknown', 'FooBig'])
                lines.append(' * @%s: %s%s' % (pn, (ann + ': ') if ann else '', 'a value'))
            lines.append(' *')
            if ret != 'void':
                lines.append(' * Returns: %s' % rng.choice(['', '(transfer none)', '(transfer full)', '(element-type utf8) (transfer container)', '(skip)']))
            lines.append(' */')
            src.add('\n'.join(lines))
    # containers whose element types are or are not bindable, one container per callable so that nothing else decides
    for k in range(3):
        cont = rng.choice(['GHashTable *', 'GHashTable *', 'GList *', 'GPtrArray *'])
        good, bad = ['utf8', 'gint', 'FooRec'], ['FooSkipped', 'XyzUnknown', 'FooBig']
        if cont == 'GHashTable *':
            et = '%s %s' % (rng.choice(good + bad[:1]), rng.choice(good + bad + bad))
        else:
            et = rng.choice(good + bad)
        as_return = rng.random() < 0.3
        name = 'foo_cont%d' % k
        if as_return:
            hdr.add(apigen.render_function(name, cont, [('gint', 'x')]))
            src.add('/**\n * %s:\n * @x: a value\n *\n * Returns: (element-type %s) (transfer none): a container\n */\n' % (name, et))
        else:
            hdr.add(apigen.render_function(name, 'void', [(cont, 'c')]))
            src.add('/**\n * %s:\n * @c: (element-type %s): a container\n */\n' % (name, et))
    # a record with exotic fields and a callback typedef with exotic parameters
    hdr.add('typedef struct _FooExoRec FooExoRec;\nstruct _FooExoRec {\n' + ''.join(
        '  %s;\n' % apigen.decl(rng.choice([t for t in EXOTIC_TYPES if t not in ('va_list',)]), 'f%d' % k) for k in range(rng.choice([2, 4, 6]))) + '};')
    hdr.add('typedef %s (*FooExoFunc) (%s);' % (rng.choice(['void', 'long long', 'FooSkipped *']), ', '.join(
        apigen.decl(rng.choice(EXOTIC_TYPES[:10]), 'a%d' % k) for k in range(rng.choice([1, 2])))))
    # a container declared early whose methods (declared later) use callback types that are only found out to be
    # non-bindable while the callables are analysed: the demotion has to travel back to the container's methods
    for k in range(rng.choice([1, 2, 3])):
        bad = rng.choice(['long long', 'unsigned long long', 'long double', 'va_list', 'FooBig', 'gint'])
        cbret = rng.choice(['void', 'void', 'gint', 'long long'])
        hdr.add('typedef %s (*FooLate%dFunc) (%s, gpointer user_data);' % (cbret, k, apigen.decl(bad, 'x')))
        owner = rng.choice(['FooEarly', 'FooEarly', 'FooExoRec', None])
        fname = 'foo_%s_late%d' % ({'FooEarly': 'early', 'FooExoRec': 'exo_rec', None: 'free'}[owner], k)
        params = ([(owner + ' *', 'self')] if owner else []) + [('FooLate%dFunc' % k, 'func'), ('gpointer', 'user_data')]
        hdr.add(apigen.render_function(fname, 'void', params))
        src.add('/**\n * %s:\n%s * @func: (scope %s): a callback\n * @user_data: data\n */\n' % (
            fname, ' * @self: the object\n' if owner else '', rng.choice(['call', 'forever'])))
    # ... and a record whose fields are of those (named) callback types: a field of a callback type that turns out
    # not to be bindable must not stay introspectable
    nlate = len([l for l in hdr.lines if l.startswith('typedef') and 'FooLate' in l])
    hdr.add('typedef struct _FooLateUser FooLateUser;\nstruct _FooLateUser {\n' + ''.join(
        '  FooLate%dFunc cb%d;\n' % (k, k) for k in range(nlate)) + '  GList *handlers;\n  gint x;\n};')
    return apigen.library(headers=[(hdr.filename, hdr.text())], sources=[(src.filename, src.text())], includes=['GObject-2.0', 'Gio-2.0', 'Dep-1.0'])


def libraries(seed, idx):
    from . import c01, c02, c13, c12, c04
    k = idx % 6
    rng = core.rng_for(seed, 'c05lib', idx)
    if k in (0, 1):
        return 'exotic', exotic_library(seed, idx)
    if k == 2:
        hdr = apigen.Source('/src/foo.h')
        src = apigen.Source('/src/foo.c')
        hdr.add(apigen.PRELUDE)
        for gi in range(4):
            g = c01.gen_group(rng, gi)
            c01.render_group(g, hdr, src, rng)
        return 'c01', apigen.library(headers=[(hdr.filename, hdr.text())], sources=[(src.filename, src.text())])
    if k == 3:
        lib = c02.gen_library(seed, idx)
        return 'c02', apigen.library(headers=[('/src/foo.h', lib['header'])], sources=[('/src/foo.c', lib['source'])])
    if k == 4:
        m = objgen.gen_objlib(rng)
        header, dump = objgen.render_objlib(m, rng)
        # accessor methods that name another property than the one they are paired with by name
        blocks = []
        for c in m['classes']:
            gp = [p['name'] for p in c['props'] if p['type'] == 'gint']
            if c['accessors'] and gp:
                us = 'foo_' + objgen.uscore(c['name'][3:])
                others = [p['name'] for p in c['props']] + ['no-such-property']
                for p in gp:
                    for acc, ann in (('get', 'get-property'), ('set', 'set-property')):
                        if rng.random() < 0.5:
                            blocks.append('/**\n * %s_%s_%s: (%s %s)\n * @self: the object\n%s *\n * Accessor.\n%s */\n' % (
                                us, acc, p.replace('-', '_'), ann, rng.choice(others), ' * @value: the value\n' if acc == 'set' else '',
                                ' *\n * Returns: the value\n' if acc == 'get' else ''))
        return 'c12', apigen.library(headers=[('/src/foo.h', header)], dump=dump, **({'sources': [('/src/foo.c', '\n'.join(blocks))]} if blocks else {}))
    lib = c13.gen_library(seed, idx)
    return 'c13', apigen.library(headers=[('/src/foo.h', lib['header'])], includes=['GLib-2.0'])


def run_case(case):
    seed, idx = case
    st = setup_subject()
    scan = st['scan']
    from . import c04
    incdir = c04.setup_subject()['incdir']
    kind, lib = libraries(seed, idx)
    lib['include_paths'] = [incdir]
    m0 = dict(scan.mech)
    r = scan.scan(lib)
    res = {'viol': [], 'classes': [], 'hits': collections.Counter()}
    replay = {'kind': kind, 'header': lib['headers'][0][1], 'source': (lib.get('sources') or [('', '')])[0][1], 'dump': lib.get('dump')}
    if r['gir'] is None:
        if r['exception']:
            res['viol'].append(('exception-in-pipeline:' + r['exception'].split(':')[0], r['exception'][:400] + r.get('traceback', '')[-800:], replay))
        return res
    try:
        root = girx.parse_string(r['gir'])
    except Exception as e:
        res['hits']['unparseable'] = 1
        return res
    incs, partial = girclosure.load_includes(root, [incdir, scan.stub_dir()])
    cl = girclosure.Closure(root, incs, set(partial) | set(STUB_PARTIAL))
    probs = cl.run()
    res['mech'] = {k: v - m0.get(k, 0) for k, v in scan.mech.items() if v - m0.get(k, 0)}
    res['hits'].update({'doc': 1})
    for k, v in cl.counts.items():
        res['hits'][k] += v
    for k, v in cl.demoted.items():
        res['hits']['demoted'] += v
        res['classes'].append('%s|demoted:%s' % (kind, k))
    seen = set()
    for key, what in probs:
        if key in seen:
            continue
        seen.add(key)
        res['viol'].append((key, what, dict(replay, gir=r['gir'][:8000])))
    res['classes'].append(kind)
    res['hits'] = dict(res['hits'])
    return res


def file_case(path):
    root = girx.parse_file(path)
    from .. import scan
    dirs = [os.path.join(core.REPO, 'gir'), os.path.join(core.REPO, 'tests', 'scanner'), scan.stub_dir()]
    incs, partial = girclosure.load_includes(root, dirs)
    # expected GIRs of the test suite are named Foo-1.0-expected.gir
    cl = girclosure.Closure(root, incs, set(partial) | set(STUB_PARTIAL))
    probs = cl.run()
    seen = set()
    viol = []
    for key, what in probs:
        if (key, what) in seen:
            continue
        seen.add((key, what))
        viol.append((key + ':' + os.path.basename(path), what, {'file': path}))
    return {'viol': viol[:20], 'classes': ['file|' + os.path.basename(path)], 'hits': dict(cl.counts, file=1)}


def run(args):
    chk = core.Check('C05', args.tier, args.seed,
                     'GIRs emitted by the real pipeline for exotic libraries (unresolved, foreign, skipped, alias-to-unbindable types, '
                     'varargs, va_list, long long, long double, callbacks without scope, element-less lists, skipped targets) and for '
                     'the generators of C01/C02/C12/C13, plus the 24 GIR files of the repository; class = (generator, kind of demotion '
                     'observed) / file; non-trivial = a document whose closure rules were evaluated')
    setup_subject()
    n = int((400 if args.tier == 'quick' else 20000) * args.scale)
    cases = [(args.seed, i) for i in range(n)]
    cases = core.replay_cases(args, cases)
    B = 6
    batches = [cases[k:k + B] for k in range(0, len(cases), B)]
    hf = []
    for _, b, results in core.forkmap(lambda bb: [run_case(c) for c in bb], batches, isolated=False):
        if isinstance(results, dict):
            hf.append(str(results)[:500])
            continue
        for c, r in zip(b, results):
            chk.evaluations += 1
            chk.merge_counts(r)
            for key, what, replay in r.get('viol', []):
                chk.violation(key, what, dict(replay, case=c))
    files = sorted(glob.glob(os.path.join(core.REPO, 'tests', 'scanner', '*-expected.gir'))) + sorted(glob.glob(os.path.join(core.REPO, 'gir', '*.gir')))
    for _, f, r in core.forkmap(file_case, files, isolated=True, timeout=300):
        chk.evaluations += 1
        if core.is_harness_failure(r) or '_exception' in r:
            hf.append(str(r)[:500])
            continue
        chk.merge_counts(r)
        for key, what, replay in r.get('viol', []):
            chk.violation(key, what, replay)
    chk.sample({'files': [os.path.basename(f) for f in files]})
    chk.extra['harness_failures'] = hf[:5]
    chk.require(chk.monitor_hits['demoted'] >= 20, 'too few demotions observed (%d): the monitor had nothing to decide' % chk.monitor_hits['demoted'])
    chk.require(chk.monitor_hits['index-reference'] > 0 and chk.monitor_hits['type-struct-reference'] > 0, 'cross references never seen')
    chk.require(chk.monitor_hits['file'] >= 20, 'repository files not checked')
    chk.require(chk.mechanism_entries['IntrospectablePass._introspectable_param_analysis'] > 0, 'IntrospectablePass never entered')
    chk.require(len(hf) <= 2, 'harness failures %r' % hf[:2])
    chk.assumptions = ['dependency namespaces GLib/GObject/Gio are stubs: references into them are only checked for membership in the include closure',
                       'types of skipped parameters are not judged']
    return chk.finish()
