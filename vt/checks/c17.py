"""C17 - requiring a namespace loads the right typelib version and its dependencies.

Events : the answers of vt/cdrv/gi-require.c - one fresh process per history, linked with the freshly built ASan+UBSan
         libgirepository - to every call of a generated history: prepend_search_path, require, require_private,
         load_typelib (from memory), get_loaded_namespaces, is_registered, get_version, get_typelib_path,
         get_immediate_dependencies, get_dependencies, enumerate_versions; sanitizer reports.
Oracle : a sequential reference model (search path list, directory contents, loaded table) executed on the same history;
         every answer must equal the model's.  The typelib files are compiled on the spot by the freshly built g-ir-compiler;
         a file's (namespace, version, dependencies) is read back with the independent decoder before it is used.
"""
import os, re, json, tempfile, shutil, collections
from .. import core, typelib, cbuild
from ..scan import GIR_HEAD
from . import c06

_st = {}
LIBDIR_TYPELIBS = '/nonexistent-verif-prefix/lib/girepository-1.0'     # vt/shim/gen/config.h


def setup_subject():
    if _st:
        return _st
    st = c06.setup_subject()
    info = st['info']
    drv = os.path.join(info['outdir'], 'gi-require')
    ok, err = cbuild.compile_driver(info, os.path.join(core.VERIF, 'vt', 'cdrv', 'gi-require.c'), drv)
    _st.update(st)
    _st.update(driver=drv if ok else None, driver_err=err, store=None)
    return _st


# ------------------------------------------------------------------------------------------------------------------
# typelib contents, compiled once per (namespace, version, dependencies) and per process

def gir_text(ns, ver, deps):
    L = [GIR_HEAD]
    for d in reversed(list(deps)):          # the compiler records the includes last to first; the order itself is not specified
        dn, dv = d.rsplit('-', 1)
        L.append('<include name="%s" version="%s"/>' % (dn, dv))
    L.append('<namespace name="%s" version="%s" c:identifier-prefixes="%s" c:symbol-prefixes="%s">' % (ns, ver, re.sub(r'\W', '', ns), re.sub(r'\W', '', ns).lower()))
    L.append('<constant name="ID" value="%s-%s" c:type="X_ID"><type name="utf8" c:type="gchar*"/></constant>' % (ns, ver))
    L.append('</namespace></repository>')
    return '\n'.join(L) + '\n'


class Store:
    def __init__(self, st, root):
        self.st, self.root, self.cache = st, root, {}
        os.makedirs(root, exist_ok=True)

    TEMPLATE_NS, TEMPLATE_VER = 'N' * 24, '88888888'
    TEMPLATE_DEPS = tuple('D%02dxxxxxxxxxxxxxxxxxxxxx-77777.7777' % k for k in range(8))

    def template(self):
        if getattr(self, '_template', None) is None:
            p = self.compile(self.TEMPLATE_NS, self.TEMPLATE_VER, self.TEMPLATE_DEPS)
            self._template = open(p, 'rb').read() if p else b''
        return self._template

    def patched(self, ns, ver, deps):
        """the compiled template with namespace, version and dependency strings overwritten in place (the repository code
        under test reads nothing else); one content in eight goes through the compiler instead"""
        import struct
        t = bytearray(self.template())
        if not t:
            return None
        o_dep, o_ns, o_ver = struct.unpack_from('<I', t, 36)[0], struct.unpack_from('<I', t, 44)[0], struct.unpack_from('<I', t, 48)[0]
        depstr = '|'.join(deps)
        if len(ns) > len(self.TEMPLATE_NS) or len(ver) > len(self.TEMPLATE_VER) or len(depstr) > len('|'.join(self.TEMPLATE_DEPS)):
            return None
        for off, text in ((o_ns, ns), (o_ver, ver), (o_dep, depstr)):
            b = text.encode() + b'\0'
            t[off:off + len(b)] = b
        if not deps:
            struct.pack_into('<I', t, 36, 0)
        d = tempfile.mkdtemp(dir=self.root)
        out = os.path.join(d, 'out.typelib')
        with open(out, 'wb') as f:
            f.write(bytes(t))
        h = typelib.Typelib(bytes(t)).header
        if (h['namespace'], h['nsversion'], list(h.get('dependencies_list') or [])) != (ns, ver, list(deps)):
            return None
        return out

    def get(self, ns, ver, deps):
        """-> path of a typelib with exactly this content, or None when it cannot be made"""
        key = (ns, ver, tuple(deps))
        if key in self.cache:
            return self.cache[key]
        import zlib
        if zlib.crc32(repr(key).encode()) % 8 == 0:
            self.cache[key] = self.compile(ns, ver, deps)
            self.n_compiled = getattr(self, 'n_compiled', 0) + 1
        else:
            self.cache[key] = self.patched(ns, ver, deps) or self.compile(ns, ver, deps)
            self.n_patched = getattr(self, 'n_patched', 0) + 1
        return self.cache[key]

    def compile(self, ns, ver, deps):
        d = tempfile.mkdtemp(dir=self.root)
        for dep in deps:
            dn, dv = dep.rsplit('-', 1)
            with open(os.path.join(d, '%s-%s.gir' % (dn, dv)), 'w') as f:
                f.write(gir_text(dn, dv, []))
        os.makedirs(os.path.join(d, 'src'))
        g = os.path.join(d, 'src', '%s-%s.gir' % (ns, ver))       # the compiler wants the file named after the namespace
        with open(g, 'w') as f:
            f.write(gir_text(ns, ver, deps))
        out = os.path.join(d, 'out.typelib')
        rc, so, se = self.st['csan'].compile_gir(self.st['info'], g, out, [d])
        path = None
        if rc == 0 and os.path.exists(out):
            tl = typelib.Typelib(open(out, 'rb').read())
            h = tl.header
            if (h['namespace'], h['nsversion'], list(h.get('dependencies_list') or [])) == (ns, ver, list(deps)):
                path = out
            elif (h['namespace'], h['nsversion'], sorted(h.get('dependencies_list') or [])) != (ns, ver, sorted(deps)):
                self.bad = getattr(self, 'bad', []) + ['compiled %s-%s deps %r reads back as %r' % (ns, ver, deps, (h['namespace'], h['nsversion'], h.get('dependencies_list')))]
        return path


# ------------------------------------------------------------------------------------------------------------------
# reference model

def parse_version(v):
    """girepository.c parse_version as documented: numeric major.minor; anything else is not a version"""
    m = re.match(r'^(\d+)(?:\.(\d+))?$', v)
    if not m:
        return None
    return (int(m.group(1)), int(m.group(2) or 0))


class Err(Exception):
    def __init__(self, code):
        self.code = code


class Model:
    def __init__(self, world, env_dirs):
        self.world = world                      # dir -> {filename: (ns, ver, deps)}   (dirs that do not exist are absent)
        self.path = list(env_dirs) + [LIBDIR_TYPELIBS]
        self.loaded = collections.OrderedDict()          # ns -> {'ver','path','deps'}
        self.ambiguous = False

    def prepend(self, d):
        self.path.insert(0, d)

    def _find_exact(self, ns, ver, path):
        fn = '%s-%s.typelib' % (ns, ver)
        for d in path:
            if fn in self.world.get(d, {}):
                return d, fn
        return None

    def versions_on(self, ns, path):
        """[(version tuple, dir index, dir, filename, version string)] of the files named <ns>-<version>.typelib"""
        out = []
        seen = set()
        for i, d in enumerate(path):
            for fn in sorted(self.world.get(d, {})):
                if not (fn.startswith(ns + '-') and fn.endswith('.typelib')):
                    continue
                vs = fn[len(ns) + 1:-len('.typelib')]
                pv = parse_version(vs)
                if pv is None or vs in seen:
                    continue
                seen.add(vs)
                out.append((pv, i, d, fn, vs))
        return out

    def _find_latest(self, ns, path):
        c = self.versions_on(ns, path)
        if not c:
            return None
        best = max(x[0] for x in c)
        cands = [x for x in c if x[0] == best]
        first = min(x[1] for x in cands)
        cands = [x for x in cands if x[1] == first]
        if len(cands) > 1:
            self.ambiguous = True           # two spellings of the same version in one directory: not specified
        return cands[0][2], cands[0][3]

    def require(self, ns, ver, path=None):
        if ns in self.loaded:
            if ver is None or self.loaded[ns]['ver'] == ver:
                return ns
            raise Err('NAMESPACE_VERSION_CONFLICT')
        path = self.path if path is None else path
        hit = self._find_exact(ns, ver, path) if ver is not None else self._find_latest(ns, path)
        if hit is None:
            raise Err('TYPELIB_NOT_FOUND')
        d, fn = hit
        cns, cver, cdeps = self.world[d][fn]
        named_ver = fn[len(ns) + 1:-len('.typelib')]
        if cns != ns or cver != named_ver:
            raise Err('NAMESPACE_MISMATCH')
        for dep in cdeps:
            dn, dv = dep.rsplit('-', 1)
            self.require(dn, dv)            # dependencies come from the global search path; an error propagates
        self.loaded[ns] = {'ver': cver, 'path': os.path.join(d, fn), 'deps': list(cdeps)}
        return ns

    def load(self, content):
        cns, cver, cdeps = content
        if cns in self.loaded:
            if self.loaded[cns]['ver'] == cver:
                return cns
            raise Err('NAMESPACE_VERSION_CONFLICT')
        for dep in cdeps:
            dn, dv = dep.rsplit('-', 1)
            self.require(dn, dv)
        self.loaded[cns] = {'ver': cver, 'path': '<builtin>', 'deps': list(cdeps)}
        return cns

    def transitive(self, ns):
        out, todo = set(), list(self.loaded[ns]['deps'])
        while todo:
            d = todo.pop()
            if d in out:
                continue
            out.add(d)
            dn = d.rsplit('-', 1)[0]
            if dn not in self.loaded:
                return None
            todo.extend(self.loaded[dn]['deps'])
        return sorted(out)

    def enumerate(self, ns):
        vs = {x[4] for x in self.versions_on(ns, self.path)}
        if ns in self.loaded:
            vs.add(self.loaded[ns]['ver'])
        return sorted(vs)


def fmt(lst):
    return '[' + ','.join(sorted(lst)) + ']'


# ------------------------------------------------------------------------------------------------------------------
# histories

NAMES = ['Alpha', 'Beta', 'Gamma', 'Delta', 'Eps', 'Zeta']
VERSIONS = ['1.0', '2.0', '1.9', '1.10', '0.5', '3', '10.1', '2.4', '0.10', '1']


def gen_world(rng, store, root):
    """-> (world dict, dirs roles, contents list) ; files are copied into real directories under root"""
    nns = rng.choice([2, 3, 3, 4, 5, 6])
    names = rng.sample(NAMES, nns)
    special = rng.random()
    if special < 0.12:
        names.append(names[0] + '-Ext')          # a namespace whose name extends another one with a dash
    elif special < 0.2:
        names.append(names[0] + 'bet')           # ... or without
    order = list(names)                           # dependencies point to earlier names only (acyclic)
    avail = {}                                    # ns -> versions that exist somewhere
    for ns in order:
        avail[ns] = rng.sample(VERSIONS, rng.choice([1, 1, 2, 2, 3, 4]))
        if rng.random() < 0.25:
            # two spellings of the numerically highest version (they can only meet in different directories, see below):
            # the earliest directory must win
            twin = rng.choice([('11', '11.0'), ('12.0', '12.00'), ('10.1', '10.01'), ('20', '20.0')])
            avail[ns] = [v for v in avail[ns] if parse_version(v) < parse_version(twin[0])][:2] + list(twin)
    contents = []
    for i, ns in enumerate(order):
        for ver in avail[ns]:
            nvar = rng.choice([1, 1, 1, 2])
            for _ in range(nvar):
                deps = []
                for dn in order[:i]:
                    if rng.random() < 0.45 and '-' not in dn:
                        r = rng.random()
                        dv = rng.choice(avail[dn]) if r < 0.85 else rng.choice(VERSIONS)     # sometimes a version nobody ships
                        deps.append('%s-%s' % (dn, dv))
                c = (ns, ver, tuple(deps))
                if c not in contents:
                    contents.append(c)
    ndirs = rng.choice([1, 2, 2, 3, 3, 4, 5])
    dirs = [os.path.join(root, 'd%d' % k) for k in range(ndirs)]
    world = {}
    missing_dir = None
    if rng.random() < 0.2:
        missing_dir = os.path.join(root, 'nonexistent')
    for d in dirs:
        os.makedirs(d)
        world[d] = {}
    for c in contents:
        src = store.get(c[0], c[1], c[2])
        if src is None:
            continue
        for d in dirs:
            if rng.random() < (0.8 if ndirs == 1 else 0.4):
                fn = '%s-%s.typelib' % (c[0], c[1])
                r = rng.random()
                if r < 0.06:
                    fn = '%s-%s.typelib' % (c[0], rng.choice(VERSIONS))              # content names another version
                elif r < 0.10:
                    fn = '%s-%s.typelib' % (rng.choice(names), c[1])                 # content names another namespace
                if fn in world[d]:
                    continue
                # two spellings of one numeric version in the same directory would make the election unspecified
                ns_of_fn, v_of_fn = fn[:-len('.typelib')].rsplit('-', 1)
                pv = parse_version(v_of_fn)
                clash = False
                for other in world[d]:
                    on, ov = other[:-len('.typelib')].rsplit('-', 1)
                    if on == ns_of_fn and parse_version(ov) == pv:
                        clash = True
                if clash:
                    continue
                shutil.copyfile(src, os.path.join(d, fn))
                world[d][fn] = (c[0], c[1], list(c[2]))
    # files that are not typelibs of the namespace at all
    for d in dirs:
        if rng.random() < 0.3:
            nm = rng.choice(names)
            junk = rng.choice(['%s-1.0.typelib.bak', '%s-1.0.gir', '%s-x.y.typelib', '%s-1.2.3.typelib', '%s.typelib', 'lib%s-1.0.typelib']) % nm
            src = store.get(names[0], avail[names[0]][0], ())
            with open(os.path.join(d, junk), 'wb') as f:
                f.write(open(src, 'rb').read() if src else b'junk')
    return world, dirs, missing_dir, names, avail, contents


def gen_history(rng, world, dirs, missing_dir, names, avail, contents, store):
    env_n = rng.choice([0, 1, 1, 2]) if len(dirs) > 1 else rng.choice([0, 1])
    env_dirs = dirs[:env_n] + ([missing_dir] if missing_dir and rng.random() < 0.5 else [])
    rest = dirs[env_n:]
    model = Model(world, env_dirs)
    script, expect = [], []

    def emit(cmd, exp):
        script.append('\t'.join(cmd))
        expect.append(exp)

    def do(cmd, fn):
        try:
            r = fn()
            emit(cmd, 'OK\t%s' % r)
        except Err as e:
            emit(cmd, 'ERR\t%s' % e.code)

    # one history in ten also uses G_IREPOSITORY_LOAD_FLAG_LAZY; what a lazily loaded namespace answers is not part of the
    # statement, so those histories are only watched by the sanitizers (model.lazy_used switches the comparison off)
    lazy_mode = rng.random() < 0.1
    model.lazy_used = False

    def flag():
        if lazy_mode and rng.random() < 0.5:
            model.lazy_used = True
            return '1'
        return '0'
    nsteps = rng.choice([3, 5, 8, 12, 20])
    to_prepend = list(rest)
    rng.shuffle(to_prepend)
    if not env_dirs and to_prepend:
        d = to_prepend.pop()
        model.prepend(d)
        emit(['prepend', d], 'OK')
    for _ in range(nsteps):
        r = rng.random()
        ns = rng.choice(names)
        if r < 0.15 and to_prepend:
            d = to_prepend.pop()
            model.prepend(d)
            emit(['prepend', d], 'OK')
        elif r < 0.2 and missing_dir:
            model.prepend(missing_dir)
            emit(['prepend', missing_dir], 'OK')
        elif r < 0.6:
            ver = None if rng.random() < 0.45 else rng.choice(avail[ns] + [rng.choice(VERSIONS)])
            do(['require', ns, ver or '-', flag()], lambda: model.require(ns, ver))
        elif r < 0.72:
            d = rng.choice(dirs)
            ver = None if rng.random() < 0.4 else rng.choice(avail[ns] + [rng.choice(VERSIONS)])
            do(['require_private', d, ns, ver or '-', flag()], lambda: model.require(ns, ver, [d]))
        elif r < 0.8:
            c = rng.choice(contents)
            src = store.get(c[0], c[1], c[2])
            if src:
                do(['load', src, flag()], lambda: model.load((c[0], c[1], list(c[2]))))
        elif r < 0.87:
            emit(['loaded'], fmt(model.loaded))
        elif r < 0.93:
            emit(['enumerate', ns], fmt(model.enumerate(ns)))
        else:
            ver = None if rng.random() < 0.5 else rng.choice(VERSIONS)
            emit(['is_registered', ns, ver or '-'], '1' if ns in model.loaded and (ver is None or model.loaded[ns]['ver'] == ver) else '0')
    # final audit of everything reported
    emit(['search_path'], '[' + ','.join(model.path) + ']')
    emit(['loaded'], fmt(model.loaded))
    for ns in names:
        emit(['is_registered', ns, '-'], '1' if ns in model.loaded else '0')
        emit(['enumerate', ns], fmt(model.enumerate(ns)))
        if ns in model.loaded:
            emit(['version', ns], model.loaded[ns]['ver'])
            emit(['path', ns], model.loaded[ns]['path'])
            emit(['ideps', ns], fmt(model.loaded[ns]['deps']))
            t = model.transitive(ns)
            if t is not None:
                emit(['deps', ns], fmt(t))
    return env_dirs, script, expect, model


def classify(cmd, exp, got):
    c = cmd.split('\t')
    op = c[0]
    if op in ('require', 'require_private'):
        ver = c[2] if op == 'require' else c[3]
        return '%s:%s:expected-%s:got-%s' % (op, 'latest' if ver == '-' else 'versioned', exp.replace('\t', '-').split('-')[0] + ('-' + exp.split('\t')[1] if exp.startswith('ERR') else ''),
                                              got.split('\t')[0] + ('-' + got.split('\t')[1] if got.startswith('ERR') and '\t' in got else ''))
    if op == 'load':
        return 'load:expected-%s:got-%s' % (exp.split('\t')[0] + ('-' + exp.split('\t')[1] if exp.startswith('ERR') else ''),
                                            got.split('\t')[0] + ('-' + got.split('\t')[1] if got.startswith('ERR') and '\t' in got else ''))
    return 'query:' + op


def run_case(case):
    seed, idx, tmpdir = case
    st = setup_subject()
    csan, info = st['csan'], st['info']
    if st['store'] is None or st['store'].root != os.path.join(tmpdir, 'store-%d' % os.getpid()):
        st['store'] = Store(st, os.path.join(tmpdir, 'store-%d' % os.getpid()))
    store = st['store']
    rng = core.rng_for(seed, 'c17', idx)
    res = {'viol': [], 'classes': [], 'hits': collections.Counter()}
    hits = res['hits']
    root = tempfile.mkdtemp(dir=tmpdir)
    try:
        world, dirs, missing_dir, names, avail, contents = gen_world(rng, store, root)
        env_dirs, script, expect, model = gen_history(rng, world, dirs, missing_dir, names, avail, contents, store)
        if model.ambiguous:
            hits['ambiguous_election_skipped'] += 1
            return res
        sp = os.path.join(root, 'script')
        with open(sp, 'w') as f:
            f.write('\n'.join(script) + '\n')
        extra = {'GI_TYPELIB_PATH': ':'.join(env_dirs)} if env_dirs else {}
        env_extra = dict(extra)
        rc, so, se = csan.run([st['driver'], sp], info, timeout=120, extra_env=env_extra or None)
        if not env_dirs:
            pass
        listing = {os.path.relpath(d, root): {fn: '%s-%s deps=%s' % (c[0], c[1], ','.join(c[2])) for fn, c in sorted(w.items())} for d, w in world.items()}
        rel = lambda s: s.replace(root + '/', '').replace(store.root + '/', 'store/')
        replay = {'dirs': listing, 'env': [rel(d) for d in env_dirs], 'script': [rel(s) for s in script]}
        for sig, text in csan.sanitizer_reports(se):
            res['viol'].append((sig, 'sanitizer report while replaying a history: ' + text[:700], replay))
        got = [l.split('\t', 1)[1] if '\t' in l else l for l in so.splitlines()]
        if rc != 0 or len(got) != len(script):
            if not csan.sanitizer_reports(se):
                res['viol'].append(('driver-died', 'history stopped after %d of %d calls (exit %s): %s' % (len(got), len(script), rc, se[-400:]), replay))
            return res
        if model.lazy_used:
            hits['lazy_histories_sanitizer_only'] += 1
            return res
        hits['histories'] += 1
        hits['typelibs_compiled'] += getattr(store, 'n_compiled', 0)
        hits['typelibs_patched_from_template'] += getattr(store, 'n_patched', 0)
        store.n_compiled = store.n_patched = 0
        for b in getattr(store, 'bad', []):
            res['viol'].append(('compiled-header-differs', b, replay))
        store.bad = []
        for k, (cmd, exp, g) in enumerate(zip(script, expect, got)):
            op = cmd.split('\t')[0]
            hits['call:' + op] += 1
            if g.startswith('HARNESS'):
                res['harness'] = g
                break
            if exp.startswith('ERR'):
                hits['expected:' + exp.split('\t')[1]] += 1
            if g != exp:
                res['viol'].append((classify(cmd, exp, g), 'call %d %r answered %r, reference model says %r' % (k, rel(cmd), rel(g), rel(exp)),
                                    dict(replay, first_divergence=k)))
                break       # after the first divergence the states differ; later answers say nothing
        else:
            hits['histories_fully_agreeing'] += 1
        res['classes'].append('dirs=%d|env=%d|ns=%d|steps=%s|loaded=%d|errors=%s' % (
            len(dirs), len(env_dirs), len(names), len(script) // 8, len(model.loaded),
            '+'.join(sorted({e.split('\t')[1] for e in expect if e.startswith('ERR')})) or 'none'))
    finally:
        shutil.rmtree(root, ignore_errors=True)
    res['hits'] = dict(hits)
    return res


def run(args):
    chk = core.Check('C17', args.tier, args.seed,
                     'generated worlds (1-5 search directories incl. a non-existent one, 2-7 namespaces - sometimes one whose name '
                     'extends another - with 1-4 versions each drawn from 1.0 2.0 1.9 1.10 0.5 3 10.1 2.4 0.10 1, acyclic dependency '
                     'lists that may name versions nobody ships, files whose name disagrees with their content, non-typelib files) and '
                     'histories of 3-20 calls (prepend, require with and without version, require_private, load from memory, queries) '
                     'followed by a full audit of what the repository reports; each history replayed in a fresh process with '
                     'GI_TYPELIB_PATH set; class = (#dirs, #env dirs, #namespaces, length, #loaded, error kinds expected); non-trivial '
                     '= history executed and compared call by call')
    st = setup_subject()
    if not st['info']['ok'] or not st['driver']:
        chk.require(False, 'build failed: %r %r' % (st['info']['errors'][:1], (st.get('driver_err') or '')[-300:]))
        return chk.finish()
    n = int((240 if args.tier == 'quick' else 12000) * args.scale)
    tmpdir = tempfile.mkdtemp(prefix='vt-c17-')
    harness = []
    try:
        cases = [(args.seed, i, tmpdir) for i in range(n)]
        cases = core.replay_cases(args, cases, lambda sd, i: (sd, i, tmpdir))
        B = 8
        batches = [cases[k:k + B] for k in range(0, len(cases), B)]
        for _, b, results in core.forkmap(lambda bb: [run_case(c) for c in bb], batches, isolated=False):
            if isinstance(results, dict):
                harness.append(str(results)[:500])
                continue
            for c, r in zip(b, results):
                chk.evaluations += 1
                chk.merge_counts(r)
                if 'harness' in r:
                    harness.append(r['harness'])
                for key, what, replay in r.get('viol', []):
                    chk.violation(key, what, dict(replay, case=[c[0], c[1]]))
    finally:
        shutil.rmtree(tmpdir, ignore_errors=True)
    chk.extra['harness_failures'] = harness[:5]
    h = chk.monitor_hits
    chk.require(h['histories'] > 0, 'no history replayed')
    for k in ('typelibs_compiled', 'call:require', 'call:require_private', 'call:load', 'call:prepend', 'call:deps', 'call:enumerate', 'call:path'):
        chk.require(h[k] > 0, 'no %s' % k)
    for k in ('TYPELIB_NOT_FOUND', 'NAMESPACE_MISMATCH', 'NAMESPACE_VERSION_CONFLICT'):
        chk.require(h['expected:' + k] > 0, 'no history expecting %s' % k)
    chk.require(len(harness) <= max(2, chk.evaluations // 40), 'harness failures: %r' % harness[:2])
    chk.assumptions = ['driver and libgirepository built against the GLib declaration shim; built-in libdir points to a non-existent prefix',
                       'one typelib content in eight is compiled on the spot by the freshly built g-ir-compiler, the others are the compiled template with the namespace, version and dependency strings overwritten in place (girepository.c reads nothing else); all are read back with the independent decoder; dependency graphs are acyclic (what '
                       'GIR includes can express); worlds with two spellings of one numeric version in the same directory are not '
                       'generated (election among them is not specified); histories using G_IREPOSITORY_LOAD_FLAG_LAZY (one in ten) are only watched for sanitizer reports and crashes']
    return chk.finish()
