"""C06 - a compiled typelib encodes exactly the API of the GIR it came from.

Events : exit status and stderr of the sanitizer-built g-ir-compiler (rebuilt from /repo's working tree), the bytes it
         wrote, sanitizer reports.
Oracle : independent decode (vt/typelib.py) + byte-level structural invariants; expected model derived from the GIR text
         (vt/tlexpect.py) compared semantically entry by entry; compiling the same GIR twice gives identical bytes.
"""
import os, sys, re, glob, random, tempfile, shutil, collections
from .. import core, girx, apigen, objgen, typelib, tlexpect, girclosure

_st = {}


def setup_subject():
    if _st:
        return _st
    from .. import scan, csan
    scan.setup()
    info = csan.build()
    _st.update(scan=scan, csan=csan, info=info)
    # two dependency namespaces that use the same simple names (cairo.Context / Pango.Context style)
    d = tempfile.mkdtemp(prefix='vt-c06-xdeps-')
    for nsn, pfx in (('Depa', 'Depa'), ('Depb', 'Depb')):
        with open(os.path.join(d, '%s-1.0.gir' % nsn), 'w') as f:
            f.write(XDEP_GIR % {'ns': nsn, 'p': pfx, 'l': pfx.lower()})
    import atexit
    pid = os.getpid()
    atexit.register(lambda: shutil.rmtree(d, ignore_errors=True) if os.getpid() == pid else None)
    _st['xdeps'] = d
    return _st


XDEP_GIR = None


def _xdep_template():
    from ..scan import GIR_HEAD
    return (GIR_HEAD + '<include name="GObject" version="2.0"/><namespace name="%(ns)s" version="1.0" c:identifier-prefixes="%(p)s" c:symbol-prefixes="%(l)s">'
            '<record name="Thing" c:type="%(p)sThing"><field name="a" writable="1"><type name="gint" c:type="gint"/></field></record>'
            '<callback name="Func" c:type="%(p)sFunc"><return-value transfer-ownership="none"><type name="none" c:type="void"/></return-value></callback>'
            '<enumeration name="Kind" c:type="%(p)sKind"><member name="a" value="0" c:identifier="%(p)s_KIND_A"/></enumeration>'
            '<class name="Base" c:type="%(p)sBase" parent="GObject.Object" glib:type-name="%(p)sBase" glib:get-type="%(l)s_base_get_type"/>'
            '<interface name="Face" c:type="%(p)sFace" glib:type-name="%(p)sFace" glib:get-type="%(l)s_face_get_type"/>'
            '</namespace></repository>\n')


XDEP_GIR = _xdep_template()


def xref_gir(rng):
    """a namespace that refers to types of two other namespaces in every position a reference can stand in; the two namespaces
    use the same simple names"""
    from ..scan import GIR_HEAD
    order = ['Depa', 'Depb']
    rng.shuffle(order)
    L = [GIR_HEAD] + ['<include name="%s" version="1.0"/>' % o for o in order] + ['<include name="GObject" version="2.0"/>',
         '<namespace name="Xr" version="1.0" c:identifier-prefixes="Xr" c:symbol-prefixes="xr">']

    def ref(nm):
        return '%s.%s' % (rng.choice(order), nm)
    for i in range(rng.choice([1, 2, 4])):
        a, b = ref('Thing'), ref('Thing')
        L.append('<function name="use%d" c:identifier="xr_use%d"><return-value transfer-ownership="none"><type name="%s" c:type="gpointer"/></return-value>'
                 '<parameters><parameter name="a" transfer-ownership="none"><type name="%s" c:type="gpointer"/></parameter>'
                 '<parameter name="b" transfer-ownership="none"><type name="%s" c:type="gpointer"/></parameter>'
                 '<parameter name="k" transfer-ownership="none"><type name="%s" c:type="gint"/></parameter>'
                 '<parameter name="f" transfer-ownership="none" scope="call"><type name="%s" c:type="gpointer"/></parameter>'
                 '<parameter name="l" transfer-ownership="none"><type name="GLib.List" c:type="GList*"><type name="%s"/></type></parameter></parameters></function>'
                 % (i, i, ref('Thing'), a, b, ref('Kind'), ref('Func'), ref('Base')))
    for i in range(rng.choice([1, 2])):
        L.append('<class name="Obj%d" c:type="XrObj%d" parent="%s" glib:type-name="XrObj%d" glib:get-type="xr_obj%d_get_type">%s'
                 '<field name="t"><type name="%s" c:type="gpointer"/></field>'
                 '<property name="p" writable="1" transfer-ownership="none"><type name="%s" c:type="gpointer"/></property></class>'
                 % (i, i, ref('Base'), i, i, ''.join('<implements name="%s"/>' % x for x in sorted(set(ref('Face') for _ in range(rng.choice([0, 1, 2]))))), ref('Thing'), ref('Base')))
    L.append('<interface name="If" c:type="XrIf" glib:type-name="XrIf" glib:get-type="xr_if_get_type">%s</interface>'
             % ''.join('<prerequisite name="%s"/>' % x for x in sorted(set([ref('Face'), ref('Base')]))))
    L.append('<record name="Rec" c:type="XrRec"><field name="a" writable="1"><type name="%s" c:type="gpointer"/></field>'
             '<field name="b" writable="1"><type name="%s" c:type="gpointer"/></field></record>' % (ref('Thing'), ref('Thing')))
    L.append('</namespace></repository>')
    return '\n'.join(L) + '\n'


def scanner_library(seed, idx, k=None):
    """-> (kind, library dict for vt.scan.scan) from one of the generators"""
    from . import c01, c02, c03, c13
    rng = core.rng_for(seed, 'c06lib', idx)
    if k is None:
        k = idx % 5
    if k == 0:
        hdr = apigen.Source('/src/foo.h')
        src = apigen.Source('/src/foo.c')
        hdr.add(apigen.PRELUDE)
        for gi in range(4):
            g = c01.gen_group(rng, gi)
            c01.render_group(g, hdr, src, rng)
        kind, lib = 'c01', apigen.library(headers=[(hdr.filename, hdr.text())], sources=[(src.filename, src.text())])
    elif k == 1:
        l = c02.gen_library(seed, idx)
        kind, lib = 'c02', apigen.library(headers=[('/src/foo.h', l['header'])], sources=[('/src/foo.c', l['source'])])
    elif k in (2, 3):
        model = objgen.gen_objlib(rng)
        header, dump = objgen.render_objlib(model, rng)
        header += '#define FOO_LIMIT 10\n#define FOO_NAME "name"\n#define FOO_RATIO 2.5\n#define FOO_FLAG TRUE\nvoid foo_free_standing (gint x);\nFooRec *foo_free_make (void);\n'
        header += c03.role_decls(model)
        targets = c03.targets_of(model, header)
        source, blocks = c03.gen_blocks(rng, targets, model)
        # arrays with every combination of length, fixed-size and zero-terminated (parameters, return values, fields)
        for i in range(rng.choice([1, 2, 3])):
            opts = rng.sample(['length=n_used', 'fixed-size=%d' % rng.choice([1, 4, 16]), 'zero-terminated=%d' % rng.choice([0, 1, 1])], rng.choice([1, 2, 3]))
            ropts = rng.choice(['fixed-size=%d' % rng.choice([2, 5]), 'zero-terminated=1', 'zero-terminated=1 fixed-size=3', 'length=n_used zero-terminated=1', 'zero-terminated=0'])
            header += 'gint *foo_arrays%d (guint8 *data, gsize n_used, gchar **names);\n' % i
            source += ('\n/**\n * foo_arrays%d:\n * @data: (array %s): bytes\n * @n_used: (%s): used\n * @names: (array %s) (nullable): names\n *\n'
                       ' * Returns: (array %s) (transfer none): numbers\n */\n' % (
                           i, ' '.join(opts), 'out' if 'length=n_used' in ropts and False else 'in', rng.choice(['zero-terminated=1', 'fixed-size=2', 'zero-terminated=1 fixed-size=3']), ropts))
        # rename-to pairs (shadows / shadowed-by): a function and a method
        header += 'void foo_shadow_base (gint x);\nvoid foo_shadow_base_full (gint x, gint y);\n'
        source += '\n/**\n * foo_shadow_base_full: (rename-to foo_shadow_base)\n * @x: x\n * @y: y\n */\n'
        for c in model['classes']:
            if c['methods'] == 2:
                us = 'foo_' + objgen.uscore(c['name'][3:])
                source += '\n/**\n * %s_method1: (rename-to %s_method0)\n * @self: self\n * @x: x\n */\n' % (us, us)
                break
        # boxed types without a C structure of their own (bare <glib:boxed>) get their constructor and a method through annotations
        for b in model['boxed']:
            if b['decl'] == 'none':
                us = 'foo_' + objgen.uscore(b['name'][3:])
                header += 'gpointer %s_new (gint a);\nvoid %s_frob (gpointer self, gint a);\n' % (us, us)
                source += ('\n/**\n * %s_new:\n * @a: a\n *\n * Returns: (type %s) (transfer full): new\n */\n'
                           '\n/**\n * %s_frob: (method)\n * @self: (type %s): self\n * @a: a\n */\n' % (us, b['name'], us, b['name']))
        kind, lib = 'obj', apigen.library(headers=[('/src/foo.h', header)], sources=[('/src/foo.c', source)], dump=dump, shared_libraries=['libfoo.so.1'])
    else:
        l = c13.gen_library(seed, idx)
        kind, lib = 'c13', apigen.library(headers=[('/src/foo.h', l['header'])], includes=['GLib-2.0'])
    return kind, lib


def scanner_gir(seed, idx):
    """a GIR produced on the spot by the real scanner pipeline from one of the generators"""
    st = setup_subject()
    kind, lib = scanner_library(seed, idx)
    r = st['scan'].scan(lib)
    return kind, r['gir']


ATTR_MUTATIONS = {
    'parameter': [('transfer-ownership', ['none', 'container', 'full']), ('direction', ['in', 'out', 'inout']), ('caller-allocates', ['0', '1']),
                  ('nullable', ['1', None]), ('optional', ['1', None]), ('allow-none', ['1', None]), ('skip', ['1', None]),
                  ('scope', ['call', 'async', 'notified', 'forever', None])],
    'return-value': [('transfer-ownership', ['none', 'container', 'full']), ('nullable', ['1', None]), ('skip', ['1', None])],
    'property': [('readable', ['0', '1', None]), ('writable', ['1', None]), ('construct', ['1', None]), ('construct-only', ['1', None]),
                 ('transfer-ownership', ['none', 'container', 'full'])],
    'field': [('readable', ['0', '1', None]), ('writable', ['1', '0', None]), ('private', ['1', None])],
    'glib:signal': [('when', ['first', 'last', 'cleanup']), ('no-recurse', ['1', None]), ('detailed', ['1', None]), ('action', ['1', None]), ('no-hooks', ['1', None])],
    'function': [('throws', ['1', None]), ('deprecated', ['1', None])],
    'method': [('throws', ['1', None]), ('deprecated', ['1', None])],
    'class': [('abstract', ['1', None]), ('final', ['1', None]), ('deprecated', ['1', None])],
}


def mutate_gir(rng, gir):
    """schema-valid attribute edits on the GIR text level (the expected model is derived from the edited text)"""
    import xml.etree.ElementTree as ET
    for p, u in (('', girx.CORE), ('c', girx.C), ('glib', girx.GLIB), ('doc', 'http://www.gtk.org/introspection/doc/1.0')):
        ET.register_namespace(p, u)
    root = ET.fromstring(gir.encode())
    nodes = [e for e in root.iter() if girx._name(e.tag) in ATTR_MUTATIONS]
    if not nodes:
        return gir
    for _ in range(rng.choice([1, 3, 8])):
        e = rng.choice(nodes)
        tag = girx._name(e.tag)
        attr, vals = rng.choice(ATTR_MUTATIONS[tag])
        v = rng.choice(vals)
        key = attr
        if attr.startswith('glib:'):
            key = '{%s}%s' % (girx.GLIB, attr[5:])
        if v is None:
            e.attrib.pop(key, None)
        else:
            e.set(key, v)
        if tag in ('parameter', 'return-value') and rng.random() < 0.2:
            a = ET.Element('{%s}attribute' % girx.CORE)
            a.set('name', 'vt.mut%d' % rng.randrange(100))
            a.set('value', rng.choice(['x', 'y z', '1']))
            e.insert(0, a)      # where the scanner's writer puts <attribute> children
    return '<?xml version="1.0"?>\n' + ET.tostring(root, encoding='unicode')


def check_typelib(st, gir_text, data, gir_path, incdirs, viol, hits, classes, kind, replay):
    try:
        tl = typelib.Typelib(data)
    except typelib.TypelibDecodeError as e:
        viol.append(('undecodable', 'typelib cannot be decoded: %s' % e, replay))
        return None
    probs = tl.validate_structure()
    hits['structure_checked'] += 1
    for p in probs[:3]:
        viol.append(('structure:' + re.sub(r'[0-9]+', 'N', p)[:50], 'byte-level invariant: %s' % p, replay))
    root = girx.parse_string(gir_text)
    incs, partial = girclosure.load_includes(root, incdirs)
    exp = tlexpect.Expect(root, incs).model()
    got = tlexpect.FromTypelib(tl).model()
    hits['entries_compared'] += len(exp['entries'])
    seen = set()
    for key, what in tlexpect.compare(exp, got):
        if key in seen:
            continue
        seen.add(key)
        viol.append((key, what, replay))
    for e in got['entries']:
        classes.append('%s|%s' % (kind, e['kind']))
        hits['blob:' + e['kind']] += 1
    return tl


def run_case(case):
    seed, idx, tmpdir, mode = case
    st = setup_subject()
    csan = st['csan']
    info = st['info']
    rng = core.rng_for(seed, 'c06', idx)
    res = {'viol': [], 'classes': [], 'hits': collections.Counter()}
    viol, hits, classes = res['viol'], res['hits'], res['classes']
    stub = st['scan'].stub_dir()
    if mode == 'scanner':
        kind, gir = scanner_gir(seed, idx)
        if gir is None:
            return res
        if rng.random() < 0.5:
            gir = mutate_gir(rng, gir)
            kind += '+mut'
        if rng.random() < 0.5:
            # the include list in every order, with includes that are also includes of includes (Gio > GObject > GLib)
            have = re.findall(r'<include name="(\w+)" version="([^"]+)"/>', gir)
            extra = [x for x in (('Gio', '2.0'), ('GObject', '2.0'), ('GLib', '2.0')) if x not in have]
            rng.shuffle(extra)
            want = have + extra[:rng.choice([1, 2, 3])]
            rng.shuffle(want)
            if have:
                first = re.search(r'[ \t]*<include name="\w+" version="[^"]+"/>\n', gir)
                body = re.sub(r'[ \t]*<include name="\w+" version="[^"]+"/>\n', '', gir)
                gir = body[:first.start()] + ''.join('  <include name="%s" version="%s"/>\n' % x for x in want) + body[first.start():]
                kind += '+inc'
                hits['include_list_permuted'] += 1
        name = 'Foo-1.0.gir'
        incdirs = [stub]
    elif mode == 'xref':
        gir = xref_gir(rng)
        kind = 'xref'
        name = 'Xr-1.0.gir'
        incdirs = [st['xdeps'], stub]
    else:
        path = mode
        gir = open(path, encoding='utf-8').read()
        kind = 'file:' + os.path.basename(path)
        name = os.path.basename(path).replace('-expected', '')
        incdirs = [os.path.join(core.REPO, 'gir'), stub]
    d = tempfile.mkdtemp(dir=tmpdir)
    try:
        gpath = os.path.join(d, name)
        with open(gpath, 'w', encoding='utf-8') as f:
            f.write(gir)
        out1 = os.path.join(d, 'out1.typelib')
        rc, so, se = csan.compile_gir(info, gpath, out1, incdirs)
        replay = {'gir': gir[:20000], 'kind': kind, 'stderr': se[-1500:]}
        hits['compiled'] += 1
        for sig, text in csan.sanitizer_reports(se):
            viol.append((sig, 'sanitizer report while compiling: ' + text[:700], replay))
        if rc != 0 or not os.path.exists(out1):
            if mode != 'scanner':
                # repository files with unavailable includes cannot be compiled here: not a verdict
                if 'Could not find GIR file' in se:
                    hits['file_skipped_missing_include'] += 1
                    return res
            if 'Could not find GIR file' in se:
                res['harness'] = 'include missing: ' + se[-200:]
                return res
            if re.search(r"Unknown (getter|setter) |type reference '[^']*' not found|required attribute '[^']*' missing|Caught NULL node|Unknown property .* for accessor|Unknown member function", se):
                # the input itself has a dangling reference / lacks a required attribute: not a valid GIR, no verdict here (C15 judges what the scanner writes)
                hits['invalid_input'] += 1
                return res
            viol.append(('compiler-rejects', 'compiler exit %s: %s' % (rc, se.strip()[-400:]), replay))
            return res
        if 'warning:' in se:
            hits['compiled_with_warnings'] += 1     # judged by C15 (scanner output must compile silently), not here
        data = open(out1, 'rb').read()
        check_typelib(st, gir, data, gpath, incdirs, viol, hits, classes, kind, replay)
        out2 = os.path.join(d, 'out2.typelib')
        rc2, so2, se2 = csan.compile_gir(info, gpath, out2, incdirs)
        if rc2 == 0 and os.path.exists(out2):
            hits['determinism_pairs'] += 1
            if open(out2, 'rb').read() != data:
                viol.append(('nondeterministic', 'two compilations of the same GIR differ', replay))
    finally:
        shutil.rmtree(d, ignore_errors=True)
    res['hits'] = dict(hits)
    return res


def repo_files():
    fs = sorted(glob.glob(os.path.join(core.REPO, 'gir', '*.gir')))
    for n in ('Headeronly', 'Identfilter', 'Symbolfilter'):
        fs.append(os.path.join(core.REPO, 'tests', 'scanner', '%s-1.0-expected.gir' % n))
    return fs


def run(args):
    chk = core.Check('C06', args.tier, args.seed,
                     'GIRs produced on the spot by the real scanner from four generators (annotated callables, un-annotated '
                     'declarations, GObject-style libraries with documentation blocks, enums/constants), half of them with random '
                     'schema-valid attribute edits (transfer, direction, nullable, flags, scope, extra <attribute>s), plus the GIR files '
                     'of the repository; compiled by the freshly built ASan+UBSan g-ir-compiler; class = (source, blob type); '
                     'non-trivial = compiled typelib decoded and compared entry by entry')
    st = setup_subject()
    if not st['info']['ok']:
        chk.require(False, 'sanitizer build failed: %r' % st['info']['errors'][:1])
        return chk.finish()
    n = int((120 if args.tier == 'quick' else 5000) * args.scale)
    tmpdir = tempfile.mkdtemp(prefix='vt-c06-')
    harness = []
    try:
        cases = [(args.seed, i, tmpdir, 'scanner') for i in range(n)] + [(args.seed, 100000 + k, tmpdir, f) for k, f in enumerate(repo_files())] + \
                [(args.seed, 200000 + k, tmpdir, 'xref') for k in range(max(4, n // 10))]
        cases = core.replay_cases(args, cases, lambda sd, i, mode: (sd, i, tmpdir, mode))
        B = 4
        batches = [cases[k:k + B] for k in range(0, len(cases), B)]
        for _, b, results in core.forkmap(lambda bb: [run_case(c) for c in bb], batches, isolated=False):
            if isinstance(results, dict):
                harness.append(str(results)[:500])
                continue
            for c, r in zip(b, results):
                chk.evaluations += 1
                chk.merge_counts(r)
                if 'harness' in r:
                    harness.append(r['harness'])
                for key, what, replay in r.get('viol', []):
                    chk.violation(key, what, dict(replay, case=[c[0], c[1], c[3]]))
    finally:
        shutil.rmtree(tmpdir, ignore_errors=True)
    chk.extra['harness_failures'] = harness[:5]
    chk.extra['build_wall_s'] = st['info'].get('wall_s')
    for k in ('function', 'callback', 'struct', 'enum', 'flags', 'object', 'interface', 'constant', 'union'):
        chk.require(chk.monitor_hits['blob:' + k] > 0, 'blob type %s never decoded' % k)
    chk.require(chk.monitor_hits['determinism_pairs'] > 0, 'determinism never compared')
    chk.require(len(harness) <= max(2, chk.evaluations // 40), 'harness failures: %r' % harness[:2])
    chk.sample({'repo_files': [os.path.basename(f) for f in repo_files()]})
    chk.assumptions = ['C code built against the hand-written GLib declaration shim and linked with the system GLib 2.74 runtime',
                       'pointer-ness of interface types (derived from c:type spelling) and struct sizes/offsets (C08) are not compared here',
                       'dependency GIRs are the harness stubs']
    return chk.finish()
