"""C14 - every typelib entry can be found by name, GType name and error domain.

Events : output of vt/cdrv/gi-lookup.c, linked with the freshly built ASan+UBSan libgirepository objects:
         (a) hash level - _gi_typelib_hash_builder_* over a generated key set packed into an exactly sized heap buffer, then
             _gi_typelib_hash_search for every member and for absent probes;
         (b) typelib level - a GIR with the generated entry names compiled by the freshly built g-ir-compiler; the typelib is
             loaded as compiled (perfect-hash directory index) and with header.sections cleared (linear fallback); for every
             probe g_typelib_get_dir_entry_by_name / _by_gtype_name / _by_error_domain / matches_gtype_name_prefix and
             g_irepository_find_by_name / find_by_gtype / find_by_error_domain.
Oracle : a Python dict over the directory decoded independently from the same bytes: members are found at exactly their index,
         absent probes are absent, GType names and error domains find the first entry carrying them, repository-level results
         name the same entry, index and linear variants agree; no sanitizer report.
"""
import os, re, json, tempfile, shutil, collections, string
from .. import core, typelib, cbuild
from ..scan import GIR_HEAD
from . import c06

_st = {}
SECTIONS_OFFSET = 96        # offsetof (Header, sections)


def setup_subject():
    if _st:
        return _st
    from . import c09
    st = c09.setup_subject()          # also provides typelibs of the stub GLib/GObject/Gio namespaces (depdir)
    info = st['info']
    drv = os.path.join(info['outdir'], 'gi-lookup')
    ok, err = cbuild.compile_driver(info, os.path.join(core.VERIF, 'vt', 'cdrv', 'gi-lookup.c'), drv)
    _st.update(st)
    _st.update(driver=drv if ok else None, driver_err=err)
    return _st


# ------------------------------------------------------------------------------------------------------------------
# key sets

IDENT_FIRST = string.ascii_letters + '_'
IDENT_REST = string.ascii_letters + string.digits + '_'


def ident(rng, lo, hi):
    n = rng.randint(lo, hi)
    return rng.choice(IDENT_FIRST) + ''.join(rng.choice(IDENT_REST) for _ in range(n - 1))


def gen_names(rng, n, style, entry_safe=False):
    """n distinct entry names (valid as XML attribute text, no tab/newline)"""
    out, seen = [], set()

    def add(s):
        if s and s not in seen and len(out) < n:
            seen.add(s)
            out.append(s)
    if style == 'short':
        alphabet = IDENT_FIRST
        k = 1
        while len(out) < n:
            if len(alphabet) ** k >= (n - len(out)) * 3 or k >= 3:
                while len(out) < n:
                    add(ident(rng, 1, k + 1))
                break
            k += 1
    elif style == 'long':
        while len(out) < n:
            add(ident(rng, 120, 300))
    elif style == 'counter':
        base = ident(rng, 3, 12)
        i = rng.randrange(1000)
        while len(out) < n:
            add('%s%d' % (base, i))
            i += 1
    elif style == 'near':
        # names differing in one character of a long common body
        base = list(ident(rng, 24, 40))
        while len(out) < n:
            b = list(base)
            for _ in range(rng.choice([1, 1, 2])):
                b[rng.randrange(1, len(b))] = rng.choice(IDENT_REST)
            add(''.join(b))
    elif style == 'prefix':
        # chains a, ab, abc, ... and their case variants
        while len(out) < n:
            s = ident(rng, 1, 2)
            for _ in range(rng.randint(2, 12)):
                add(s)
                add(s.swapcase())
                s += rng.choice(IDENT_REST)
    else:   # mixed, incl. non-ASCII
        while len(out) < n:
            r = rng.random()
            if r < 0.5:
                add(ident(rng, 1, 24))
            elif r < 0.7:
                add(ident(rng, 1, 8) + rng.choice(['-', '--', '-_'] if entry_safe else ['é', '中', '-', '.', ' ', '+']) + ident(rng, 1, 4))
            else:
                add('%s_%d' % (ident(rng, 2, 6), rng.randrange(10 ** 6)))
    rng.shuffle(out)
    return out


def absent_probes(rng, names, k):
    s = set(names)
    out = []
    tries = 0
    while len(out) < k and tries < k * 20:
        tries += 1
        b = rng.choice(names)
        r = rng.random()
        if r < 0.15:
            p = b[:-1]
        elif r < 0.3:
            p = b + rng.choice(IDENT_REST)
        elif r < 0.45:
            p = b.swapcase()
        elif r < 0.6 and len(b) > 1:
            i = rng.randrange(len(b))
            p = b[:i] + rng.choice(IDENT_REST) + b[i + 1:]
        elif r < 0.7:
            p = b + b
        elif r < 0.75:
            p = ''
        elif r < 0.8:
            p = b[1:]
        else:
            p = ident(rng, 1, 30)
        if p not in s and '\t' not in p and '\n' not in p and p not in out:
            out.append(p)
    return out


# ------------------------------------------------------------------------------------------------------------------
# (a) hash level

def hash_case(case):
    seed, idx, tmpdir, n, style = case
    st = setup_subject()
    csan, info = st['csan'], st['info']
    rng = core.rng_for(seed, 'c14hash', idx)
    res = {'viol': [], 'classes': [], 'hits': collections.Counter()}
    names = gen_names(rng, n, style)
    probes = absent_probes(rng, names, min(2000, max(20, n // 4)))
    d = tempfile.mkdtemp(dir=tmpdir)
    try:
        sp, pp = os.path.join(d, 's'), os.path.join(d, 'p')
        with open(sp, 'w', encoding='utf-8') as f:
            f.write('\n'.join(names) + '\n')
        with open(pp, 'w', encoding='utf-8') as f:
            f.write('\n'.join(probes) + '\n')
        rc, so, se = csan.run([st['driver'], 'hash', sp, pp], info, timeout=600)
        replay = {'n': n, 'style': style, 'names_head': names[:50]}
        for sig, text in csan.sanitizer_reports(se):
            res['viol'].append((sig, 'sanitizer report in the hash builder/search (n=%d, %s names): %s' % (n, style, text[:600]), replay))
        lines = so.splitlines()
        if rc != 0 or not lines or not lines[0].startswith('B\t'):
            if not csan.sanitizer_reports(se):
                res['viol'].append(('hash-driver-failed', 'hash build/search failed for n=%d (%s): exit %s %s' % (n, style, rc, se[-400:]), replay))
            return res
        b = lines[0].split('\t')
        if b[1] == '0':
            res['hits']['hash_not_buildable'] += 1
            res['classes'].append('hash|n=%s|%s|unbuildable' % (bucket(n), style))
            return res
        res['hits']['hash_built'] += 1
        res['hits']['hash_members_checked'] += n
        m = [l for l in lines if l.startswith('M\t')]
        if not m or m[0].split('\t')[1] != '0':
            res['viol'].append(('hash-member-miss', 'n=%d (%s): %s member strings are not mapped to their own value: %s' % (
                n, style, m[0].split('\t')[1] if m else '?', se[-300:]), replay))
        for l in lines:
            if l.startswith('P\t'):
                parts = l.split('\t')
                res['hits']['hash_absent_probes'] += 1
                if not (0 <= int(parts[-1]) < n):
                    res['viol'].append(('hash-slot-out-of-range', 'probe %r got value %s with n=%d' % (parts[1], parts[-1], n), replay))
        res['classes'].append('hash|n=%s|%s' % (bucket(n), style))
    finally:
        shutil.rmtree(d, ignore_errors=True)
    res['hits'] = dict(res['hits'])
    return res


def bucket(n):
    for b in (1, 2, 3, 4, 8, 16, 64, 256, 1024, 4096, 16384, 32768, 65536):
        if n <= b:
            return '<=%d' % b
    return '>65536'


# ------------------------------------------------------------------------------------------------------------------
# (b) typelib level

GTYPE_OK = re.compile(r'^[A-Za-z_][A-Za-z0-9_+-]{2,}$')


def esc(s):
    return s.replace('&', '&amp;').replace('<', '&lt;').replace('"', '&quot;').replace('>', '&gt;')


FOREIGN = ['Object', 'ParamSpec', 'InitiallyUnowned', 'Closure', 'Value']       # names of the stub GObject namespace


def gen_gir(rng, names, prefixes, foreign=()):
    """entries of mixed kinds; -> (gir text, model list of dicts in document order)"""
    L = [GIR_HEAD] + (['<include name="GObject" version="2.0"/>'] if foreign else []) + \
        ['<namespace name="Lk" version="1.0" c:identifier-prefixes="%s" c:symbol-prefixes="lk">' % prefixes]
    for k, fn in enumerate(foreign):
        # references to another namespace become non-local directory entries (bare name, after the local ones)
        L.append('<function name="uses_foreign_%d" c:identifier="lk_uses_foreign_%d"><return-value transfer-ownership="none"><type name="none" c:type="void"/></return-value>'
                 '<parameters><parameter name="o" transfer-ownership="none"><type name="GObject.%s" c:type="G%s*"/></parameter></parameters></function>' % (k, k, fn, fn))
    model = []
    used_gt, used_dom = set(), set()
    pfx = [p for p in prefixes.split(',') if p] or ['Lk']
    for i, nm in enumerate(names):
        r = rng.random()
        e = {'name': nm, 'gtype': None, 'domain': None}
        x = esc(nm)
        if r < 0.4:
            e['kind'] = 'constant'
            L.append('<constant name="%s" value="%d" c:type="LK_C%d"><type name="gint" c:type="gint"/></constant>' % (x, i, i))
        elif r < 0.6:
            e['kind'] = 'record'
            gt = ''
            if rng.random() < 0.7:
                # GType names: mostly prefix + name, sometimes with a foreign or no prefix (second pass of find_by_gtype)
                base = re.sub(r'[^A-Za-z0-9_]', '', nm) or 'T'
                cand = (rng.choice(pfx) if rng.random() < 0.8 else rng.choice(['', 'Zz', 'lk'])) + base[:1].upper() + base[1:]
                if GTYPE_OK.match(cand) and cand not in used_gt:
                    used_gt.add(cand)
                    e['gtype'] = cand
                    gt = ' glib:type-name="%s" glib:get-type="lk_t%d_get_type"' % (cand, i)
            L.append('<record name="%s" c:type="LkR%d"%s/>' % (x, i, gt))
        elif r < 0.8:
            e['kind'] = 'enumeration' if rng.random() < 0.7 else 'bitfield'
            gt = dom = ''
            if rng.random() < 0.5:
                base = re.sub(r'[^A-Za-z0-9_]', '', nm) or 'E'
                cand = rng.choice(pfx) + base[:1].upper() + base[1:] + 'E'
                if GTYPE_OK.match(cand) and cand not in used_gt:
                    used_gt.add(cand)
                    e['gtype'] = cand
                    gt = ' glib:type-name="%s" glib:get-type="lk_e%d_get_type"' % (cand, i)
            if rng.random() < 0.6:
                cand = 'lk-%s-quark' % re.sub(r'[^A-Za-z0-9_-]', '', nm).lower() if rng.random() < 0.8 else ident(rng, 1, 12)
                if cand not in used_dom:
                    used_dom.add(cand)
                    # only <enumeration> carries an error domain into the typelib lookup (BLOB_TYPE_ENUM)
                    e['domain'] = cand
                    dom = ' glib:error-domain="%s"' % cand
            L.append('<%s name="%s" c:type="LkE%d"%s%s><member name="a" value="1" c:identifier="LK_E%d_A"/></%s>' % (
                e['kind'], x, i, gt, dom, i, e['kind']))
        elif r < 0.9 and foreign:
            # the other registered kinds (GObject is included whenever there are foreign references): classes - abstract,
            # final or neither -, interfaces, registered unions, boxed types without a C declaration
            kind = rng.choice(['class', 'class', 'class', 'interface', 'union', 'glib:boxed'])
            e['kind'] = kind
            base = re.sub(r'[^A-Za-z0-9_]', '', nm) or 'T'
            cand = rng.choice(pfx) + base[:1].upper() + base[1:] + {'class': 'C', 'interface': 'I', 'union': 'U', 'glib:boxed': 'B'}[kind]
            if not GTYPE_OK.match(cand) or cand in used_gt:
                cand = 'Lk%sN%d' % ({'class': 'C', 'interface': 'I', 'union': 'U', 'glib:boxed': 'B'}[kind], i)
            used_gt.add(cand)
            e['gtype'] = cand
            gt = ' glib:type-name="%s" glib:get-type="lk_k%d_get_type"' % (cand, i)
            if kind == 'class':
                L.append('<class name="%s" c:type="LkK%d" parent="GObject.Object"%s%s/>' % (x, i, rng.choice(['', ' abstract="1"', ' abstract="1"', ' final="1"']), gt))
            elif kind == 'interface':
                L.append('<interface name="%s" c:type="LkK%d"%s/>' % (x, i, gt))
            elif kind == 'union':
                L.append('<union name="%s" c:type="LkK%d"%s><field name="a" writable="1"><type name="gint" c:type="gint"/></field></union>' % (x, i, gt))
            else:
                L.append('<glib:boxed glib:name="%s"%s/>' % (x, gt))
        else:
            e['kind'] = 'function'
            L.append('<function name="%s" c:identifier="lk_f%d"><return-value transfer-ownership="none"><type name="none" c:type="void"/></return-value></function>' % (x, i))
        model.append(e)
    L.append('</namespace></repository>')
    return '\n'.join(L) + '\n', model


def prefix_model(prefixes, gtype_name):
    """g_typelib_matches_gtype_name_prefix as documented in its comment: starts with one of the comma-separated prefixes and is
    followed by a capital letter"""
    if not prefixes:
        return False
    for p in prefixes.split(','):
        if len(gtype_name) >= len(p) and gtype_name.startswith(p) and gtype_name[len(p):len(p) + 1].isascii() \
                and gtype_name[len(p):len(p) + 1].isupper():
            return True
    return False


def typelib_case(case):
    seed, idx, tmpdir, n, style = case
    st = setup_subject()
    csan, info = st['csan'], st['info']
    rng = core.rng_for(seed, 'c14tl', idx)
    res = {'viol': [], 'classes': [], 'hits': collections.Counter()}
    viol, hits = res['viol'], res['hits']
    names = gen_names(rng, n, style, entry_safe=True)       # gitypelib.c validate_name: [A-Za-z0-9_-], at most 2047 bytes
    prefixes = rng.choice(['Lk', 'Lk', 'Lk,L', 'Lkx,Lk', 'Gdk,G', 'Lk,Other', 'Longprefix,Lk,L'])
    foreign = [f for f in rng.sample(FOREIGN, rng.choice([0, 1, 2, 4])) if f not in names]
    if n <= 3:
        foreign = []        # tiny namespaces keep exactly n entries (no perfect hash can be built for 2 keys: the index section is left out)
    if foreign and len(names) + 2 * len(foreign) + 1 > 65535:
        # the directory count is a guint16: at most 65535 entries, the non-local ones included (one per foreign type referred to,
        # and GObject.Object as the parent of the generated classes)
        names = names[:65535 - 2 * len(foreign) - 1]
    names = ['uses_foreign_%d' % k for k in range(len(foreign))] + names if foreign else names
    gir, model = gen_gir(rng, names[len(foreign):] if foreign else names, prefixes, foreign)
    model = [{'name': 'uses_foreign_%d' % k, 'gtype': None, 'domain': None, 'kind': 'function'} for k in range(len(foreign))] + model
    n = len(names)
    replay = {'n': n, 'style': style, 'prefixes': prefixes, 'gir_head': gir[:6000]}
    d = tempfile.mkdtemp(dir=tmpdir)
    try:
        gpath = os.path.join(d, 'Lk-1.0.gir')
        with open(gpath, 'w', encoding='utf-8') as f:
            f.write(gir)
        d1, d2 = os.path.join(d, 'idx'), os.path.join(d, 'lin')
        os.makedirs(d1)
        os.makedirs(d2)
        tpath = os.path.join(d1, 'Lk-1.0.typelib')
        for dd in (d1, d2):
            for fn in os.listdir(st['depdir']):
                if fn.endswith('.typelib') and not fn.startswith('Dep-'):
                    os.symlink(os.path.join(st['depdir'], fn), os.path.join(dd, fn))
        rc, so, se = csan.compile_gir(info, gpath, tpath, [st['scan'].stub_dir()] if foreign else [], timeout=900)
        for sig, text in csan.sanitizer_reports(se):
            viol.append((sig, 'sanitizer report while compiling %d entries: %s' % (n, text[:600]), replay))
        if rc != 0 or not os.path.exists(tpath):
            if not csan.sanitizer_reports(se):
                viol.append(('compile-failed', 'g-ir-compiler failed on %d distinct entries (%s names): exit %s: %s' % (n, style, rc, se[-500:]), replay))
            return res
        data = open(tpath, 'rb').read()
        try:
            tl = typelib.Typelib(data)
        except typelib.TypelibDecodeError as e:
            viol.append(('typelib-malformed', 'the compiled typelib (%d entries) cannot be decoded by the independent decoder: %s' % (n, e), replay))
            return res
        local = [e for e in tl.entries if e['local']]
        dirnames = [e['name'] for e in local]
        if sorted(dirnames) != sorted(names):
            viol.append(('directory-differs', 'directory holds %d names, GIR %d; first difference %r' % (
                len(dirnames), len(names), sorted(set(dirnames) ^ set(names))[:5]), replay))
            return res
        by_name = {nm: i + 1 for i, nm in enumerate(dirnames)}
        mod = {m['name']: m for m in model}
        by_gtype, by_domain = {}, {}
        for i, nm in enumerate(dirnames):
            m = mod[nm]
            if m['gtype'] and m['gtype'] not in by_gtype:
                by_gtype[m['gtype']] = (i + 1, nm)
            if m['domain'] and m['kind'] == 'enumeration' and m['domain'] not in by_domain:
                by_domain[m['domain']] = (i + 1, nm)
        with open(os.path.join(d2, 'Lk-1.0.typelib'), 'wb') as f:
            f.write(data[:SECTIONS_OFFSET] + b'\0\0\0\0' + data[SECTIONS_OFFSET + 4:])
        # probes
        members = names if n <= 3000 else rng.sample(names, 3000)
        P = [('N', x) for x in members] + [('N', x) for x in absent_probes(rng, names, min(1500, max(30, n // 2)))]
        # the bare names of entries that only refer to other namespaces are not entries of this namespace
        P += [('N', x) for x in foreign] + [('N', x) for x in FOREIGN if x not in names and x not in foreign][:2]
        hits['foreign_name_probes'] += len(foreign)
        gts = list(by_gtype)
        P += [('G', x) for x in (gts if len(gts) <= 300 else rng.sample(gts, 300))]
        gabs = []
        for x in gts[:100]:
            for c in (x + 'X', x[:-1], 'Zq' + x, x.swapcase()):
                if c not in by_gtype and GTYPE_OK.match(c) and c not in gabs:
                    gabs.append(c)
        for pf in prefixes.split(','):
            for tail in ('Widget', 'x11', 'W', ''):
                c = pf + tail
                if c not in by_gtype and GTYPE_OK.match(c) and c not in gabs:
                    gabs.append(c)
        P += [('G', x) for x in gabs[:200]]
        doms = list(by_domain)
        P += [('E', x) for x in (doms if len(doms) <= 300 else rng.sample(doms, 300))]
        P += [('E', x + 'x') for x in doms[:50] if x + 'x' not in by_domain] + [('E', 'no-such-domain-quark'), ('E', 'a')]
        # error domains carried by a <bitfield> are not error enumerations
        P += [('E', m['domain']) for m in model if m['domain'] and m['kind'] == 'bitfield' and m['domain'] not in by_domain][:50]
        rng.shuffle(P)
        pp = os.path.join(d, 'probes')
        with open(pp, 'w', encoding='utf-8') as f:
            f.write(''.join('%s\t%s\n' % p for p in P))
        outs = {}
        for variant, dd in (('index', d1), ('linear', d2)):
            rc, so, se = csan.run([st['driver'], 'typelib', dd, 'Lk', '1.0', pp], info, timeout=900)
            for sig, text in csan.sanitizer_reports(se):
                viol.append((sig, 'sanitizer report during lookups (%s, n=%d): %s' % (variant, n, text[:600]), replay))
            for line in se.splitlines():
                if line.startswith('INCONSISTENT '):
                    viol.append(('lookup-inconsistent', line[:300], replay))
            lines = so.split('\n')
            if rc != 0 or not lines or not lines[0].startswith('H\t'):
                if not csan.sanitizer_reports(se):
                    viol.append(('lookup-driver-failed', '%s variant: exit %s %s' % (variant, rc, se[-400:]), replay))
                continue
            h = lines[0].split('\t')
            has_index = h[2] == '1'
            if variant == 'linear' and has_index:
                res['harness'] = 'stripped copy still has an index'
                continue
            hits['variant:%s:%s' % (variant, 'hashed' if has_index else 'linear-scan')] += 1
            if int(h[1]) != n:
                viol.append(('n-local-entries', 'header says %s local entries, %d compiled' % (h[1], n), replay))
            got = [l.split('\t') for l in lines[1:] if l]
            if len(got) != len(P):
                res['harness'] = 'driver answered %d of %d probes' % (len(got), len(P))
                continue
            outs[variant] = got
            for (k, probe), g in zip(P, got):
                if g[0] != k or g[1] != probe:
                    res['harness'] = 'probe echo mismatch %r vs %r' % ((k, probe), g[:2])
                    break
                tag = variant + ('' if has_index or variant == 'linear' else '-noindex')
                if k == 'N':
                    exp = by_name.get(probe, -1)
                    hits['name_probe_present' if exp > 0 else 'name_probe_absent'] += 1
                    if int(g[2]) != exp:
                        viol.append(('by-name:%s:%s' % (tag, 'member-not-found' if exp > 0 and int(g[2]) < 0 else ('absent-found' if exp < 0 else 'wrong-entry')),
                                     'g_typelib_get_dir_entry_by_name(%r) -> entry %s (%r), directory has it at %s [n=%d, %s]' % (
                                         probe, g[2], g[3], exp, n, variant), replay))
                    elif exp > 0 and g[3] != probe:
                        viol.append(('by-name:%s:wrong-name' % tag, 'entry found for %r is named %r' % (probe, g[3]), replay))
                    if g[4] != (probe if exp > 0 else '-'):
                        viol.append(('find-by-name:%s' % tag, 'g_irepository_find_by_name(%r) -> %r, expected %r' % (probe, g[4], probe if exp > 0 else '-'), replay))
                elif k == 'G':
                    exp = by_gtype.get(probe, (-1, '-'))
                    hits['gtype_probe_present' if exp[0] > 0 else 'gtype_probe_absent'] += 1
                    if int(g[2]) != exp[0]:
                        viol.append(('by-gtype-name:%s' % tag, 'g_typelib_get_dir_entry_by_gtype_name(%r) -> entry %s (%r), expected %r' % (probe, g[2], g[3], exp), replay))
                    if g[4] != exp[1]:
                        viol.append(('find-by-gtype:%s' % tag, 'g_irepository_find_by_gtype(%r) -> %r, typelib lookup says %r' % (probe, g[4], exp[1]), replay))
                    pm = prefix_model(prefixes, probe)
                    hits['prefix_%s' % ('match' if pm else 'nomatch')] += 1
                    if (g[5] == '1') != pm:
                        viol.append(('gtype-prefix', 'g_typelib_matches_gtype_name_prefix(%r) with c_prefix %r -> %s, expected %s' % (probe, prefixes, g[5], int(pm)), replay))
                else:
                    exp = by_domain.get(probe, (-1, '-'))
                    hits['domain_probe_present' if exp[0] > 0 else 'domain_probe_absent'] += 1
                    if int(g[2]) != exp[0]:
                        viol.append(('by-error-domain:%s' % tag, 'g_typelib_get_dir_entry_by_error_domain(%r) -> entry %s (%r), expected %r' % (probe, g[2], g[3], exp), replay))
                    if g[4] != exp[1]:
                        viol.append(('find-by-error-domain:%s' % tag, 'g_irepository_find_by_error_domain(%r) -> %r, expected %r' % (probe, g[4], exp[1]), replay))
        if n <= 3000 and 'index' in outs:
            # histories of the repository-level GType lookup: every GType probe is looked up once before the namespace is
            # loaded (nothing may be found, and the miss must not stick), the namespace is then loaded lazily or not
            for hist in ('e', 'le'):
                rc, so, se = csan.run([st['driver'], 'typelib', d1, 'Lk', '1.0', pp, hist], info, timeout=900)
                for sig, text in csan.sanitizer_reports(se):
                    viol.append((sig, 'sanitizer report during lookups (history %s, n=%d): %s' % (hist, n, text[:600]), replay))
                lines = so.split('\n')
                xs = [l.split('\t') for l in lines[1:] if l.startswith('X\t')]
                got = [l.split('\t') for l in lines[1:] if l and not l.startswith('X\t')]
                if rc != 0 or len(got) != len(P):
                    if not csan.sanitizer_reports(se):
                        viol.append(('lookup-driver-failed', 'history %s: exit %s, %d answers %s' % (hist, rc, len(got), se[-300:]), replay))
                    continue
                hits['history:' + ('lazy-load' if 'l' in hist else 'load') + '-after-early-miss'] += 1
                for x in xs:
                    if x[2] != '-':
                        viol.append(('find-by-gtype:before-load', 'g_irepository_find_by_gtype(%r) found %r before the namespace was loaded' % (x[1], x[2]), replay))
                for (k, probe), g in zip(P, got):
                    if k == 'G':
                        exp = by_gtype.get(probe, (-1, '-'))
                        hits['gtype_probe_after_early_miss'] += 1
                        if g[4] != exp[1]:
                            viol.append(('find-by-gtype:after-early-miss:' + ('lazy' if 'l' in hist else 'loaded'),
                                         'g_irepository_find_by_gtype(%r) -> %r after the namespace was loaded%s (it had been looked up, and missed, before); the '
                                         'typelib-level lookup finds %r' % (probe, g[4], ' lazily' if 'l' in hist else '', exp[1]), replay))
                            break
        if n > 3000:
            # with the index every single member is looked up (the linear scan is quadratic, it gets the sample above)
            pa = os.path.join(d, 'allnames')
            with open(pa, 'w', encoding='utf-8') as f:
                f.write(''.join('N\t%s\n' % x for x in names))
            rc, so, se = csan.run([st['driver'], 'typelib', d1, 'Lk', '1.0', pa], info, timeout=900)
            for sig, text in csan.sanitizer_reports(se):
                viol.append((sig, 'sanitizer report during lookups (all members, n=%d): %s' % (n, text[:600]), replay))
            got = [l.split('\t') for l in so.split('\n')[1:] if l]
            if rc != 0 or len(got) != n:
                if not csan.sanitizer_reports(se):
                    viol.append(('lookup-driver-failed', 'all-members pass: exit %s, %d answers for %d names %s' % (rc, len(got), n, se[-300:]), replay))
            else:
                for nm, g in zip(names, got):
                    hits['name_probe_present'] += 1
                    if int(g[2]) != by_name[nm] or g[3] != nm or g[4] != nm:
                        viol.append(('by-name:index:' + ('member-not-found' if int(g[2]) < 0 else 'wrong-entry'),
                                     'all-members pass: %r -> entry %s (%r) / find_by_name %r, directory has it at %d [n=%d]' % (nm, g[2], g[3], g[4], by_name[nm], n), replay))
                        break
                hits['all_members_passes'] += 1
        if 'index' in outs and 'linear' in outs and outs['index'] != outs['linear']:
            k = next(i for i, (a, b) in enumerate(zip(outs['index'], outs['linear'])) if a != b)
            viol.append(('index-vs-linear', 'probe %r: with index %r, linear %r' % (P[k], outs['index'][k], outs['linear'][k]), replay))
        if 'index' in outs and 'linear' in outs:
            hits['typelibs_compared'] += 1
            res['classes'].append('typelib|n=%s|%s|prefixes=%d' % (bucket(n), style, prefixes.count(',') + 1))
    finally:
        shutil.rmtree(d, ignore_errors=True)
    seen, out = set(), []
    for v in viol:          # one witness per mechanism and case
        if v[0] not in seen:
            seen.add(v[0])
            out.append(v)
    res['viol'] = out
    res['hits'] = dict(hits)
    return res


STYLES = ['short', 'long', 'counter', 'near', 'prefix', 'mixed']


def run(args):
    chk = core.Check('C14', args.tier, args.seed,
                     'key sets of 1..65535 distinct names in six styles (1-3 character names, 120-300 character names, '
                     'base+counter, single-character variations of one long body, prefix chains with case variants, mixed incl. '
                     'non-ASCII) fed (a) to the perfect-hash builder/packer/search directly and (b) through g-ir-compiler into '
                     'a typelib looked up with its directory index and with the index removed; probes: all members (sampled '
                     'above 3000), absent strings derived from members (truncated, extended, case-swapped, one character '
                     'changed, doubled, empty) and random ones, GType names with matching/foreign/no prefix, error domains; '
                     'class = (level, size bucket, name style); non-trivial = members and absent probes answered')
    st = setup_subject()
    if not st['info']['ok'] or not st['driver']:
        chk.require(False, 'build failed: %r %r' % (st['info']['errors'][:1], (st.get('driver_err') or '')[-300:]))
        return chk.finish()
    quick = args.tier == 'quick'
    rng = core.rng_for(args.seed, 'c14plan')
    tmpdir = tempfile.mkdtemp(prefix='vt-c14-')
    harness = []
    try:
        sizes_h = [1, 2, 3, 4, 5, 7, 16, 100, 1000, 5000] + ([20000, 40000] if quick else [20000, 30000, 40000, 50000, 65535, 65536])
        nh = int((60 if quick else 600) * args.scale)
        hcases = []
        for k in range(nh):
            n = sizes_h[k % len(sizes_h)] if k < 2 * len(sizes_h) else rng.choice([rng.randint(1, 40), rng.randint(1, 2000), rng.randint(1, 65536) if not quick else rng.randint(1, 20000)])
            hcases.append((args.seed, k, tmpdir, n, STYLES[(k // len(sizes_h) + k) % len(STYLES)] if k < 2 * len(sizes_h) else rng.choice(STYLES)))
        sizes_t = [1, 2, 3, 5, 17, 200, 3000, 30000] + ([] if quick else [12000, 50000, 65535])
        nt = int((24 if quick else 200) * args.scale)
        tcases = []
        for k in range(nt):
            n = sizes_t[k % len(sizes_t)] if k < len(sizes_t) else rng.choice([rng.randint(1, 30), rng.randint(1, 600), rng.randint(1, 4000 if quick else 20000)])
            tcases.append((args.seed, 100000 + k, tmpdir, n, rng.choice(STYLES)))
        if args.replay:
            rr = (core.REPLAY.get('replay') or {})
            rc = rr.get('case')
            hcases = [tuple(rc[:2]) + (tmpdir,) + tuple(rc[2:])] if rc and rc[1] < 100000 else []
            tcases = [tuple(rc[:2]) + (tmpdir,) + tuple(rc[2:])] if rc and rc[1] >= 100000 else []
        # big cases first so that the pool is not left waiting for one straggler
        allcases = sorted([('h', c) for c in hcases] + [('t', c) for c in tcases], key=lambda x: -x[1][3] * (3 if x[0] == 't' else 1))

        def one(x):
            return hash_case(x[1]) if x[0] == 'h' else typelib_case(x[1])
        for _, x, r in core.forkmap(one, allcases, isolated=False):
            if '_exception' in r or core.is_harness_failure(r):
                harness.append(str(r)[:500])
                continue
            chk.evaluations += 1
            chk.merge_counts(r)
            if 'harness' in r:
                harness.append(r['harness'])
            c = x[1]
            for key, what, replay in r.get('viol', []):
                chk.violation(key, what, dict(replay, case=[c[0], c[1], c[3], c[4]]))
    finally:
        shutil.rmtree(tmpdir, ignore_errors=True)
    chk.extra['harness_failures'] = harness[:5]
    h = chk.monitor_hits
    chk.require(h['hash_built'] > 0 and h['hash_absent_probes'] > 0, 'hash level never exercised')
    chk.require(h['typelibs_compared'] > 0, 'no typelib looked up with and without index')
    chk.require(h['variant:index:hashed'] > 0, 'no compiled typelib carried a directory index')
    chk.require(h['variant:linear:linear-scan'] > 0, 'linear fallback never exercised')
    if args.scale >= 1 and not args.replay:
        chk.require(h['variant:index:linear-scan'] > 0, 'no compiled typelib without a directory index (2-entry namespace) was looked up')
    chk.require(h['gtype_probe_after_early_miss'] > 0, 'no GType lookup history with an early miss')
    for k in ('name_probe_present', 'name_probe_absent', 'gtype_probe_present', 'gtype_probe_absent', 'domain_probe_present',
              'domain_probe_absent', 'prefix_match', 'prefix_nomatch'):
        chk.require(h[k] > 0, 'no %s' % k)
    chk.require(len(harness) <= max(2, chk.evaluations // 40), 'harness failures: %r' % harness[:2])
    chk.assumptions = ['driver and libgirepository built against the GLib declaration shim; GTypes for GType-name probes are registered '
                       'with g_pointer_type_register_static in the driver; the linear variant is the same file with header.sections '
                       'cleared; expectation from the independent decoder (vt/typelib.py)']
    return chk.finish()
