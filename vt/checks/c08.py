"""C08 - record and union layout stored in typelibs equals the platform C ABI.

Events : StructBlob/UnionBlob size and alignment, FieldBlob.struct_offset, EnumBlob.storage_type decoded from the typelib the
         freshly built sanitizer g-ir-compiler writes; sizeof/_Alignof/offsetof/enum width+signedness printed by a gcc-compiled
         probe for the same declarations.
Oracle : equality, member by member; a compound with a member of unknown size must be recorded with unknown layout
         (size 0 / offset 0xFFFF), never with numbers that differ from gcc's.
"""
import os, re, subprocess, tempfile, shutil, collections
from .. import core, typelib
from ..scan import GIR_HEAD

BASIC = [('gint8', 'gint8'), ('guint8', 'guint8'), ('gint16', 'gint16'), ('guint16', 'guint16'), ('gint32', 'gint32'), ('guint32', 'guint32'),
         ('gint64', 'gint64'), ('guint64', 'guint64'), ('gchar', 'gchar'), ('guchar', 'guchar'), ('gshort', 'gshort'), ('gushort', 'gushort'),
         ('gint', 'gint'), ('guint', 'guint'), ('glong', 'glong'), ('gulong', 'gulong'), ('gsize', 'gsize'), ('gssize', 'gssize'),
         ('gintptr', 'gintptr'), ('guintptr', 'guintptr'), ('gboolean', 'gboolean'), ('gunichar', 'gunichar'), ('GType', 'GType'),
         ('gfloat', 'gfloat'), ('gdouble', 'gdouble')]
ENUM_RANGES = {'le127': [0, 1, 127], 'le255': [0, 128, 255], 'le32767': [0, 256, 32767], 'le65535': [1, 32768, 65535],
               'leINTMAX': [0, 65536, 2147483647], 'gtINTMAX': [0, 2147483648, 4294967295], 'neg8': [-1, -128, 127], 'neg16': [-129, -32768, 5],
               'neg32': [-32769, -2147483648, 7], 'big64': [0, 1 << 33], 'negbig64': [-(1 << 40), 3]}

_st = {}


def setup_subject():
    if _st:
        return _st
    from .. import csan
    info = csan.build()
    _st.update(csan=csan, info=info)
    return _st


def gen_file(seed, idx, ncomp, hostile=False):
    rng = core.rng_for(seed, 'c08', idx)
    enums = []
    for i, (cls, vals) in enumerate(sorted(ENUM_RANGES.items())):
        vs = list(vals)
        if rng.random() < 0.5:
            vs = vs[:rng.choice([1, 2, len(vs)])]
            if cls.startswith('neg') or cls.startswith('big') or cls.startswith('gt') or cls.startswith('le'):
                # keep the value that decides the class
                decisive = max(vals, key=abs) if not cls.startswith('neg') else min(vals)
                if decisive not in vs:
                    vs.append(decisive)
        enums.append({'name': 'E%d' % i, 'cls': cls, 'values': vs})
    comps = []
    for ci in range(ncomp):
        kind = 'union' if rng.random() < 0.25 else 'struct'
        nf = rng.choice([1, 2, 3, 4, 6, 9])
        fields = []
        unknown = False
        for fi in range(nf):
            r = rng.random()
            f = {'name': 'f%d' % fi}
            if r < 0.40:
                f.update(k='basic', t=rng.choice(BASIC)[0])
            elif r < 0.50:
                f.update(k='pointer', t=rng.choice(['gpointer', 'utf8', 'basicptr', 'structptr']))
            elif r < 0.62:
                f.update(k='enum', e=rng.choice(enums)['name'])
            elif r < 0.74:
                base = rng.random()
                if base < 0.7 or not comps:
                    f.update(k='array', elem=('basic', rng.choice(BASIC)[0]), n=rng.choice([1, 2, 3, 7, 16]))
                else:
                    cands = [c for c in comps if not c['unknown']]
                    if cands:
                        f.update(k='array', elem=('comp', rng.choice(cands)['name']), n=rng.choice([1, 2, 5]))
                    else:
                        f.update(k='basic', t='gint')
            elif r < 0.88 and comps:
                depth_ok = [c for c in comps if c['depth'] < 4]
                c = rng.choice(depth_ok or comps)
                f.update(k='comp', c=c['name'])
                if c['unknown']:
                    unknown = True
            elif r < 0.94:
                f.update(k='callback', inline=(rng.random() < 0.5) and (kind == 'struct' or hostile))
            elif r < 0.97:
                f.update(k='arrayptr')
            else:
                f.update(k='basic', t=rng.choice(BASIC)[0])
            fields.append(f)
        depth = 1 + max([next(c['depth'] for c in comps if c['name'] == f['c']) for f in fields if f['k'] == 'comp'] + [0])
        comps.append({'name': 'C%d' % ci, 'kind': kind, 'fields': fields, 'unknown': unknown, 'depth': depth})
    if hostile and rng.random() < 0.5:
        c = comps[-1]
        c['fields'].append({'name': 'fx', 'k': 'unknown', 'how': 'void'})
        c['unknown'] = True
    return enums, comps


def ctype_of(f):
    k = f['k']
    if k == 'basic':
        return f['t'], ''
    if k == 'pointer':
        return {'gpointer': 'gpointer', 'utf8': 'gchar *', 'basicptr': 'gint *', 'structptr': 'LayOpaque *'}[f['t']], ''
    if k == 'enum':
        return 'Lay' + f['e'], ''
    if k == 'array':
        e = f['elem'][1] if f['elem'][0] == 'basic' else 'Lay' + f['elem'][1]
        return e, '[%d]' % f['n']
    if k == 'comp':
        return 'Lay' + f['c'], ''
    if k == 'callback':
        return ('@inline' if f['inline'] else 'LayCb'), ''
    if k == 'arrayptr':
        return 'gint *', ''
    return None, ''


def render_c(enums, comps):
    L = ['#include <stdio.h>', '#include <stddef.h>', '#include <glib.h>', '#include <glib-object.h>', 'typedef struct _LayOpaque LayOpaque;', 'typedef void (*LayCb) (gint x);']
    for e in enums:
        L.append('typedef enum { %s } Lay%s;' % (', '.join('LAY_%s_V%d = %s' % (e['name'], i, ('%dLL' % v) if abs(v) > 2147483647 else str(v)) for i, v in enumerate(e['values'])), e['name']))
    for c in comps:
        if c['unknown']:
            continue
        L.append('typedef %s _Lay%s Lay%s;' % (c['kind'], c['name'], c['name']))
        L.append('%s _Lay%s {' % (c['kind'], c['name']))
        for f in c['fields']:
            t, suf = ctype_of(f)
            if t == '@inline':
                L.append('  void (*%s) (gint a, gpointer b);' % f['name'])
            else:
                L.append('  %s%s%s%s;' % (t, '' if t.endswith('*') else ' ', f['name'], suf))
        L.append('};')
    L.append('int main (void) {')
    for e in enums:
        L.append('  printf ("E %s %%zu %%d\\n", sizeof (Lay%s), (int) ((Lay%s) -1 < 0));' % (e['name'], e['name'], e['name']))
    for c in comps:
        if c['unknown']:
            continue
        offs = ''.join(' %zu' for _ in c['fields'])
        args = ''.join(', offsetof (Lay%s, %s)' % (c['name'], f['name']) for f in c['fields'])
        L.append('  printf ("C %s %%zu %%zu%s\\n", sizeof (Lay%s), (size_t) _Alignof (Lay%s)%s);' % (c['name'], offs, c['name'], c['name'], args))
    L.append('  return 0;\n}')
    return '\n'.join(L) + '\n'


def gir_type(f):
    k = f['k']
    if k == 'basic':
        return '<type name="%s" c:type="%s"/>' % (f['t'], f['t'])
    if k == 'pointer':
        return {'gpointer': '<type name="gpointer" c:type="gpointer"/>', 'utf8': '<type name="utf8" c:type="gchar*"/>',
                'basicptr': '<type name="gint" c:type="gint*"/>', 'structptr': '<type name="Opaque" c:type="LayOpaque*"/>'}[f['t']]
    if k == 'enum':
        return '<type name="%s" c:type="Lay%s"/>' % (f['e'], f['e'])
    if k == 'array':
        if f['elem'][0] == 'basic':
            et = '<type name="%s" c:type="%s"/>' % (f['elem'][1], f['elem'][1])
        else:
            et = '<type name="%s" c:type="Lay%s"/>' % (f['elem'][1], f['elem'][1])
        return '<array zero-terminated="0" fixed-size="%d">%s</array>' % (f['n'], et)
    if k == 'comp':
        return '<type name="%s" c:type="Lay%s"/>' % (f['c'], f['c'])
    if k == 'callback':
        if f['inline']:
            return ('<callback name="%s"><return-value transfer-ownership="none"><type name="none" c:type="void"/></return-value><parameters>'
                    '<parameter name="a" transfer-ownership="none"><type name="gint" c:type="gint"/></parameter>'
                    '<parameter name="b" transfer-ownership="none"><type name="gpointer" c:type="gpointer"/></parameter></parameters></callback>' % f['name'])
        return '<type name="Cb" c:type="LayCb"/>'
    if k == 'arrayptr':
        return '<array zero-terminated="0" c:type="gint*"><type name="gint" c:type="gint"/></array>'
    return {'void': '<type name="none" c:type="void"/>', 'list-by-value': '<type name="GLib.List" c:type="GList"><type name="gpointer"/></type>'}[f['how']]


def render_gir(enums, comps):
    L = [GIR_HEAD, '<namespace name="Lay" version="1.0" c:identifier-prefixes="Lay" c:symbol-prefixes="lay">',
         '<record name="Opaque" c:type="LayOpaque" disguised="1" opaque="1"/>',
         '<callback name="Cb" c:type="LayCb"><return-value transfer-ownership="none"><type name="none" c:type="void"/></return-value><parameters>'
         '<parameter name="x" transfer-ownership="none"><type name="gint" c:type="gint"/></parameter></parameters></callback>']
    for e in enums:
        L.append('<enumeration name="%s" c:type="Lay%s">%s</enumeration>' % (e['name'], e['name'], ''.join(
            '<member name="v%d" value="%d" c:identifier="LAY_%s_V%d"/>' % (i, v, e['name'], i) for i, v in enumerate(e['values']))))
    for c in comps:
        tag = 'record' if c['kind'] == 'struct' else 'union'
        L.append('<%s name="%s" c:type="Lay%s">' % (tag, c['name'], c['name']))
        for f in c['fields']:
            L.append('<field name="%s" writable="1">%s</field>' % (f['name'], gir_type(f)))
        L.append('</%s>' % tag)
    L.append('</namespace></repository>')
    return '\n'.join(L) + '\n'


def run_case(case):
    seed, idx, ncomp, tmpdir = case
    st = setup_subject()
    csan, info = st['csan'], st['info']
    enums, comps = gen_file(seed, idx, ncomp, hostile=(ncomp <= 3))
    res = {'viol': [], 'classes': [], 'hits': collections.Counter()}
    d = tempfile.mkdtemp(dir=tmpdir)
    try:
        csrc = os.path.join(d, 'probe.c')
        with open(csrc, 'w') as f:
            f.write(render_c(enums, comps))
        exe = os.path.join(d, 'probe')
        p = subprocess.run(['gcc', '-w', '-std=gnu11', '-I', os.path.join(core.VERIF, 'vt', 'shim'), '-o', exe, csrc], capture_output=True, text=True, timeout=120)
        if p.returncode != 0:
            res['harness'] = 'gcc rejected the generated declarations: ' + p.stderr[-400:]
            return res
        out = subprocess.run([exe], capture_output=True, text=True, timeout=60).stdout
        abi = {}
        for line in out.splitlines():
            parts = line.split()
            abi[(parts[0], parts[1])] = [int(x) for x in parts[2:]]
        gir = render_gir(enums, comps)
        gpath = os.path.join(d, 'Lay-1.0.gir')
        with open(gpath, 'w') as f:
            f.write(gir)
        tpath = os.path.join(d, 'Lay-1.0.typelib')
        rc, so, se = csan.compile_gir(info, gpath, tpath, [])
        replay = {'gir': gir[:30000], 'c': render_c(enums, comps)[:20000], 'stderr': se[-1200:]}
        for sig, text in csan.sanitizer_reports(se):
            res['viol'].append((sig, 'sanitizer report while computing layouts: ' + text[:600], replay))
        if rc != 0:
            if re.search(r'has void type|is not a pointer and is of type|has is not a pointer', se) and any(c['unknown'] for c in comps):
                res['hits']['loud-failure-on-unknown-size'] += 1      # refused loudly: not a wrong layout
                return res
            key = 'compiler-rejects'
            if re.search(r'element callback from state 27 is unknown', se) and 'Caught NULL node' in se:
                key = 'crash:inline-callback-field-in-union'
            res['viol'].append((key, 'compiler exit %s: %s' % (rc, se.strip()[-300:]), replay))
            return res
        try:
            tl = typelib.Typelib(open(tpath, 'rb').read())
        except typelib.TypelibDecodeError as e:
            res['viol'].append(('typelib-malformed', 'the compiled typelib cannot be decoded by the independent decoder: %s' % e, replay))
            return res
        ents = {e['name']: e for e in tl.entries if e['local']}
        for e in enums:
            b = ents[e['name']]['blob']
            size, signed = abi[('E', e['name'])]
            st_name = b['storage_type_name']
            want = '%sint%d' % ('g' if signed else 'gu', size * 8)
            res['hits']['enum'] += 1
            res['classes'].append('enum|%s' % e['cls'])
            if st_name != want:
                key = 'enum-storage:wider-than-32-bits' if size == 8 else 'enum-storage:' + e['cls']
                res['viol'].append((key, 'enum %s values %r: typelib storage %s, gcc uses %s' % (e['name'], e['values'], st_name, want), replay))
        wide = set(e['name'] for e in enums if abi[('E', e['name'])][0] == 8)
        tainted = set()
        for c in comps:
            b = ents[c['name']]['blob']
            uses_wide = any((f['k'] == 'enum' and f['e'] in wide) or (f['k'] == 'comp' and f['c'] in tainted) or
                            (f['k'] == 'array' and f['elem'][0] == 'comp' and f['elem'][1] in tainted) for f in c['fields'])
            if uses_wide:
                tainted.add(c['name'])
            offs = [f['struct_offset'] for f in b['fields']]
            res['hits']['compound'] += 1
            res['classes'].append('%s|nf=%d|depth=%d|unknown=%d|%s' % (c['kind'], min(len(c['fields']), 6), c['depth'], c['unknown'],
                                                                       '+'.join(sorted(set(f['k'] for f in c['fields'])))))
            if c['unknown']:
                res['hits']['unknown-layout'] += 1
                if b['size'] != 0:
                    res['viol'].append(('unknown-size-given-a-number', '%s has a member of unknown size but typelib size=%d align=%d offsets=%r' % (
                        c['name'], b['size'], b['alignment'], offs), replay))
                continue
            a = abi[('C', c['name'])]
            size, align, aoffs = a[0], a[1], a[2:]
            if c['kind'] == 'union':
                aoffs = [0] * len(c['fields'])
            if (b['size'], b['alignment'], offs) != (size, align, aoffs):
                key = 'layout:via-64-bit-enum' if uses_wide else 'layout:' + c['kind']
                res['viol'].append((key, '%s %s: typelib size=%d align=%d offsets=%r, gcc size=%d align=%d offsets=%r; fields %r' % (
                    c['kind'], c['name'], b['size'], b['alignment'], offs, size, align, aoffs,
                    [(f['name'], f['k'], f.get('t') or f.get('e') or f.get('c') or f.get('elem')) for f in c['fields']]), replay))
        if idx < 1:
            res['sample'] = {'c': render_c(enums, comps)[:1500]}
    finally:
        shutil.rmtree(d, ignore_errors=True)
    res['hits'] = dict(res['hits'])
    return res


def run(args):
    chk = core.Check('C08', args.tier, args.seed,
                     'random acyclic struct/union declarations over fixed-width and platform integers, gboolean, gunichar, GType, floats, '
                     'pointers, enums of every storage class (incl. negative and > 32-bit values), fixed-size arrays of basics and of '
                     'compounds, nested compounds to depth 4, inline and typedef callbacks, members of unknown size; one model rendered as '
                     'GIR (compiled by the freshly built g-ir-compiler) and as C (compiled by gcc); class = (kind, #fields, depth, member '
                     'kinds); non-trivial = compound compared member by member')
    st = setup_subject()
    if not st['info']['ok']:
        chk.require(False, 'sanitizer build failed')
        return chk.finish()
    nfiles = int((24 if args.tier == 'quick' else 1500) * args.scale) or 1
    tmpdir = tempfile.mkdtemp(prefix='vt-c08-')
    harness = []
    try:
        cases = [(args.seed, i, 40, tmpdir) for i in range(nfiles)] + [(args.seed, 100000 + i, 3, tmpdir) for i in range(max(4, nfiles // 3))]
        cases = core.replay_cases(args, cases, lambda sd, i, k: (sd, i, k, tmpdir))
        for _, c, r in core.forkmap(run_case, cases, isolated=False):
            if '_exception' in r:
                harness.append(str(r)[:500])
                continue
            chk.evaluations += 1
            chk.merge_counts(r)
            if 'harness' in r:
                harness.append(r['harness'])
            for key, what, replay in r.get('viol', []):
                chk.violation(key, what, dict(replay, case=list(c[:3])))
            if 'sample' in r:
                chk.sample(r['sample'])
    finally:
        shutil.rmtree(tmpdir, ignore_errors=True)
    chk.extra['harness_failures'] = harness[:5]
    chk.require(chk.monitor_hits['compound'] > 100 and chk.monitor_hits['enum'] > 10, 'too few layouts compared')
    chk.require(chk.monitor_hits['unknown-layout'] + chk.monitor_hits['loud-failure-on-unknown-size'] > 0, 'no compound with a member of unknown size')
    chk.require(len(harness) <= 2, 'harness failures: %r' % harness[:2])
    chk.assumptions = ['gcc on this platform (x86-64 LP64) is the ABI oracle', 'bit-fields are not generated']
    return chk.finish()
