"""C16 - scanner output is deterministic and independent of irrelevant order.

Events : the GIR bytes of k runs of the same case in fresh interpreter processes that differ only in PYTHONHASHSEED, cache
         state (disabled / cold / warm XDG_CACHE_HOME), order of comment blocks and of the source files carrying them,
         order of function declarations, typedef-before/after-struct order, order of includes.
Oracle : byte identity for hash-seed and cache variants; identity modulo line numbers (which legitimately move with the
         input text) for the order variants.
"""
import os, sys, re, json, tempfile, shutil, subprocess, hashlib, collections
from .. import core, apigen, objgen

LINE_RE = re.compile(r'\s+line="\d+"')
SRCPOS_RE = re.compile(r'\s*<source-position [^>]*/>\n')


def strip_lines(gir):
    return LINE_RE.sub('', SRCPOS_RE.sub('\n', gir))


def gen_case(seed, idx):
    from . import c03
    rng = core.rng_for(seed, 'c16', idx)
    model = objgen.gen_objlib(rng)
    header, dump = objgen.render_objlib(model, rng)
    header += '#define FOO_LIMIT 10\nvoid foo_free_standing (gint x);\nFooRec *foo_free_make (void);\nvoid foo_rec_frob (FooRec *self);\nFooRec *foo_rec_new (void);\n'
    header += c03.role_decls(model)
    # registered flags and enumeration types with several functions of their own, declared in non-alphabetical order
    header += ('typedef enum {\n  FOO_OPTS_A = 1,\n  FOO_OPTS_B = 2\n} FooOpts;\nGType foo_opts_get_type (void);\nconst gchar *foo_opts_to_string (FooOpts v);\n'
               'FooOpts foo_opts_from_string (const gchar *s);\nguint foo_opts_mask (void);\n'
               'typedef enum {\n  FOO_LEVEL_LOW,\n  FOO_LEVEL_HIGH\n} FooLevel;\nGType foo_level_get_type (void);\nconst gchar *foo_level_to_string (FooLevel v);\n'
               'FooLevel foo_level_from_string (const gchar *s);\ngint foo_level_count (void);\n')
    dump = dump.replace('</dump>', '  <flags name="FooOpts" get-type="foo_opts_get_type">\n    <member name="FOO_OPTS_A" nick="a" value="1"/>\n    <member name="FOO_OPTS_B" nick="b" value="2"/>\n  </flags>\n'
                        '  <enum name="FooLevel" get-type="foo_level_get_type">\n    <member name="FOO_LEVEL_LOW" nick="low" value="0"/>\n    <member name="FOO_LEVEL_HIGH" nick="high" value="1"/>\n  </enum>\n</dump>')
    # one structure tag with two typedefs, declared before the structure is defined
    header += 'typedef struct _FooTwinned FooTwinned;\ntypedef struct _FooTwinned FooTwinnedAlias;\nstruct _FooTwinned {\n  gint x;\n  gdouble y;\n};\n'
    targets = c03.targets_of(model, header)
    source, blocks = c03.gen_blocks(rng, targets, model)
    # split the blocks over three source files
    parts = [p for p in source.split('\n\n') if p.strip()]
    files = [[], [], []]
    for i, p in enumerate(parts):
        files[i % 3].append(p)
    sources = [('/src/foo-%d.c' % i, '\n\n'.join(f) + '\n') for i, f in enumerate(files)]
    lib = apigen.library(headers=[('/src/foo.h', header)], sources=sources, dump=dump, includes=(['GObject-2.0', 'Gio-2.0', 'GLib-2.0'] if idx % 2 else ['Gio-2.0']),
                         c_includes=['foo.h', 'foo-extra.h'], packages=['gobject-2.0', 'gio-2.0', 'foo-1.0'], shared_libraries=['libfoo.so.1', 'libbar.so.2'])
    if idx % 3 == 0:
        # several identifier prefixes and no explicit symbol prefix: the symbol prefixes are derived from the identifier ones
        lib['identifier_prefixes'] = ['Foo', 'Bar', 'FooBar'][:rng.choice([2, 3])]
        lib['symbol_prefixes'] = None
        lib['headers'] = [(lib['headers'][0][0], lib['headers'][0][1] + 'typedef struct _BarThing BarThing;\nstruct _BarThing {\n  gint a;\n};\n'
                           'void bar_thing_do (BarThing *self);\nvoid foo_bar_init (void);\n#define BAR_LIMIT 3\n')]
    feats = {'classes': len(model['classes']), 'class_structs': sum(1 for c in model['classes'] if c['class_struct']), 'blocks': len(blocks),
             'ifaces': len(model['ifaces']), 'derived_symbol_prefixes': int(idx % 3 == 0)}
    return lib, feats


def variants(rng, lib):
    """-> [(name, lib', env, cache_mode, compare_mode)]"""
    out = []
    for hs in ('0', '1', '2', '3', str(rng.randrange(5, 2 ** 32 - 1)), str(rng.randrange(5, 2 ** 32 - 1))):
        out.append(('hashseed=' + hs, lib, {'PYTHONHASHSEED': hs}, None, 'bytes'))
    out.append(('cache-cold', lib, {'PYTHONHASHSEED': '7'}, 'cold', 'bytes'))
    out.append(('cache-warm', lib, {'PYTHONHASHSEED': '8'}, 'warm', 'bytes'))
    # comment blocks shuffled inside their files, and files in another order
    l2 = dict(lib)
    srcs = []
    for fn, text in lib['sources']:
        parts = [p for p in text.split('\n\n') if p.strip()]
        rng.shuffle(parts)
        srcs.append((fn, '\n\n'.join(parts) + '\n'))
    rng.shuffle(srcs)
    l2['sources'] = srcs
    out.append(('block-order', l2, {'PYTHONHASHSEED': '9'}, None, 'nolines'))
    # blocks redistributed over the files
    l3 = dict(lib)
    allparts = []
    for fn, text in lib['sources']:
        allparts += [p for p in text.split('\n\n') if p.strip()]
    rng.shuffle(allparts)
    k = len(lib['sources'])
    l3['sources'] = [(lib['sources'][i][0], '\n\n'.join(allparts[i::k]) + '\n') for i in range(k)]
    out.append(('block-files', l3, {'PYTHONHASHSEED': '10'}, None, 'nolines-nofile'))
    # function prototypes in another order
    l4 = dict(lib)
    fn, text = lib['headers'][0]
    lines = text.split('\n')
    proto_idx = [i for i, l in enumerate(lines) if re.match(r'^[\w][\w \*]*\(.*\);$', l) and 'typedef' not in l and '(*' not in l]
    protos = [lines[i] for i in proto_idx]
    rng.shuffle(protos)
    for i, p in zip(proto_idx, protos):
        lines[i] = p
    l4['headers'] = [(fn, '\n'.join(lines))]
    out.append(('decl-order', l4, {'PYTHONHASHSEED': '11'}, None, 'nolines'))
    # typedef after the struct instead of before
    l5 = dict(lib)
    t5 = re.sub(r'typedef struct _(\w+) (\w+);\nstruct _\1 \{\n((?:  [^\n]*\n)*)\};', lambda m: 'struct _%s {\n%s};\ntypedef struct _%s %s;' % (m.group(1), m.group(3), m.group(1), m.group(2)), text)
    t5 = re.sub(r'typedef struct _(\w+) (\w+);\ntypedef struct _\1 (\w+);\nstruct _\1 \{\n((?:  [^\n]*\n)*)\};',
                lambda m: 'struct _%s {\n%s};\ntypedef struct _%s %s;\ntypedef struct _%s %s;' % (m.group(1), m.group(4), m.group(1), m.group(2), m.group(1), m.group(3)), t5)
    l5['headers'] = [(fn, t5)]
    out.append(('typedef-order', l5, {'PYTHONHASHSEED': '12'}, None, 'nolines'))
    # includes / packages / c:includes in another order
    l6 = dict(lib)
    for key in ('includes', 'packages', 'c_includes', 'shared_libraries'):
        v = list(lib[key])
        if key != 'shared_libraries' and key != 'c_includes':
            v.reverse()
        l6[key] = v
    out.append(('include-order', l6, {'PYTHONHASHSEED': '13'}, None, 'bytes'))
    return out


def run_variant(item):
    ci, vname, lib, env, cache_mode, tmpdir, cache_home = item
    d = tempfile.mkdtemp(dir=tmpdir)
    try:
        casefile = os.path.join(d, 'case.json')
        case = {'lib': lib}
        if cache_mode:
            case['cache_home'] = cache_home
        with open(casefile, 'w') as f:
            json.dump(case, f)
        e = dict(os.environ)
        e.update(env)
        e['PYTHONPATH'] = '%s:%s' % (core.VERIF, os.path.join(core.VERIF, '.deps'))
        e['VT_REPO'] = core.REPO
        e['VT_STUB_DIR'] = os.path.join(tmpdir, 'stubs')
        e.pop('GI_SCANNER_DISABLE_CACHE', None)
        p = subprocess.run([sys.executable, '-m', 'vt.c16_runner', casefile], capture_output=True, text=True, timeout=120, env=e, cwd=core.VERIF)
        if p.returncode != 0:
            return {'harness': 'runner failed: %s' % p.stderr[-400:]}
        r = json.loads(p.stdout)
        return {'gir': r['gir'], 'fatal': r['fatal'], 'exception': r['exception'], 'cache_entries': r.get('cache_entries'),
                'cache_hits': r.get('cache_hits'), 'cache_misses': r.get('cache_misses')}
    finally:
        shutil.rmtree(d, ignore_errors=True)


def first_diff(a, b):
    la, lb = a.split('\n'), b.split('\n')
    for i, (x, y) in enumerate(zip(la, lb)):
        if x != y:
            return 'line %d: %r != %r' % (i + 1, x[:200], y[:200])
    return 'length %d != %d lines' % (len(la), len(lb))


def run(args):
    chk = core.Check('C16', args.tier, args.seed,
                     'generated GObject-style libraries (classes with class structs - two file positions per node -, interfaces, '
                     'comment blocks over three source files, three includes/packages) each scanned in fresh interpreter processes '
                     'under 14 variants: 6 hash seeds, cold and warm dependency cache, shuffled comment blocks, redistributed blocks, '
                     'shuffled prototypes, typedef-after-struct, reordered includes; class = (variant, library shape); non-trivial = a '
                     'variant run whose output was compared with the reference run')
    ncase = int((10 if args.tier == 'quick' else 300) * args.scale) or 1
    tmpdir = tempfile.mkdtemp(prefix='vt-c16-')
    try:
        # a dependency whose GIR names cannot be derived from its C names (cairo style: odd_t -> Odd.Context): references to
        # it are resolved through the dependency's C-type table, which must survive the pickle cache
        incdir = os.path.join(tmpdir, 'inc')
        os.makedirs(incdir)
        from ..scan import GIR_HEAD
        with open(os.path.join(incdir, 'Odd-1.0.gir'), 'w') as f:
            f.write(GIR_HEAD + '<namespace name="Odd" version="1.0" c:identifier-prefixes="odd" c:symbol-prefixes="odd">'
                    '<record name="Context" c:type="odd_t"><field name="x" writable="1"><type name="gint" c:type="gint"/></field></record>'
                    '<record name="Surface" c:type="OddSurface"><field name="x" writable="1"><type name="gint" c:type="gint"/></field></record>'
                    '<alias name="Handle" c:type="odd_handle_t"><type name="gint" c:type="gint"/></alias>'
                    '<enumeration name="Status" c:type="odd_status_t"><member name="ok" value="0" c:identifier="ODD_STATUS_OK"/></enumeration>'
                    '</namespace></repository>\n')
        items = []
        meta = {}
        for ci in range(ncase):
            lib, feats = gen_case(args.seed, ci)
            if ci % 2 == 0:
                lib['includes'] = list(lib['includes']) + ['Odd-1.0']
                lib['include_paths'] = [incdir]
                lib['headers'] = [(lib['headers'][0][0], lib['headers'][0][1] + 'typedef struct _odd odd_t;\ntypedef struct _OddSurface OddSurface;\n'
                                   'typedef int odd_handle_t;\ntypedef enum { ODD_STATUS_OK } odd_status_t;\n'
                                   'void foo_draw (odd_t *ctx, OddSurface *surface);\nodd_status_t foo_status (odd_handle_t h);\nodd_t *foo_get_context (void);\n')]
                feats['odd_dependency'] = 1
            rng = core.rng_for(args.seed, 'c16v', ci)
            cache_home = os.path.join(tmpdir, 'cache-%d' % ci)
            os.makedirs(cache_home)
            vs = variants(rng, lib)
            meta[ci] = (lib, feats, vs)
            for vname, l, env, cm, mode in vs:
                if cm == 'warm':
                    continue     # must run after the cold one, handled below
                items.append((ci, vname, l, env, cm, tmpdir, cache_home))
        results = collections.defaultdict(dict)
        hf = []
        for _, it, r in core.forkmap(run_variant, items, isolated=False):
            if 'harness' in r or '_exception' in r:
                hf.append(str(r)[:400])
                continue
            results[it[0]][it[1]] = r
        warm = []
        for ci, (lib, feats, vs) in meta.items():
            for vname, l, env, cm, mode in vs:
                if cm == 'warm':
                    warm.append((ci, vname, l, env, cm, tmpdir, os.path.join(tmpdir, 'cache-%d' % ci)))
        for _, it, r in core.forkmap(run_variant, warm, isolated=False):
            if 'harness' in r or '_exception' in r:
                hf.append(str(r)[:400])
                continue
            results[it[0]][it[1]] = r
        for ci, (lib, feats, vs) in meta.items():
            res = results[ci]
            ref = res.get('hashseed=0')
            if ref is None or ref['gir'] is None:
                if ref is not None and ref.get('exception'):
                    chk.violation('exception-in-pipeline', ref['exception'][:300], {'lib': lib})
                continue
            for vname, l, env, cm, mode in vs:
                r = res.get(vname)
                if r is None:
                    continue
                chk.evaluations += 1
                if r['gir'] is None:
                    chk.violation('variant-fails:' + vname.split('=')[0], 'variant %s stopped the scanner: %s' % (vname, (r['fatal'] or r['exception'] or '')[:300]), {'lib': l})
                    continue
                a, b = ref['gir'], r['gir']
                if mode == 'nolines':
                    a, b = strip_lines(a), strip_lines(b)
                elif mode == 'nolines-nofile':
                    a, b = re.sub(r' filename="foo-\d\.c"', '', strip_lines(a)), re.sub(r' filename="foo-\d\.c"', '', strip_lines(b))
                chk.monitor_hits['compared:' + vname.split('=')[0]] += 1
                if cm == 'warm':
                    chk.monitor_hits['warm-cache-entries'] += len(r.get('cache_entries') or [])
                    chk.monitor_hits['warm-cache-hits'] += r.get('cache_hits') or 0
                if cm == 'cold':
                    chk.monitor_hits['cold-cache-misses'] += r.get('cache_misses') or 0
                if a != b:
                    chk.violation('differs:' + vname.split('=')[0], 'output differs between reference run and variant %s: %s' % (vname, first_diff(a, b)),
                                  {'variant': vname, 'lib': l, 'reference_lib': lib})
                chk.cls('%s|cls=%d|cs=%d|if=%d|derived-sp=%d' % (vname.split('=')[0], feats['classes'], feats['class_structs'], feats['ifaces'], feats.get('derived_symbol_prefixes', 0)) + ('|odd-dep' if feats.get('odd_dependency') else ''))
            if ci < 2:
                chk.sample({'variants': [v[0] for v in vs], 'shape': feats, 'sha256_reference': hashlib.sha256(ref['gir'].encode()).hexdigest()})
        chk.extra['harness_failures'] = hf[:5]
        chk.require(chk.monitor_hits['compared:hashseed'] > 0 and chk.monitor_hits['compared:cache-warm'] > 0 and chk.monitor_hits['compared:block-order'] > 0,
                    'variants not compared')
        chk.require(chk.monitor_hits['warm-cache-hits'] > 0 and chk.monitor_hits['cold-cache-misses'] > 0,
                    'cache not exercised (warm hits %d, cold misses %d)' % (chk.monitor_hits['warm-cache-hits'], chk.monitor_hits['cold-cache-misses']))
        chk.require(len(hf) <= 2, 'harness failures %r' % hf[:2])
        chk.assumptions = ['order variants are compared modulo line numbers/source positions, which move with the input text',
                           'C front end replaced by the stand-in parser (its symbol order follows the header text)']
        return chk.finish()
    finally:
        shutil.rmtree(tmpdir, ignore_errors=True)
