"""C03 - identifier-level annotations and tags land on the right GIR element.

Events : attributes and <doc*>/<attribute> children of every element of the GIR emitted by the real pipeline for generated
         GObject-style libraries whose comment blocks carry unique tokens.
Oracle : every generated block carries a unique id b in all of its free text (doc "DOC-b", Since: 7.b, Deprecated: 8.b: DEP-b,
         (attributes vt.id=b)).  A token read on an element identifies the block it came from: the element's C identity
         must be the block's identifier (attribution), and everything the block says must be on its target (completeness).
"""
import collections, re
from .. import core, girx, apigen, objgen

_st = {}


def setup_subject():
    if _st:
        return _st
    from .. import scan
    scan.setup()
    scan.count_entries('maintransformer', 'MainTransformer',
                       ['_get_annotation_name', '_get_block', '_apply_annotations_property', '_apply_annotations_signal',
                        '_apply_annotations_field', '_apply_annotations_annotated', '_apply_annotation_rename_to',
                        '_pass_read_annotations2', '_apply_annotations_constant', '_apply_annotations_callable', '_pass_read_annotations'])
    scan.count_entries('girwriter', 'GIRWriter', ['_append_node_generic', '_write_generic', '_write_function_common', '_write_property',
                                                 '_write_class', '_write_record'])
    _st['scan'] = scan
    return _st


def targets_of(model, header):
    """documentable identities of the library: [(identity, kind, extra)]"""
    t = []
    for c in model['classes']:
        nm = c['name']
        us = 'foo_' + objgen.uscore(nm[3:])
        t.append((nm, 'class', c))
        for p in c['props']:
            t.append(('%s:%s' % (nm, p['name']), 'property', (c, p)))
        for s in c['signals']:
            t.append(('%s::%s' % (nm, s['name']), 'signal', (c, s)))
        t.append(('%s.priv_count' % nm, 'field', c))
        if c['class_struct']:
            t.append((nm + 'Class', 'record', c))
            for v in c['vfuncs']:
                if v['first'] == 'self':
                    t.append(('%sClass::%s' % (nm, v['name']), 'vfunc', (c, v)))
                    if re.search(r'\b%s_%s \(' % (us, v['name']), header):
                        t.append(('%s_%s' % (us, v['name']), 'function', ('invoker', c, v)))     # the method that invokes the slot
        if c['ctor']:
            t.append((us + '_new', 'function', c))
        for k in range(c['methods']):
            t.append(('%s_method%d' % (us, k), 'function', c))
        if c.get('async'):
            t.append((us + '_fetch_async', 'function', ('async', c)))
            t.append((us + '_fetch', 'function', ('async-sibling', c)))
    for f in model['ifaces']:
        nm = f['name']
        t.append((nm, 'interface', f))
        for p in f['props']:
            t.append(('%s:%s' % (nm, p['name']), 'property', (f, p)))
        for s in f['signals']:
            t.append(('%s::%s' % (nm, s['name']), 'signal', (f, s)))
    for b in model['boxed']:
        if b['decl'] in ('record', 'union'):
            t.append((b['name'], b['decl'], b))
            t.append(('%s.a' % b['name'], 'field', b))
    for e in model['enums']:
        t.append((e['name'], 'enum', e))
        for n, v in e['members']:
            t.append((n, 'member', e))
    t.append(('FooRec', 'record', None))
    t.append(('FooRec.x', 'field', None))
    t.append(('FooCallback', 'callback', None))
    t.append(('FooAlias', 'alias', None))
    for m in re.finditer(r'^#define (FOO_\w+) ', header, re.M):
        t.append((m.group(1), 'constant', None))
    for m in re.finditer(r'^\w[\w \*]*?(foo_free\w+) \(', header, re.M):
        t.append((m.group(1), 'function', None))
    # functions whose role is selected by the (constructor)/(method) annotation only (see role_decls)
    for m in re.finditer(r'^(Foo\w+) \*(foo_\w+_(?:dup|create)) \(', header, re.M):
        t.append((m.group(2), 'function', ('role', 'constructor', m.group(1))))
    for m in re.finditer(r'^void (foo_role_m_\d+) \((Foo\w+) \*self', header, re.M):
        t.append((m.group(1), 'function', ('role', 'method', m.group(2))))
    return t


def role_decls(model):
    """declarations whose names do not make them constructors/methods by themselves: a constructor that takes the instance type as
    its first parameter or is not called _new, a method that does not carry its type's prefix"""
    L = []
    for i, c in enumerate(model['classes'][:2]):
        nm = c['name']
        us = 'foo_' + objgen.uscore(nm[3:])
        L.append('%s *%s_dup (%s *src);' % (nm, us, nm))
        L.append('%s *%s_create (gint a);' % (nm, us))
        L.append('void foo_role_m_%d (%s *self, gint a);' % (i, nm))
    return '\n'.join(L) + ('\n' if L else '')


def gen_blocks(rng, targets, model):
    """-> (source text, blocks: id -> dict)"""
    lines = []
    blocks = collections.OrderedDict()
    bid = 100
    funcs = [t for t in targets if t[1] == 'function']
    for ident, kind, extra in targets:
        if rng.random() > 0.6:
            continue
        bid += 1
        b = {'id': bid, 'ident': ident, 'kind': kind, 'doc': rng.random() < 0.85, 'since': rng.random() < 0.4, 'deprecated': rng.random() < 0.3,
             'stability': rng.choice([None, None, 'Stable', 'Unstable', 'Private']), 'attr': rng.random() < 0.5, 'skip': rng.random() < 0.1, 'anns': []}
        anns = []
        if b['attr']:
            if bid % 2 == 0:
                # a value that itself contains '='
                b['attr_url'] = 'https://example.org/doc?sym=%d&k==v' % bid
                anns.append('(attributes vt.id=%d vt.kind=%s vt.url=%s)' % (bid, kind, b['attr_url']))
            else:
                anns.append('(attributes vt.id=%d vt.kind=%s)' % (bid, kind))
        if b['skip'] and kind not in ('member',):
            anns.append('(skip)')
        else:
            b['skip'] = False
        if kind == 'constant' and rng.random() < 0.5:
            b['value'] = str(1000 + bid)
            anns.append('(value %s)' % b['value'])
        if kind == 'property':
            if rng.random() < 0.3:
                b['default-value'] = 'dv%d' % bid
                anns.append('(default-value %s)' % b['default-value'])
            if rng.random() < 0.3:
                b['setter'] = 'method0'
                anns.append('(setter method0)')
            if rng.random() < 0.3:
                b['getter'] = 'method1'
                anns.append('(getter method1)')
        if kind == 'signal' and rng.random() < 0.6:
            b['emitter'] = extra[1].get('emitter') or 'method0'
            anns.append('(emitter %s)' % b['emitter'])
        if kind in ('record', 'union') and extra is not None and 'decl' in (extra or {}):
            if rng.random() < 0.5:
                b['copy-function'] = 'foo_copy_%d' % bid
                b['free-function'] = 'foo_free_%d' % bid
                anns.append('(copy-func %s) (free-func %s)' % (b['copy-function'], b['free-function']))
        if kind == 'class' and rng.random() < 0.3:
            for a, g in (('ref-func', 'glib:ref-func'), ('unref-func', 'glib:unref-func'), ('set-value-func', 'glib:set-value-func'),
                         ('get-value-func', 'glib:get-value-func')):
                if rng.random() < 0.6:
                    b[g] = 'foo_%s_%d' % (a.replace('-', '_'), bid)
                    anns.append('(%s %s)' % (a, b[g]))
        if kind in ('vfunc', 'callback') and bid % 3 == 0:
            # async links stated on a virtual method / callback type, with names no pairing heuristic could guess
            b['glib:finish-func'] = 'done_%d' % bid
            anns.append('(finish-func done_%d)' % bid)
        if kind == 'function' and isinstance(extra, tuple) and extra[0] == 'async':
            # explicit counterparts that differ from what the name heuristic would guess (the sibling "fetch" exists)
            if rng.random() < 0.7:
                b['glib:finish-func'] = 'fetch_finish'
                b['glib:sync-func'] = 'fetch_blocking'
                anns.append('(finish-func fetch_finish) (sync-func fetch_blocking)')
        elif kind == 'function' and isinstance(extra, tuple) and extra[0] == 'role':
            if rng.random() < 0.8:
                b['role'] = (extra[1], extra[2])
                anns.append('(%s)' % extra[1])
        elif kind == 'function' and isinstance(extra, tuple):
            pass
        elif kind == 'function':
            for a, g in (('finish-func', 'glib:finish-func'), ('sync-func', 'glib:sync-func'), ('async-func', 'glib:async-func')):
                if rng.random() < 0.12:
                    b[g] = 'other_fn_%d' % bid
                    anns.append('(%s %s)' % (a, b[g]))
        b['anns'] = anns
        L = ['/**', ' * %s:%s' % (ident, (' ' + ' '.join(anns)) if anns else '')]
        if kind == 'record' and isinstance(extra, dict) and extra.get('vfuncs') and ident.endswith('Class'):
            # the class structure's block may describe its slots
            for v in extra['vfuncs']:
                if rng.random() < 0.5:
                    L.append(' * @%s: slot text of %s' % (v['name'], v['name']))
        if kind == 'signal':
            pass
        L.append(' *')
        if b['doc']:
            L.append(' * DOC-%d documentation of %s.' % (bid, ident.replace(':', ' ')))
            L.append(' *')
        if b['since']:
            L.append(' * Since: 7.%d' % bid)
        if b['deprecated']:
            b['dep_text_only'] = rng.random() < 0.3
            if b['dep_text_only']:
                L.append(' * Deprecated: DEP-%d use something else' % bid)           # no version: still deprecated
            else:
                L.append(' * Deprecated: 8.%d: DEP-%d use something else' % (bid, bid))
        if b['stability']:
            L.append(' * Stability: %s' % b['stability'])
        L.append(' */')
        lines.append('\n'.join(L))
        lines.append('')
        blocks[bid] = b
    # decoys: blocks whose identifiers resemble real ones but name nothing
    for ident, kind, extra in targets[:]:
        if rng.random() < 0.08:
            bid += 1
            decoy = rng.choice([ident.replace('::', ':') if '::' in ident else ident.replace(':', '::'), ident + 'X', 'Foo' + ident[3:].lower() if ident[:3] == 'Foo' else ident + '_x',
                                ident.replace('.', ':')])
            if decoy == ident or any(t[0] == decoy for t in targets):
                continue
            lines.append('/**\n * %s:\n *\n * DOC-%d decoy\n *\n * Since: 7.%d\n */\n' % (decoy, bid, bid))
            blocks[bid] = {'id': bid, 'ident': decoy, 'kind': 'decoy', 'doc': True, 'since': True, 'deprecated': False, 'stability': None,
                           'attr': False, 'skip': False, 'anns': []}
    lines.append('/**\n * SECTION:foo-misc\n * @short_description: misc\n *\n * DOC-99 section text\n */\n')
    return '\n'.join(lines) + '\n', blocks


def identity(n):
    """C identity of a GIR element in the syntax comment blocks use"""
    tag = n.tag
    if tag in ('function', 'method', 'constructor'):
        return n.get('c:identifier')
    if tag in ('class', 'interface', 'record', 'union', 'enumeration', 'bitfield', 'callback', 'alias', 'constant'):
        return n.get('c:type') or n.get('glib:type-name')
    if tag == 'glib:boxed':
        return n.get('glib:type-name')
    owner = n.parent
    oid = (owner.get('c:type') or owner.get('glib:type-name')) if owner is not None else None
    if tag == 'property':
        return '%s:%s' % (oid, n.get('name'))
    if tag == 'glib:signal':
        return '%s::%s' % (oid, n.get('name'))
    if tag == 'field':
        return '%s.%s' % (oid, n.get('name'))
    if tag == 'virtual-method':
        ts = owner.get('glib:type-struct')
        pfx = oid[:-len(owner.get('name'))] if oid and owner.get('name') and oid.endswith(owner.get('name')) else 'Foo'
        return '%s%s::%s' % (pfx, ts, n.get('name')) if ts else None
    if tag == 'member':
        return n.get('c:identifier')
    return None


def tokens_of(n):
    """ids found directly on element n (not on its descendants' elements)"""
    ids = collections.defaultdict(set)
    for c in n.children:
        if c.tag == 'doc' and c.text:
            for m in re.finditer(r'DOC-(\d+)', c.text):
                ids[int(m.group(1))].add('doc')
        elif c.tag == 'doc-deprecated' and c.text:
            for m in re.finditer(r'DEP-(\d+)', c.text):
                ids[int(m.group(1))].add('doc-deprecated')
        elif c.tag == 'attribute' and c.get('name') == 'vt.id':
            try:
                ids[int(c.get('value'))].add('attribute')
            except (TypeError, ValueError):
                pass
    v = n.get('version')
    if v and v.startswith('7.'):
        try:
            ids[int(v[2:])].add('version')
        except ValueError:
            pass
    d = n.get('deprecated-version')
    if d and d.startswith('8.'):
        try:
            ids[int(d[2:])].add('deprecated-version')
        except ValueError:
            pass
    return ids


ELEMENT_TAGS = ('function', 'method', 'constructor', 'class', 'interface', 'record', 'union', 'enumeration', 'bitfield', 'callback', 'alias',
                'constant', 'glib:boxed', 'property', 'glib:signal', 'field', 'virtual-method', 'member')


def judge(model, blocks, gir):
    out, classes = [], []
    hits = collections.Counter()
    root = girx.parse_string(gir)
    ns = girx.namespace(root)
    by_ident = collections.defaultdict(list)
    for n in ns.iter(*ELEMENT_TAGS):
        ident = identity(n)
        if ident:
            by_ident[ident].append(n)
        for bid, kinds in tokens_of(n).items():
            b = blocks.get(bid)
            hits['token'] += 1
            if b is None:
                if bid != 99:
                    out.append(('unknown-token', '%s carries token %d that no block defines' % (n.path(), bid)))
                continue
            ok = (b['ident'] == ident)
            if not ok and n.tag == 'virtual-method':
                # a vfunc inherits from its invoker
                inv = n.get('invoker')
                if inv:
                    ms = [m for m in n.parent.findall('method') if m.get('name') == inv]
                    ok = bool(ms) and ms[0].get('c:identifier') == b['ident']
            if not ok:
                out.append(('misattributed:%s->%s' % (b['kind'], n.tag), 'block "%s" (id %d, %s) landed on %s [%s] via %s' % (
                    b['ident'], bid, b['kind'], n.path(), ident, sorted(kinds))))
    # a virtual method without a block of its own inherits from its invoker
    by_block_ident = {b['ident']: b for b in blocks.values()}
    for c in model['classes']:
        if not c['class_struct']:
            continue
        us = 'foo_' + objgen.uscore(c['name'][3:])
        for v in c['vfuncs']:
            own = by_block_ident.get('%sClass::%s' % (c['name'], v['name']))
            ib = by_block_ident.get('%s_%s' % (us, v['name']))
            if v['first'] != 'self' or own is not None or ib is None:
                continue
            vn = [n for n in by_ident.get('%sClass::%s' % (c['name'], v['name']), []) if n.tag == 'virtual-method']
            if len(vn) != 1 or vn[0].get('invoker') != v['name']:
                continue
            n = vn[0]
            hits['vfunc-inherits-from-invoker'] += 1
            got = tokens_of(n).get(ib['id'], set())
            want = set()
            if ib['doc']:
                want.add('doc')
            if ib['since']:
                want.add('version')
            if ib['deprecated']:
                want |= {'doc-deprecated'} if ib.get('dep_text_only') else {'deprecated-version', 'doc-deprecated'}
            if ib['attr']:
                want.add('attribute')
            if want - got:
                out.append(('vfunc-inherit:%s' % sorted(want - got)[0], 'virtual method %sClass::%s has no block of its own; its invoker %s has block %d, but %s did not reach the <virtual-method> (found %s)' % (
                    c['name'], v['name'], ib['ident'], ib['id'], sorted(want - got), sorted(got))))
            if ib['stability'] and n.get('stability') != ib['stability']:
                out.append(('vfunc-inherit:stability', 'virtual method %sClass::%s: stability=%r, its invoker\'s block says %r' % (c['name'], v['name'], n.get('stability'), ib['stability'])))
    for bid, b in blocks.items():
        if b['kind'] == 'decoy':
            hits['decoy'] += 1
            continue
        nodes = [n for n in by_ident.get(b['ident'], []) if n.get('moved-to') is None]
        if not nodes:
            hits['target-absent'] += 1
            continue
        n = nodes[0]
        hits['block:' + b['kind']] += 1
        got = tokens_of(n).get(bid, set())
        want = set()
        if b['doc']:
            want.add('doc')
        if b['since']:
            want.add('version')
        if b['deprecated']:
            want |= {'doc-deprecated'} if b.get('dep_text_only') else {'deprecated-version', 'doc-deprecated'}
            if not (n.tag == 'virtual-method' and n.get('invoker')) and n.get('deprecated') != '1':
                out.append(('lost:%s:deprecated-flag' % b['kind'], 'block "%s" has a Deprecated: tag (%s) but its %s element lacks deprecated="1"' % (
                    b['ident'], 'text only' if b.get('dep_text_only') else 'version and text', n.tag)))
        if b['attr']:
            want.add('attribute')
        if n.tag == 'virtual-method' and n.get('invoker'):
            want = set()          # the invoker's block may override (both related to the same slot)
        missing = want - got
        if missing:
            out.append(('lost:%s:%s' % (b['kind'], sorted(missing)[0]), 'block "%s" (id %d): %s not on its %s element (found %s)' % (
                b['ident'], bid, sorted(missing), n.tag, sorted(got))))
        if b.get('attr_url') and 'attribute' in got:
            urls = [c.get('value') for c in n.children if c.tag == 'attribute' and c.get('name') == 'vt.url']
            hits['specific:attribute-value-with-equals'] += 1
            if urls != [b['attr_url']]:
                out.append(('annotation:attributes:value', 'block "%s": attribute vt.url=%r, annotated %r' % (b['ident'], urls, b['attr_url'])))
        if b['stability'] and not (n.tag == 'virtual-method' and n.get('invoker')) and n.get('stability') != b['stability']:
            out.append(('lost:%s:stability' % b['kind'], 'block "%s": stability=%r, written %r' % (b['ident'], n.get('stability'), b['stability'])))
        if b.get('role'):
            role, owner_name = b['role']
            hits['specific:role:' + role] += 1
            owner = n.parent
            if n.tag != role or owner is None or owner.get('glib:type-name') != owner_name:
                out.append(('annotation:role:' + role, 'block "%s" says (%s) and the signature permits it (type %s), but the element is <%s> of %s' % (
                    b['ident'], role, owner_name, n.tag, owner.get('glib:type-name') if owner is not None and owner.tag != 'namespace' else 'the namespace')))
        if b['skip'] and n.get('introspectable') != '0':
            out.append(('skip-ignored:' + b['kind'], 'block "%s" says (skip) but the element is introspectable' % b['ident']))
        for attr in ('value', 'default-value', 'setter', 'getter', 'emitter', 'copy-function', 'free-function', 'glib:ref-func', 'glib:unref-func',
                     'glib:set-value-func', 'glib:get-value-func', 'glib:finish-func', 'glib:sync-func', 'glib:async-func'):
            if attr in b:
                if n.tag == 'virtual-method' and n.get('invoker'):
                    inv = [m for m in n.parent.findall('method') if m.get('name') == n.get('invoker')]
                    ib2 = by_block_ident.get(inv[0].get('c:identifier')) if inv else None
                    if ib2 is not None and attr in ib2:
                        continue        # both blocks state it for the same slot
                if attr in ('setter', 'getter', 'emitter'):
                    # the role is only selected where the signature permits it
                    owner = n.parent
                    ms = [m for m in owner.findall('method') if m.get('name') == b[attr] and m.get('introspectable') != '0'] if owner is not None else []
                    if not ms or n.get('introspectable') == '0':
                        continue
                    if attr == 'emitter':
                        _, sp = girx.params_of(n)
                        _, mp = girx.params_of(ms[0])
                        same = (len(sp) == len(mp) and all(girx.type_sig(girx.type_of(a))[1] == girx.type_sig(girx.type_of(b2))[1] for a, b2 in zip(sp, mp))
                                and girx.type_sig(girx.type_of(n.find('return-value')))[1] == girx.type_sig(girx.type_of(ms[0].find('return-value')))[1])
                        if not same:
                            continue
                hits['specific:' + attr] += 1
                if n.get(attr) != b[attr]:
                    out.append(('annotation:%s' % attr, 'block "%s": %s=%r, annotated %r' % (b['ident'], attr, n.get(attr), b[attr])))
        classes.append('%s|doc=%d|since=%d|dep=%d|attr=%d|skip=%d|n=%d' % (b['kind'], b['doc'], b['since'], b['deprecated'], b['attr'], b['skip'], len(b['anns'])))
    return out, classes, hits


def run_case(case):
    seed, idx = case
    st = setup_subject()
    scan = st['scan']
    rng = core.rng_for(seed, 'c03', idx)
    model = objgen.gen_objlib(rng)
    header, dump = objgen.render_objlib(model, rng)
    header += '#define FOO_LIMIT 10\n#define FOO_NAME "name"\nvoid foo_free_standing (gint x);\nFooRec *foo_free_make (void);\n'
    header += role_decls(model)
    targets = targets_of(model, header)
    ident_prefixes = ['Foo']
    if model['classes'] and rng.random() < 0.3:
        # a class whose C structure carries another identifier prefix of the namespace than its registered GType name
        # (typedef FuWidget, GType "FooWidget"): comment blocks are written with the C name
        victim = rng.choice(model['classes'])['name']
        if not any(c['name'] != victim and victim in ([c['pstruct']] + c['chain']) for c in model['classes']):
            alt = 'Fu' + victim[3:]
            header = re.sub(r'\b%s(Class)?\b' % victim, lambda m: alt + (m.group(1) or ''), header)
            targets = [(re.sub(r'^%s(Class)?(?=$|[:.])' % victim, lambda m: alt + (m.group(1) or ''), ident), kind, extra) for ident, kind, extra in targets]
            ident_prefixes = ['Foo', 'Fu']
    source, blocks = gen_blocks(rng, targets, model)
    m0 = dict(scan.mech)
    r = scan.scan(apigen.library(headers=[('/src/foo.h', header)], sources=[('/src/foo.c', source)], dump=dump, identifier_prefixes=ident_prefixes))
    res = {'viol': [], 'classes': [], 'hits': {}}
    replay = {'header': header, 'source': source, 'dump': dump}
    if r['exception']:
        res['viol'].append(('exception:' + r['exception'].split(':')[0], r['exception'] + '\n' + r.get('traceback', '')[-1500:], replay))
        return res
    if r['gir'] is None:
        res['viol'].append(('fatal', 'scanner stopped: %s' % (r['fatal'] or '')[:400], replay))
        return res
    if r.get('scan_errors'):
        res['harness'] = 'stand-in parse errors %r' % r['scan_errors'][:2]
        return res
    res['mech'] = {k: v - m0.get(k, 0) for k, v in scan.mech.items() if v - m0.get(k, 0)}
    viol, classes, hits = judge(model, blocks, r['gir'])
    res['classes'] = classes
    res['hits'] = dict(hits)
    for k, w in viol:
        res['viol'].append((k, w, dict(replay, gir=r['gir'][:6000])))
    if idx < 2:
        res['sample'] = {'source': source[:1500]}
    return res


def run(args):
    chk = core.Check('C03', args.tier, args.seed,
                     'generated GObject-style libraries (classes with properties, signals, fields, class structs with virtual methods, '
                     'interfaces, boxed records/unions, enums with members, constants, callbacks, aliases, functions) with comment blocks '
                     'on a random 60 % of the identifiers, each carrying a unique id in doc text, Since, Deprecated and an attribute, plus '
                     'decoy blocks (Class:x vs Class::x vs Class.x, near-miss names); class = (element kind, which tags/annotations the '
                     'block carries); non-trivial = block whose target exists and was judged')
    n = int((300 if args.tier == 'quick' else 12000) * args.scale)
    cases = [(args.seed, i) for i in range(n)]
    cases = core.replay_cases(args, cases)
    B = 6
    batches = [cases[k:k + B] for k in range(0, len(cases), B)]
    harness = []
    for _, b, results in core.forkmap(lambda bb: [run_case(c) for c in bb], batches, isolated=False):
        if isinstance(results, dict):
            harness.append(str(results)[:400])
            continue
        for c, r in zip(b, results):
            chk.evaluations += 1
            chk.merge_counts(r)
            if 'harness' in r:
                harness.append(r['harness'])
            for key, what, replay in r.get('viol', []):
                chk.violation(key, what, dict(replay, case=c))
            if 'sample' in r:
                chk.sample(r['sample'])
    chk.extra['harness_failures'] = harness[:5]
    for m in ('MainTransformer._apply_annotations_property', 'MainTransformer._apply_annotations_signal', 'MainTransformer._apply_annotations_field',
              'MainTransformer._apply_annotations_annotated', 'MainTransformer._pass_read_annotations2'):
        chk.require(chk.mechanism_entries[m] > 0, 'mechanism %s never entered' % m)
    for k in ('class', 'property', 'signal', 'field', 'function', 'constant', 'member', 'record', 'vfunc', 'enum', 'callback'):
        chk.require(chk.monitor_hits['block:' + k] > 0, 'no attributed block for element kind %s' % k)
    chk.require(len(harness) <= max(2, n // 50), 'harness failures: %r' % harness[:2])
    chk.assumptions = ['a virtual method with an invoker may carry the invoker\'s block instead of its own (both document the same slot)',
                       'rename-to/constructor/method roles are judged by C04/C05 (only-if and mutual-reference rules)']
    return chk.finish()
