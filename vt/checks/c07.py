"""C07 - GIR files survive a read/write cycle unchanged.

Events : W1 = GIRWriter(M) for a model M produced by the real pipeline; R = GIRParser().parse(W1); W2 = GIRWriter(R);
         W3 likewise from W2; for repository files F: W1 = write(read(F)), W2 = write(read(W1)).
Oracle : byte equality W1 == W2 == W3 (for files the scanner wrote - tests/scanner/*-expected.gir - also F == W1); the model
         read back agrees with the model written on an explicit list of API-relevant attributes; the scanner's built-in
         path (scannermain.write_output with --reparse-validate, passthrough_gir) agrees.
"""
import os, io, sys, glob, tempfile, shutil, collections, types
from .. import core, girx, apigen, docgen

_st = {}


def setup_subject():
    if _st:
        return _st
    from .. import scan
    G = scan.setup()
    scan.count_entries('girparser', 'GIRParser', [n for n in dir(G['girparser'].GIRParser) if n.startswith('_parse_')])
    scan.count_entries('girwriter', 'GIRWriter', [n for n in dir(G['girwriter'].GIRWriter) if n.startswith('_write_')])
    _st.update(scan=scan, G=G)
    return _st


# ---- model agreement ---------------------------------------------------------------------------------
COMMON = ['name', 'doc', 'version', 'version_doc', 'deprecated', 'deprecated_doc', 'stability', 'stability_doc', 'introspectable',
          'skip', 'attributes']
SPEC = {
    'Function': COMMON + ['symbol', 'throws', 'is_method', 'is_constructor', 'shadows', 'shadowed_by', 'moved_to', 'finish_func',
                          'sync_func', 'async_func', 'set_property', 'get_property', 'parameters', 'instance_parameter', 'retval'],
    'VFunction': COMMON + ['throws', 'invoker', 'parameters', 'instance_parameter', 'retval'],
    'Callback': COMMON + ['ctype', 'throws', 'parameters', 'retval'],
    'Signal': COMMON + ['when', 'no_recurse', 'detailed', 'action', 'no_hooks', 'emitter', 'parameters', 'retval'],
    'Parameter': ['argname', 'direction', 'transfer', 'nullable', 'optional', 'caller_allocates', 'skip', 'scope', 'closure_name',
                  'destroy_name', 'type', 'doc', 'attributes'],
    'Return': ['transfer', 'nullable', 'skip', 'type', 'doc', 'attributes'],
    'Alias': COMMON + ['ctype', 'target'],
    'Constant': COMMON + ['ctype', 'value', 'value_type'],
    'Enum': COMMON + ['ctype', 'gtype_name', 'get_type', 'error_domain', 'members', 'static_methods'],
    'Bitfield': COMMON + ['ctype', 'gtype_name', 'get_type', 'members', 'static_methods'],
    'Member': ['name', 'value', 'symbol', 'nick', 'doc', 'attributes'],
    'Record': COMMON + ['ctype', 'gtype_name', 'get_type', 'c_symbol_prefix', 'disguised', 'opaque', 'pointer', 'foreign', 'fields',
                        'methods', 'constructors', 'static_methods', 'copy_func', 'free_func'],
    'Union': COMMON + ['ctype', 'gtype_name', 'get_type', 'c_symbol_prefix', 'fields', 'methods', 'constructors', 'static_methods',
                       'copy_func', 'free_func'],
    'Boxed': COMMON + ['gtype_name', 'get_type', 'c_symbol_prefix', 'methods', 'constructors', 'static_methods'],
    'Class': COMMON + ['ctype', 'gtype_name', 'get_type', 'c_symbol_prefix', 'parent_type', 'is_abstract', 'is_final', 'fundamental',
                       'glib_type_struct', 'interfaces', 'fields', 'methods', 'constructors', 'static_methods', 'virtual_methods',
                       'properties', 'signals', 'ref_func', 'unref_func', 'set_value_func', 'get_value_func'],
    'Interface': COMMON + ['ctype', 'gtype_name', 'get_type', 'c_symbol_prefix', 'glib_type_struct', 'prerequisites', 'fields', 'methods',
                           'static_methods', 'virtual_methods', 'properties', 'signals'],
    'Field': ['name', 'type', 'readable', 'writable', 'bits', 'private', 'anonymous_node', 'introspectable', 'doc', 'attributes'],
    'Property': COMMON + ['type', 'readable', 'writable', 'construct', 'construct_only', 'transfer', 'setter', 'getter', 'default_value'],
    'DocSection': ['name', 'doc'],
    'FunctionMacro': ['name', 'symbol', 'doc'],
}


def type_neutral(t):
    if t is None:
        return None
    cls = type(t).__name__
    ct = getattr(t, 'complete_ctype', None) or getattr(t, 'ctype', None)
    if cls == 'Array':
        return ('array', t.array_type, bool(t.zeroterminated), t.length_param_name, t.size, ct, type_neutral(t.element_type))
    if cls == 'List':
        return ('list', t.name, ct, type_neutral(t.element_type))
    if cls == 'Map':
        return ('map', ct, type_neutral(t.key_type), type_neutral(t.value_type))
    if cls == 'Varargs':
        return ('varargs',)
    return ('type', t.target_fundamental, t.target_giname, bool(t.target_foreign), ct)


def neutral(obj, ns_name, depth=0):
    cls = type(obj).__name__
    if cls == 'ErrorQuarkFunction':
        cls = 'Function'        # a scanner-internal subclass (error domain carrier); in the GIR it is a function like any other
    if obj is None or isinstance(obj, (str, int, float, bool)):
        return obj
    if cls in ('Type', 'Array', 'List', 'Map', 'Varargs', 'TypeUnknown'):
        return type_neutral(obj)
    if isinstance(obj, (list, tuple)):
        return [neutral(x, ns_name, depth + 1) for x in obj]
    if isinstance(obj, dict):
        return {str(k): v for k, v in obj.items()}
    spec = SPEC.get(cls)
    if spec is None:
        return ('<%s>' % cls,)
    out = {'__class__': cls}
    for a in spec:
        v = getattr(obj, a, None)
        if a in ('nullable', 'optional', 'skip', 'caller_allocates', 'throws', 'readable', 'writable', 'private', 'construct',
                 'construct_only', 'is_method', 'is_constructor', 'disguised', 'opaque', 'pointer', 'foreign', 'is_abstract',
                 'is_final', 'fundamental', 'no_recurse', 'detailed', 'action', 'no_hooks'):
            v = bool(v)
        if a == 'nullable' and getattr(obj, 'not_nullable', False):
            v = False
        if a == 'direction' and v is None:
            v = 'in'
        if a == 'value' and cls == 'Member':
            v = str(v)
        if a == 'introspectable':
            # the GIR carries one bit (introspectable="0") for both a skipped and a non-introspectable element
            v = bool(v) and not bool(getattr(obj, 'skip', False))
        if a == 'skip' and cls not in ('Parameter', 'Return'):
            continue
        if a == 'target' and cls == 'Alias' and v is not None:
            # the GIR writes the target of an alias as one flat <type name= c:type=> (the typelib compiler accepts nothing
            # else there), so for an alias of a container only the name and the C type are API
            tn = type_neutral(v)
            v = ('alias-target', {'array': lambda: tn[1], 'list': lambda: tn[1], 'map': lambda: 'GLib.HashTable'}.get(tn[0], lambda: tn[1] or tn[2])(),
                 getattr(v, 'complete_ctype', None) or getattr(v, 'ctype', None))
            out[a] = v
            continue
        if a == 'ctype' and cls == 'Callback' and v == getattr(obj, 'name', None):
            # the writer omits c:type on a callback whose C name equals its GIR name (the anonymous callback of a
            # function-pointer field carries the field name there, which is no C type); absent means "as the name"
            v = None
        if a == 'attributes':
            v = dict(v) if v else {}
        if a == 'doc' and v == '':
            v = None
        if a in ('methods', 'constructors', 'static_methods', 'virtual_methods', 'properties', 'signals') and v:
            v = sorted((neutral(x, ns_name, depth + 1) for x in v), key=lambda d: (d.get('name') or '', d.get('symbol') or ''))
        elif a in ('interfaces', 'prerequisites') and v:
            v = sorted(type_neutral(x) for x in v)
        else:
            v = neutral(v, ns_name, depth + 1)
        out[a] = v
    return out


def ndiff(a, b, path=''):
    if a == b:
        return None
    if isinstance(a, dict) and isinstance(b, dict):
        for k in a:
            d = ndiff(a[k], b.get(k), path + '.' + k)
            if d:
                return d
        return '%s: keys differ' % path
    if isinstance(a, list) and isinstance(b, list):
        if len(a) != len(b):
            return '%s: %d vs %d items' % (path, len(a), len(b))
        for i, (x, y) in enumerate(zip(a, b)):
            d = ndiff(x, y, '%s[%d]' % (path, i))
            if d:
                return d
    return '%s: written %r, read back %r' % (path, a, b)


def model_agreement(ns1, ns2):
    """-> list of differences between the model written and the model read back"""
    out = []
    n1 = {k: v for k, v in ns1.names.items()}
    n2 = {k: v for k, v in ns2.names.items()}
    for k in n1:
        if type(n1[k]).__name__ not in SPEC:
            continue
        if k not in n2:
            # elements the writer leaves out on purpose are not round-trip subjects
            continue
        a, b = neutral(n1[k], ns1.name), neutral(n2[k], ns1.name)
        d = ndiff(a, b, k)
        if d:
            out.append(d)
    return out


# ---- workloads ----------------------------------------------------------------------------------------
def rich_library(seed, idx):
    """documentation text and attribute values as the comment parser can deliver them"""
    rng = core.rng_for(seed, 'c07rich', idx)
    hdr = apigen.Source('/src/foo.h')
    src = apigen.Source('/src/foo.c')
    hdr.add(apigen.PRELUDE)
    TEXTS = ['plain text', 'with "double" and \'single\' quotes', 'angle <brackets> & ampersands &amp; entities', 'tab\there', 'é ü 中文 ☃',
             'trailing blank   ', 'line one\n * line two\n *\n * after a blank line', '  indented code();', 'percent %s and {braces}', ']]> cdata end',
             'a very long line ' + 'x' * 120, 'back\\slash', 'form\x0cfeed', 'vertical\x0btab', 'nbsp\xa0here', 'zero width​space',
             'colon: inside', 'Returns: looks like a tag inside a paragraph']
    if rng.random() > 0.08:
        TEXTS = [t for t in TEXTS if '\x0c' not in t and '\x0b' not in t]
    n = rng.choice([3, 5, 8])
    for i in range(n):
        name = 'foo_doc%d' % i
        ret = rng.choice(['void', 'gint', 'gchar *', 'FooRec *', 'GList *'])
        params = [(rng.choice(['gint', 'const gchar *', 'FooRec *', 'gpointer', 'GObject *', 'gdouble *']), 'p%d' % k) for k in range(rng.choice([0, 1, 2]))]
        hdr.add(apigen.render_function(name, ret, params))
        lines = ['/**', ' * %s:%s' % (name, rng.choice(['', ' (skip)', ' (attributes vt.a=b vt.c=d)', ' (rename-to foo_doc0)' if i else '']))]
        for sp, pn in params:
            lines.append(' * @%s: %s%s' % (pn, rng.choice(['', '(nullable): ', '(attributes k=v): ', '(transfer none): ']), rng.choice(TEXTS)))
        lines.append(' *')
        for _ in range(rng.choice([1, 2, 3])):
            lines.append(' * ' + rng.choice(TEXTS))
            if rng.random() < 0.3:
                lines.append(' *')
        lines.append(' *')
        if ret != 'void':
            lines.append(' * Returns: %s%s' % (rng.choice(['', '(transfer full): ', '(nullable): ']), rng.choice(TEXTS)))
        if rng.random() < 0.5:
            lines.append(' * Since: %s%s' % (rng.choice(['1.0', '2.30']), rng.choice(['', '', ': since text %s' % rng.choice(TEXTS[:6])])))
        if rng.random() < 0.4:
            # every combination of the optional parts: version and text, version only, text only
            form = rng.choice(['both', 'both', 'version', 'text'])
            if form == 'both':
                lines.append(' * Deprecated: %s: %s' % (rng.choice(['1.2', '3.0']), rng.choice(TEXTS)))
            elif form == 'version':
                lines.append(' * Deprecated: %s' % rng.choice(['1.2', '3.0']))
            else:
                lines.append(' * Deprecated: Use %s instead. %s' % (rng.choice(['foo_doc0()', 'something else']), rng.choice(TEXTS[:6])))
        if rng.random() < 0.3:
            lines.append(' * Stability: %s%s' % (rng.choice(['Stable', 'Unstable', 'Private']), rng.choice(['', '', ': stability text'])))
        lines.append(' */')
        src.add('\n'.join(lines))
        src.add('')
    # arrays with every combination of length, fixed-size and zero-terminated
    for i in range(rng.choice([1, 2, 3])):
        name = 'foo_arr%d' % i
        hdr.add(apigen.render_function(name, rng.choice(['void', 'gint *']), [('guint8 *', 'data'), ('gsize', 'n_used'), ('gchar **', 'names')]))
        opts = rng.sample(['length=n_used', 'fixed-size=%d' % rng.choice([1, 4, 16]), 'zero-terminated=%d' % rng.choice([0, 1])], rng.choice([1, 2, 3]))
        lines = ['/**', ' * %s:' % name, ' * @data: (array %s): bytes' % ' '.join(opts), ' * @n_used: used',
                 ' * @names: (array %s) (nullable): names' % rng.choice(['zero-terminated=1', 'fixed-size=2', 'zero-terminated=1 fixed-size=3']),
                 ' *', ' * Arrays.', ' *', ' * Returns: (array fixed-size=%d) (transfer none): numbers' % rng.choice([2, 5]), ' */']
        src.add('\n'.join(lines))
        src.add('')
    # documented types, fields, constants, enum members
    src.add('/**\n * FooRec:\n * @x: the x %s\n * @name: a name\n *\n * A record. %s\n *\n * Since: 0.9\n */\n' % (rng.choice(TEXTS[:6]), rng.choice(TEXTS)))
    src.add('/**\n * FooMode:\n * @FOO_MODE_A: first %s\n * @FOO_MODE_B: second\n *\n * Modes.\n */\n' % rng.choice(TEXTS[:6]))
    hdr.add('#define FOO_DOCCONST 42')
    src.add('/**\n * FOO_DOCCONST: (value 43)\n *\n * %s\n */\n' % rng.choice(TEXTS))
    src.add('/**\n * SECTION:foodocs\n * @short_description: short\n *\n * %s\n */\n' % rng.choice(TEXTS))
    return apigen.library(headers=[(hdr.filename, hdr.text())], sources=[(src.filename, src.text())])


def libraries(seed, idx):
    from . import c01, c02, c13
    k = idx % 5
    rng = core.rng_for(seed, 'c07lib', idx)
    if k == 4:
        # GObject-style library: classes, interfaces, properties, signals, vfuncs, boxed, error domains + identifier annotations
        from . import c06
        return c06.scanner_library(seed, idx, k=2)
    if k == 0:
        hdr = apigen.Source('/src/foo.h')
        src = apigen.Source('/src/foo.c')
        hdr.add(apigen.PRELUDE)
        for gi in range(4):
            g = c01.gen_group(rng, gi)
            c01.render_group(g, hdr, src, rng)
        return 'c01', apigen.library(headers=[(hdr.filename, hdr.text())], sources=[(src.filename, src.text())])
    if k == 1:
        lib = c02.gen_library(seed, idx)
        return 'c02', apigen.library(headers=[('/src/foo.h', lib['header'])], sources=[('/src/foo.c', lib['source'])])
    if k == 2:
        lib = c13.gen_library(seed, idx)
        return 'c13', apigen.library(headers=[('/src/foo.h', lib['header'])], includes=['GLib-2.0'])
    return 'rich', rich_library(seed, idx)


def cycle(st, data, tmpdir, tag):
    """data: bytes of a GIR -> (W, namespace) by read+write"""
    G = st['G']
    path = os.path.join(tmpdir, '%s.gir' % tag)
    with open(path, 'wb') as f:
        f.write(data)
    p = G['girparser'].GIRParser()
    p.parse(path)
    w = G['girwriter'].GIRWriter(p.get_namespace())
    return w.get_encoded_xml(), p.get_namespace()


def first_diff(a, b):
    la, lb = a.split(b'\n'), b.split(b'\n')
    for i, (x, y) in enumerate(zip(la, lb)):
        if x != y:
            return 'line %d: %r != %r' % (i + 1, x[:160], y[:160])
    return 'length %d != %d lines' % (len(la), len(lb))


def run_case(case):
    seed, idx, tmpdir = case
    st = setup_subject()
    scan = st['scan']
    kind, lib = libraries(seed, idx)
    m0 = dict(scan.mech)
    r = scan.scan(lib, want_ast=True)
    res = {'viol': [], 'classes': [], 'hits': collections.Counter()}
    replay = {'kind': kind, 'header': lib['headers'][0][1], 'source': (lib.get('sources') or [('', '')])[0][1]}
    if r['gir'] is None:
        if r['exception']:
            res['viol'].append(('exception-in-pipeline:' + r['exception'].split(':')[0], r['exception'][:300], replay))
        return res
    W1 = r['gir'].encode('utf-8')
    d = tempfile.mkdtemp(dir=tmpdir)
    try:
        try:
            W2, R = cycle(st, W1, d, 'w1')
        except BaseException as e:
            key = 'reader-rejects:' + type(e).__name__
            ctl = [c for c in ('\x0c', '\x0b') if c in r['gir']]
            if ctl:
                key = 'reader-rejects-control-char'
            res['viol'].append((key, 'GIRParser cannot read what GIRWriter wrote: %s: %s' % (type(e).__name__, str(e)[:200]), replay))
            return res
        res['hits']['cycles'] += 1
        if W1 != W2:
            res['viol'].append(('not-identical', 'write(read(W1)) differs: ' + first_diff(W1, W2), replay))
        else:
            W3, _ = cycle(st, W2, d, 'w2')
            if W3 != W2:
                res['viol'].append(('not-fixed-point', 'third generation differs: ' + first_diff(W2, W3), replay))
        for dd in model_agreement(r['_ns'], R)[:3]:
            res['viol'].append(('model:' + dd.split(':')[0].split('.')[-1].split('[')[0], 'model read back disagrees: ' + dd, replay))
        res['hits']['model_compared'] += 1
        if idx % 10 == 0:
            # the scanner's own path
            from giscanner import scannermain
            outp = os.path.join(d, 'out.gir')
            opts = types.SimpleNamespace(output=outp, reparse_validate_gir=True)
            try:
                scannermain.write_output(W1, opts)
                ok = open(outp, 'rb').read() == W1
            except SystemExit as e:
                ok = False
            res['hits']['builtin_reparse_validate'] += 1
            if not ok and W1 == W2:
                res['viol'].append(('builtin-disagrees', 'write_output(--reparse-validate) rejected a file that round-trips', replay))
            if ok and W1 != W2:
                res['viol'].append(('builtin-disagrees', 'write_output(--reparse-validate) accepted a file that does not round-trip', replay))
    finally:
        shutil.rmtree(d, ignore_errors=True)
    res['mech'] = {k: v - m0.get(k, 0) for k, v in scan.mech.items() if v - m0.get(k, 0)}
    root = girx.parse_string(W1)
    tags = collections.Counter(n.tag for n in root.iter())
    res['classes'] = ['%s|%s' % (kind, t) for t in tags]
    res['hits'] = dict(res['hits'])
    return res


def repo_files():
    out = []
    for p in sorted(glob.glob(os.path.join(core.REPO, 'tests', 'scanner', '*-expected.gir'))):
        out.append((p, True))
    for p in sorted(glob.glob(os.path.join(core.REPO, 'gir', '*.gir'))):
        out.append((p, False))
    return out


def file_case(case):
    path, scanner_written, tmpdir = case
    st = setup_subject()
    res = {'viol': [], 'classes': ['file|' + os.path.basename(path)], 'hits': {'file_cycles': 1}}
    F = open(path, 'rb').read()
    d = tempfile.mkdtemp(dir=tmpdir)
    try:
        try:
            W1, _ = cycle(st, F, d, 'f')
            W2, _ = cycle(st, W1, d, 'w1')
        except BaseException as e:
            res['viol'].append(('file-reader-rejects', '%s: %s: %s' % (os.path.basename(path), type(e).__name__, str(e)[:200]), {'file': path}))
            return res
        if W1 != W2:
            res['viol'].append(('file-not-fixed-point:' + os.path.basename(path), '%s: %s' % (os.path.basename(path), first_diff(W1, W2)), {'file': path}))
        if scanner_written and F != W1:
            res['viol'].append(('file-not-identical:' + os.path.basename(path), '%s: %s' % (os.path.basename(path), first_diff(F, W1)), {'file': path}))
    finally:
        shutil.rmtree(d, ignore_errors=True)
    return res


def run(args):
    chk = core.Check('C07', args.tier, args.seed,
                     'namespaces produced by the real pipeline from four generators (annotated callables, un-annotated declarations, '
                     'enums/constants, documentation-rich blocks with quotes/markup/non-ASCII/control characters) plus the GIR files '
                     'shipped and expected in the repository; class = (generator or file, element tag present); non-trivial = a '
                     'write/read/write cycle compared byte for byte')
    st = setup_subject()
    n = int((300 if args.tier == 'quick' else 12000) * args.scale)
    tmpdir = tempfile.mkdtemp(prefix='vt-c07-')
    hf = []
    try:
        cases = [(args.seed, i, tmpdir) for i in range(n)]
        cases = core.replay_cases(args, cases, lambda sd, i: (sd, i, tmpdir))
        B = 6
        batches = [cases[k:k + B] for k in range(0, len(cases), B)]
        for _, b, results in core.forkmap(lambda bb: [run_case(c) for c in bb], batches, isolated=False):
            if isinstance(results, dict):
                hf.append(str(results)[:400])
                continue
            for c, r in zip(b, results):
                chk.evaluations += 1
                chk.merge_counts(r)
                for key, what, replay in r.get('viol', []):
                    chk.violation(key, what, dict(replay, case=c[:2]))
        fcases = [(p, sw, tmpdir) for p, sw in repo_files()]
        if args.replay and args.replay_case is not None:
            fcases = []
        for _, c, r in core.forkmap(file_case, fcases, isolated=True, timeout=300):
            chk.evaluations += 1
            if core.is_harness_failure(r) or '_exception' in r:
                hf.append(str(r)[:400])
                continue
            chk.merge_counts(r)
            for key, what, replay in r.get('viol', []):
                chk.violation(key, what, replay)
        chk.sample({'files': [os.path.basename(p) for p, _ in repo_files()]})
    finally:
        shutil.rmtree(tmpdir, ignore_errors=True)
    chk.extra['harness_failures'] = hf[:5]
    chk.require(chk.monitor_hits['cycles'] > 0 and chk.monitor_hits['file_cycles'] > 0, 'no cycle performed')
    chk.require(chk.monitor_hits['builtin_reparse_validate'] > 0, 'built-in reparse path never run')
    chk.require(any(k.startswith('GIRParser._parse_') for k in chk.mechanism_entries), 'reader never entered')
    chk.require(len(hf) <= 2, 'harness failures %r' % hf[:2])
    chk.assumptions = ['models come from the generators of C01/C02/C13 plus a documentation generator; classes/properties/signals are covered by repository files only until the dump generator is added']
    return chk.finish()
