"""C18 - the dependency-GIR cache never serves stale or torn data.

Workload A: controlled schedules of store / load / purge / source-rewrite operations on one cache entry under the baton
            scheduler of vt/fsched.py (systematic for two operations, seeded random for three and four), on one file
            system (atomic rename) and across two (copy + unlink publish).
Workload C: crash points - a store runs in a child process that is killed (os._exit) at every file-system step and
            inside the copy; the parent then loads, stores and purges against the wreckage.
Workload B: real multi-process stress through Transformer._parse_include with a writer and a killer process; the
            offline checker uses interval semantics.
Oracle    : offline over the recorded history - every load returns None or a complete object whose version was current
            at some instant of [call, return]; no exception escapes load/store/CacheStore(); entries that existed before a
            version-stamp change are never returned after the purge returned; broken entries are discarded.
"""
import os, sys, io, json, time, random, hashlib, tempfile, shutil, collections, threading, signal, subprocess, pickle, errno
from .. import core, fsched

_st = {}
SHM = '/dev/shm' if os.path.isdir('/dev/shm') else tempfile.gettempdir()


def setup_subject():
    if _st:
        return _st
    os.environ.pop('GI_SCANNER_DISABLE_CACHE', None)
    from .. import scan
    G = scan.setup()
    os.environ.pop('GI_SCANNER_DISABLE_CACHE', None)
    from giscanner import cachestore
    fsched.install(cachestore)
    _st.update(cs=cachestore, G=G, scan=scan)
    return _st


def mkdata(version, by, size):
    blob = (('V%d-%s-' % (version, by)) * (size // 8 + 1))[:size].encode()
    return {'v': version, 'by': by, 'blob': blob, 'sha': hashlib.sha1(blob).hexdigest()}


def data_ok(d):
    return (isinstance(d, dict) and set(d) == {'v', 'by', 'blob', 'sha'} and isinstance(d['blob'], bytes)
            and hashlib.sha1(d['blob']).hexdigest() == d['sha'])


class World(object):
    """one cache directory + one source file + the logical clock"""

    def __init__(self, root, crossfs, chooser, size=300, symlink=False):
        st = setup_subject()
        self.cs = st['cs']
        self.root = root
        self.crossfs = crossfs
        self.size = size
        self.cachehome = os.path.join(root, 'cache')
        os.makedirs(self.cachehome)
        if crossfs:
            self.tmp = tempfile.mkdtemp(prefix='vt-c18-tmp-', dir='/tmp')
        else:
            self.tmp = os.path.join(root, 'tmp')
            os.makedirs(self.tmp)
        self.src = os.path.join(root, 'Dep-1.0.gir')
        if symlink:
            # the path the scanner is given is a symbolic link (stow/Nix style gir-1.0 directories); rewrites go to its target,
            # the link itself is never touched again and is older than anything else
            os.makedirs(os.path.join(root, 'real'))
            os.symlink(os.path.join(root, 'real', 'Dep-1.0.gir'), self.src)
            os.utime(self.src, ns=(0, 0), follow_symlinks=False)
        self.sched = fsched.Sched(chooser)
        fsched.ENV.sched = self.sched
        fsched.ENV.chunk = 97
        tempfile.tempdir = self.tmp
        os.environ['XDG_CACHE_HOME'] = self.cachehome
        self.versions = []        # (clock at which it became current, version)
        self.version_hash = {}
        self.cs._get_versionhash = lambda: self.version_hash.get((self.sched.current() or {}).get('id'), 'scanner-v1')
        self.results = {}
        self.stores = {}          # op id -> {'version':, 'parse_clock':}
        self.opens = {}           # op id -> (clock at which CacheStore() was called, clock at which it returned)
        self.rewrite(initial=True)

    def tick(self):
        self.sched.clock += 1
        return self.sched.clock

    def rewrite(self, initial=False):
        """source file modification: new version, mtime = logical now"""
        if not initial:
            self.sched.yield_point('rewrite-source')
        else:
            self.tick()
        v = len(self.versions) + 1
        with open(self.src, 'w') as f:
            f.write('<gir version %d/>' % v)
        c = self.sched.clock
        os.utime(self.src, ns=(c * 10 ** 9, c * 10 ** 9))
        self.versions.append((c, v))

    def read_source(self):
        with open(self.src) as f:
            t = f.read()
        return int(t.split()[2].rstrip('/>'))

    def new_store(self):
        self.tick()
        return self.cs.CacheStore()

    # ---- operations (run inside scheduler threads, or directly for the initial state) ----
    def op_store(self, oid, cs=None):
        s = self.sched
        s.yield_point('parse-read')
        v = self.read_source()
        self.stores[oid] = {'version': v, 'parse_clock': s.clock, 'scanner': self.version_hash.get(oid, 'scanner-v1')}
        data = mkdata(v, oid, self.size)
        cs = cs or self.prebuilt[oid]
        s.history.append((s.clock, oid, 'call', 'store'))
        try:
            cs.store(self.src, data)
            s.history.append((s.clock, oid, 'return', None))
        except fsched.Abort:
            raise
        except BaseException as e:
            s.history.append((s.clock, oid, 'raise', '%s: %s' % (type(e).__name__, e)))

    def op_load(self, oid, cs=None):
        s = self.sched
        cs = cs or self.prebuilt[oid]
        s.yield_point('load-call')
        s.history.append((s.clock, oid, 'call', 'load'))
        try:
            r = cs.load(self.src)
            s.history.append((s.clock, oid, 'return', r))
        except fsched.Abort:
            raise
        except BaseException as e:
            s.history.append((s.clock, oid, 'raise', '%s: %s' % (type(e).__name__, e)))

    def op_purge(self, oid):
        s = self.sched
        self.version_hash[oid] = 'scanner-v2'
        s.yield_point('purge-call')
        s.history.append((s.clock, oid, 'call', 'purge'))
        try:
            self.cs.CacheStore()
            s.history.append((s.clock, oid, 'return', None))
        except fsched.Abort:
            raise
        except BaseException as e:
            s.history.append((s.clock, oid, 'raise', '%s: %s' % (type(e).__name__, e)))

    def op_vload(self, oid):
        """a scanner of the new version: CacheStore() (which purges or not, inside the schedule) followed by load"""
        s = self.sched
        self.version_hash[oid] = 'scanner-v2'
        s.yield_point('vload-call')
        try:
            c_open = s.clock
            cs = self.cs.CacheStore()
            self.opens[oid] = (c_open, s.clock)
            s.history.append((s.clock, oid, 'call', 'load'))
            r = cs.load(self.src)
            s.history.append((s.clock, oid, 'return', r))
        except fsched.Abort:
            raise
        except BaseException as e:
            s.history.append((s.clock, oid, 'call', 'load'))
            s.history.append((s.clock, oid, 'raise', '%s: %s' % (type(e).__name__, e)))

    def op_rewrite(self, oid):
        self.rewrite()

    def cleanup(self):
        fsched.ENV.sched = None
        tempfile.tempdir = None
        shutil.rmtree(self.root, ignore_errors=True)
        if self.crossfs:
            shutil.rmtree(self.tmp, ignore_errors=True)


def judge(world):
    """offline checker over the recorded history -> list of (key, what)"""
    s = world.sched
    out = []
    vers = world.versions
    calls = {}
    purge_returns = []
    publishes = [(c, o) for (c, o, l, d) in s.trace if l == 'publish']
    for (c, oid, kind, val) in s.history:
        if kind == 'call':
            calls[oid] = (c, val)
        elif kind == 'raise':
            out.append(('exception:%s:%s' % (calls.get(oid, (0, '?'))[1], val.split(':')[0]),
                        '%s raised %s' % (calls.get(oid, (0, '?'))[1], val)))
        elif kind == 'return' and calls.get(oid, (0, ''))[1] == 'purge':
            purge_returns.append((calls[oid][0], c))
    for (c, oid, kind, val) in s.history:
        if kind != 'return' or calls.get(oid, (0, ''))[1] != 'load' or val is None:
            continue
        c0 = calls[oid][0]
        if not data_ok(val):
            out.append(('torn', 'load returned an incomplete/altered object: %r' % (str(val)[:120],)))
            continue
        storer = world.stores.get(val['by']) or {}
        pubs = [pc for pc, po in publishes if po == val['by']]
        change_begins = min([o[0] for o in world.opens.values()] + [cc for (cc, oo, kk, vv) in s.history if kk == 'call' and vv == 'purge'] + [float('inf')])
        if oid in world.opens and pubs and pubs[0] < change_begins and \
                storer.get('scanner', 'scanner-v1') != world.version_hash.get(oid, 'scanner-v1'):
            # "a change of scanner version discards all entries": what was in the cache before the first process of the new
            # version began to open it must be gone for every new-version process that has opened it (entries that
            # old-version processes publish after that moment are not covered by the statement)
            out.append(('other-version-entry', 'a %s process opened the cache during [%d,%d] and then loaded at [%d,%d] the entry that %s (a %s process) '
                        'had published at %d' % (world.version_hash.get(oid, 'scanner-v1'), world.opens[oid][0], world.opens[oid][1], c0, c, val['by'],
                                                 storer.get('scanner', 'scanner-v1'), pubs[0])))
        v = val['v']
        start = [cl for cl, vv in vers if vv == v][0]
        nxt = [cl for cl, vv in vers if vv == v + 1]
        end = nxt[0] if nxt else float('inf')
        if not (start <= c and end > c0):
            storer = world.stores.get(val['by'])
            key = 'stale:unclassified'
            if storer is not None:
                pub = [pc for pc, po in publishes if po == val['by']]
                rewrites_between = [cl for cl, vv in vers if storer['parse_clock'] < cl and (not pub or cl < pub[0])]
                opens = [cl for (cl, o, l, d) in s.trace if o == oid and l == 'open']
                stats = [cl for (cl, o, l, d) in s.trace if o == oid and l in ('stat', 'fstat')]
                swapped = [pc for pc, po in publishes if opens and stats and opens[0] < pc < stats[0] and po != val['by']]
                if swapped:
                    key = 'stale:load-stat-after-open'
                elif rewrites_between:
                    key = 'stale:store-after-source-change'
            out.append((key, 'load [%d,%d] returned version %d (stored by %s) which was current only during [%s,%s); versions %r' % (
                c0, c, v, val['by'], start, end, vers)))
        for (pc0, pc1) in purge_returns:
            pub = [pc for pc, po in publishes if po == val['by']]
            # only entries that existed before the version change began (the first new-version process starting to open
            # the cache) are promised to be discarded; what an old-version scanner publishes meanwhile is not
            if pub and pub[0] < min(pc0, change_begins) and c0 > pc1:
                out.append(('purge-survivor', 'entry published at %d survived a version purge [%d,%d] and was loaded at [%d,%d]' % (pub[0], pc0, pc1, c0, c)))
    return out


def run_schedule(spec, prefix, rng=None, workroot=None):
    """spec: {'ops': [...names], 'init': 'absent'|'fresh'|'stale', 'crossfs': bool}; returns (violations, choices, trace)"""
    def chooser(runnable, step):
        if step < len(prefix):
            c = prefix[step]
            return c if c in runnable else runnable[0]
        if rng is not None:
            return rng.choice(runnable)
        return runnable[0]
    root = tempfile.mkdtemp(prefix='vt-c18-', dir=workroot or SHM)
    w = World(root, spec['crossfs'], chooser, size=spec.get('size', 300), symlink=bool(spec.get('symlink')))
    try:
        # initial state, unscheduled (sched.current() is None -> yield points are no-ops except clock handling)
        if spec['init'] in ('fresh', 'stale'):
            cs0 = w.new_store()
            w.stores['init'] = {'version': w.read_source(), 'parse_clock': w.tick()}
            w.tick()
            cs0.store(w.src, mkdata(w.read_source(), 'init', w.size))
            # unscheduled: stamp the entry ourselves
            for fn in os.listdir(os.path.join(w.cachehome, 'g-ir-scanner')):
                if not fn.startswith('.'):
                    p = os.path.join(w.cachehome, 'g-ir-scanner', fn)
                    c = w.tick()
                    os.utime(p, ns=(c * 10 ** 9, c * 10 ** 9))
            w.sched.trace.append((w.sched.clock, 'init', 'publish', 'init'))
            if spec['init'] == 'stale':
                w.tick()
                w.rewrite(initial=True)
        w.prebuilt = {}
        ops = []
        for i, name in enumerate(spec['ops']):
            oid = '%s%d' % (name, i)
            if name in ('store', 'load'):
                w.prebuilt[oid] = w.new_store()
            fn = {'store': w.op_store, 'load': w.op_load, 'purge': w.op_purge, 'rewrite': w.op_rewrite, 'vload': w.op_vload}[name]
            ops.append((oid, (lambda fn=fn, oid=oid: fn(oid))))
        w.tick()
        ok = w.sched.run(ops)
        if not ok:
            return None, w.sched.choices, None
        viol = judge(w)
        overlap = 0
        # did any load overlap a store or a rewrite? (evidence)
        return viol, list(w.sched.choices), {'trace': w.sched.trace[-60:], 'history': [(c, o, k, (v if not isinstance(v, dict) else {'v': v['v'], 'by': v['by']})) for c, o, k, v in w.sched.history],
                                             'versions': w.versions, 'steps': len(w.sched.trace)}
    finally:
        w.cleanup()


def explore_exhaustive(spec, limit):
    """all interleavings (stateless DFS over scheduler choices); returns stats + violations"""
    stack = [[]]
    n = 0
    viols = []
    distinct = set()
    while stack and n < limit:
        prefix = stack.pop()
        v, choices, info = run_schedule(spec, prefix)
        n += 1
        if v is None:
            viols.append(('watchdog', 'schedule did not terminate', {'spec': spec, 'prefix': prefix}))
            continue
        distinct.add(tuple(c for _, c in choices))
        for key, what in v:
            viols.append((key + ('@crossfs' if spec['crossfs'] else ''), what, {'spec': spec, 'schedule': [c for _, c in choices], 'info': info}))
        for i in range(len(prefix), len(choices)):
            runnable, chosen = choices[i]
            for alt in runnable:
                if alt != chosen:
                    stack.append([c for _, c in choices[:i]] + [alt])
    return {'runs': n, 'distinct': len(distinct), 'exhausted': not stack, 'viol': viols}


def explore_random(spec, seed, n):
    viols = []
    distinct = set()
    runs = 0
    for i in range(n):
        rng = core.rng_for(seed, 'c18r', json.dumps(spec, sort_keys=True), i)
        v, choices, info = run_schedule(spec, [], rng)
        runs += 1
        if v is None:
            continue
        distinct.add(tuple(c for _, c in choices))
        for key, what in v:
            viols.append((key + ('@crossfs' if spec['crossfs'] else ''), what, {'spec': spec, 'schedule': [c for _, c in choices], 'info': info}))
    return {'runs': runs, 'distinct': len(distinct), 'exhausted': False, 'viol': viols}


# ---- crash points ------------------------------------------------------------------------------------
CRASH_CHILD = r'''
import os, sys, json
sys.path[:0] = %(path)r
from vt.checks import c18
from vt import fsched
st = c18.setup_subject()
spec = json.loads(sys.argv[1])
os.environ['XDG_CACHE_HOME'] = spec['cachehome']
import tempfile
tempfile.tempdir = spec['tmp']
count = [0]
class Killer(object):
    clock = 0
    trace = []
    def current(self): return {'id': 'victim'}
    def yield_point(self, label, detail=None):
        if label == 'stat' and (str(detail).endswith('.py') or detail in ('-c', '')):
            return      # version-hash stats of the scanner's own sources: not steps on the cache entry
        count[0] += 1
        self.clock += 1
        if count[0] == spec['kill_at']:
            sys.stdout.write('KILLED-AT %%s %%s\n' %% (label, detail)); sys.stdout.flush()
            os._exit(137)
fsched.ENV.sched = Killer()
fsched.ENV.chunk = spec['chunk']
fsched._stamp = lambda p: None
if spec.get('vhash'):
    st['cs']._get_versionhash = lambda: spec['vhash']
cs = st['cs'].CacheStore()
if spec.get('mode') != 'open-only':
    cs.store(spec['src'], c18.mkdata(spec['version'], spec.get('by', 'victim'), spec['size']))
sys.stdout.write('COMPLETED %%d\n' %% count[0]); sys.stdout.flush()
os._exit(0)
'''


def corrupt_case(case):
    """an entry that cannot be unpickled (truncated anywhere, damaged bytes, a pickle naming a class this scanner does not
    have, text, nothing) must be discarded by load - None returned, no exception - and the cache must work afterwards"""
    seed, idx = case
    st = setup_subject()
    rng = core.rng_for(seed, 'c18corrupt', idx)
    root = tempfile.mkdtemp(prefix='vt-c18k-', dir=SHM)
    res = {'viol': [], 'kinds': collections.Counter()}
    saved_env = os.environ.get('XDG_CACHE_HOME')
    try:
        fsched.ENV.sched = None
        os.environ['XDG_CACHE_HOME'] = os.path.join(root, 'cache')
        os.makedirs(os.environ['XDG_CACHE_HOME'])
        tempfile.tempdir = os.path.join(root, 'tmp')
        os.makedirs(tempfile.tempdir)
        src = os.path.join(root, 'Dep-1.0.gir')
        with open(src, 'w') as f:
            f.write('<gir version 1/>')
        old = time.time() - 100
        os.utime(src, (old, old))
        cs = st['cs'].CacheStore()
        good = mkdata(1, 'good', rng.choice([50, 300, 5000]))
        for k in range(12):
            cs.store(src, good)
            entry = cs._get_filename(src)
            raw = open(entry, 'rb').read()
            kind = rng.choice(['truncate', 'truncate', 'flip', 'flip', 'foreign-class', 'foreign-module', 'text', 'empty', 'bad-utf8', 'zeros'])
            if kind == 'truncate':
                bad = raw[:rng.randrange(0, len(raw))]
            elif kind == 'flip':
                b = bytearray(raw)
                for _ in range(rng.choice([1, 2, 5])):
                    b[rng.randrange(len(b))] = rng.randrange(256)
                bad = bytes(b)
            elif kind == 'foreign-class':
                bad = b'\x80\x04\x95\x2b\x00\x00\x00\x00\x00\x00\x00\x8c\x13giscanner.girparser\x94\x8c\x0fNoSuchGIRParser\x94\x93\x94)\x81\x94.'
            elif kind == 'foreign-module':
                bad = b'\x80\x04\x95\x27\x00\x00\x00\x00\x00\x00\x00\x8c\x12giscanner.newmodule\x94\x8c\x0cFutureParser\x94\x93\x94)\x81\x94.'
            elif kind == 'text':
                bad = b'<?xml version="1.0"?>\n<repository/>\n'
            elif kind == 'empty':
                bad = b''
            elif kind == 'bad-utf8':
                bad = b'\x80\x04\x95\x0a\x00\x00\x00\x00\x00\x00\x00\x8c\x04\xff\xfe\xfd\xfc\x94.'
            else:
                bad = b'\0' * rng.choice([1, 16, 4096])
            try:
                pickle.loads(bad)
                continue                    # still a readable pickle: not an unreadable entry
            except BaseException as e:
                res['kinds']['%s:%s' % (kind, type(e).__name__)] += 1
            with open(entry, 'wb') as f:
                f.write(bad)
            try:
                r = cs.load(src)
            except BaseException as e:
                res['viol'].append(('exception:load:%s' % type(e).__name__, 'load raised %s: %s on an unreadable entry (%s, %d bytes)' % (type(e).__name__, str(e)[:100], kind, len(bad)),
                                    {'kind': kind, 'entry_hex': bad[:200].hex()}))
                if os.path.exists(entry):
                    os.unlink(entry)
                continue
            if r is not None:
                res['viol'].append(('unreadable-entry-served', 'load returned %r from an unreadable entry (%s)' % (str(r)[:80], kind), {'kind': kind, 'entry_hex': bad[:200].hex()}))
            elif os.path.exists(entry):
                res['viol'].append(('broken-entry-kept', 'load returned None but left the unreadable entry (%s, %d bytes) in place' % (kind, len(bad)), {'kind': kind, 'entry_hex': bad[:200].hex()}))
            cs.store(src, good)
            r2 = cs.load(src)
            if not (data_ok(r2) and r2['by'] == 'good'):
                res['viol'].append(('cache-unusable-after-bad-entry', 'store+load after discarding a bad entry (%s) gives %r' % (kind, str(r2)[:80]), {'kind': kind}))
        return res
    finally:
        tempfile.tempdir = None
        if saved_env is None:
            os.environ.pop('XDG_CACHE_HOME', None)
        else:
            os.environ['XDG_CACHE_HOME'] = saved_env
        shutil.rmtree(root, ignore_errors=True)


def vcrash_case(case):
    """a scanner of a new version is killed at step k while it opens a cache that holds an entry of the old version;
    another scanner of the new version then opens the cache and loads"""
    seed, crossfs, kill_at, size = case
    st = setup_subject()
    root = tempfile.mkdtemp(prefix='vt-c18v-', dir=SHM)
    tmp = os.path.join(root, 'tmp')
    os.makedirs(tmp, exist_ok=True)
    res = {'viol': [], 'kill_at': kill_at}
    try:
        cachehome = os.path.join(root, 'cache')
        os.makedirs(cachehome)
        src = os.path.join(root, 'Dep-1.0.gir')
        with open(src, 'w') as f:
            f.write('<gir version 1/>')
        old = time.time() - 100
        os.utime(src, (old, old))
        code = CRASH_CHILD % {'path': [core.VERIF, os.path.join(core.VERIF, '.deps')]}
        env = dict(os.environ, VT_REPO=core.REPO, PYTHONHASHSEED='0')
        env.pop('GI_SCANNER_DISABLE_CACHE', None)
        script = os.path.join(root, 'g-ir-scanner-victim.py')
        with open(script, 'w') as f:
            f.write(code)
        base = {'cachehome': cachehome, 'tmp': tmp, 'src': src, 'chunk': 64, 'version': 1, 'size': size}
        # the old scanner fills the cache
        p = subprocess.run([sys.executable, script, json.dumps(dict(base, kill_at=0, vhash='old-scanner', by='old'))], capture_output=True, text=True, timeout=60, env=env)
        if p.returncode != 0:
            res['harness'] = 'old-version store failed: %r' % (p.stderr[-300:],)
            return res
        # the new scanner is killed while opening the cache
        p = subprocess.run([sys.executable, script, json.dumps(dict(base, kill_at=kill_at, vhash='new-scanner', mode='open-only'))], capture_output=True, text=True, timeout=60, env=env)
        res['child'] = (p.returncode, p.stdout.strip()[-200:], p.stderr.strip()[-300:])
        if p.returncode not in (0, 137):
            res['harness'] = 'crash child failed: %r' % (res['child'],)
            return res
        res['killed'] = p.returncode == 137
        res['label'] = 'v:' + (p.stdout.strip().split(' ')[1] if p.stdout.startswith('KILLED-AT') else 'completed')
        fsched.ENV.sched = None
        os.environ['XDG_CACHE_HOME'] = cachehome
        tempfile.tempdir = tmp
        saved = st['cs']._get_versionhash
        st['cs']._get_versionhash = lambda: 'new-scanner'
        try:
            cs = st['cs'].CacheStore()
            r = cs.load(src)
            res['first_load'] = None if r is None else 'data'
            if r is not None:
                res['viol'].append(('other-version-entry-after-crash', 'a new-version scanner killed at step %d (%s) of opening the cache leaves it so that '
                                    'the next new-version scanner loads the entry written by %r' % (kill_at, res['label'], r.get('by') if isinstance(r, dict) else r)))
            cs.store(src, mkdata(1, 'survivor', size))
            r2 = cs.load(src)
            if not (data_ok(r2) and r2['by'] == 'survivor'):
                res['viol'].append(('cache-unusable-after-crash', 'after a crash at step %d (%s) of the version purge: store+load gives %r' % (kill_at, res['label'], str(r2)[:100])))
        except Exception as e:
            res['viol'].append(('exception-after-crash:' + type(e).__name__, 'crash at step %d (%s) of the version purge: survivor raised %r' % (kill_at, res['label'], e)))
        finally:
            st['cs']._get_versionhash = saved
            tempfile.tempdir = None
        return res
    finally:
        shutil.rmtree(root, ignore_errors=True)


def crash_case(case):
    """kill a store at step k; then load / store / load against the wreckage (unscheduled, real time)"""
    seed, crossfs, kill_at, size = case
    st = setup_subject()
    root = tempfile.mkdtemp(prefix='vt-c18c-', dir=SHM)
    tmp = tempfile.mkdtemp(prefix='vt-c18c-tmp-', dir='/tmp') if crossfs else os.path.join(root, 'tmp')
    os.makedirs(tmp, exist_ok=True)
    res = {'viol': [], 'kill_at': kill_at}
    try:
        cachehome = os.path.join(root, 'cache')
        os.makedirs(cachehome)
        src = os.path.join(root, 'Dep-1.0.gir')
        with open(src, 'w') as f:
            f.write('<gir version 1/>')
        old = time.time() - 100
        os.utime(src, (old, old))
        spec = {'cachehome': cachehome, 'tmp': tmp, 'src': src, 'kill_at': kill_at, 'chunk': 64, 'version': 1, 'size': size}
        code = CRASH_CHILD % {'path': [core.VERIF, os.path.join(core.VERIF, '.deps')]}
        env = dict(os.environ, VT_REPO=core.REPO, PYTHONHASHSEED='0')
        env.pop('GI_SCANNER_DISABLE_CACHE', None)
        script = os.path.join(root, 'g-ir-scanner-victim.py')
        with open(script, 'w') as f:
            f.write(code)
        p = subprocess.run([sys.executable, script, json.dumps(spec)], capture_output=True, text=True, timeout=60, env=env)
        res['child'] = (p.returncode, p.stdout.strip()[-200:], p.stderr.strip()[-300:])
        if p.returncode not in (0, 137):
            res['harness'] = 'crash child failed: %r' % (res['child'],)
            return res
        res['killed'] = p.returncode == 137
        res['label'] = p.stdout.strip().split(' ')[1] if p.stdout.startswith('KILLED-AT') else 'completed'
        # the survivor: an unscheduled scanner process (this one) using the same cache
        fsched.ENV.sched = None
        os.environ['XDG_CACHE_HOME'] = cachehome
        tempfile.tempdir = tmp
        cdir = os.path.join(cachehome, 'g-ir-scanner')
        before = sorted(os.listdir(cdir)) if os.path.isdir(cdir) else []
        argv0 = sys.argv[0]
        sys.argv[0] = script        # the survivor is the same scanner version as the victim
        try:
            cs = st['cs'].CacheStore()
            r = cs.load(src)
            if r is not None and not (data_ok(r) and r['v'] == 1):
                res['viol'].append(('torn-after-crash', 'load after a crash at step %d (%s) returned %r' % (kill_at, res['label'], str(r)[:100])))
            entry = cs._get_filename(src)
            if r is None and os.path.exists(entry):
                # a broken entry must have been discarded; an entry that is still there must now be loadable or invalid
                with open(entry, 'rb') as f:
                    raw = f.read()
                try:
                    ok = data_ok(pickle.loads(raw))
                except Exception:
                    ok = False
                if not ok:
                    res['viol'].append(('broken-entry-kept', 'load returned None but left an unreadable entry (%d bytes) in place' % len(raw)))
            res['first_load'] = None if r is None else 'data'
            cs.store(src, mkdata(1, 'survivor', size))
            r2 = cs.load(src)
            if not (data_ok(r2) and r2['v'] == 1):
                res['viol'].append(('cache-unusable-after-crash', 'after crash at step %d (%s): store+load gives %r' % (kill_at, res['label'], str(r2)[:100])))
        except Exception as e:
            res['viol'].append(('exception-after-crash:' + type(e).__name__, 'crash at step %d (%s): survivor raised %r' % (kill_at, res['label'], e)))
        finally:
            tempfile.tempdir = None
            sys.argv[0] = argv0
        res['leftover_tmp'] = len([f for f in os.listdir(tmp) if f.startswith('g-ir-scanner-cache-')])
        return res
    finally:
        shutil.rmtree(root, ignore_errors=True)
        if crossfs:
            shutil.rmtree(tmp, ignore_errors=True)


# ---- workload B: real processes through Transformer._parse_include ------------------------------------
STRESS_WORKER = r'''
import os, sys, json, time, random
sys.path[:0] = %(path)r
os.environ.pop('GI_SCANNER_DISABLE_CACHE', None)
from vt import scan
G = scan.setup()
os.environ.pop('GI_SCANNER_DISABLE_CACHE', None)
spec = json.loads(sys.argv[1])
os.environ['XDG_CACHE_HOME'] = spec['cachehome']
import tempfile
tempfile.tempdir = spec['tmp']
ast = G['ast']
rng = random.Random(spec['seed'])
log = open(spec['log'], 'a', buffering=1)
# observability for the offline checker (wrappers in this worker process, the repository is not edited): which parse a
# process is about to store and when the store returned.  A stale load is only explainable by the recorded known finding
# (a scanner that parsed before the source changed stores its old parse afterwards) if such a store event exists.
from giscanner import cachestore as _csm
_orig_store = _csm.CacheStore.store
def _logged_store(self, filename, data):
    try:
        mk = [n for n in data.get_namespace().names if n.startswith('Marker')]
    except Exception:
        mk = []
    log.write(json.dumps({'ev': 'store-begin', 'pid': os.getpid(), 'src': os.path.basename(filename), 't': time.monotonic_ns(), 'marker': mk}) + '\n')
    try:
        return _orig_store(self, filename, data)
    finally:
        log.write(json.dumps({'ev': 'store-end', 'pid': os.getpid(), 'src': os.path.basename(filename), 't': time.monotonic_ns(), 'marker': mk}) + '\n')
_csm.CacheStore.store = _logged_store
deadline = time.time() + spec['seconds']
n = 0
while time.time() < deadline:
    src = rng.choice(spec['sources'])
    t0 = time.monotonic_ns()
    try:
        xf = G['transformer'].Transformer(ast.Namespace('Foo', '1.0'))
        parser = xf._parse_include(src, uninstalled=True)
        ns = parser.get_namespace()
        names = sorted(ns.names)
        marker = [n for n in names if n.startswith('Marker')]
        rec = {'pid': os.getpid(), 'src': os.path.basename(src), 't0': t0, 't1': time.monotonic_ns(), 'marker': marker, 'n': len(names)}
    except BaseException as e:
        import traceback
        where = [f.name for f in traceback.extract_tb(e.__traceback__) if f.filename.endswith('cachestore.py')]
        rec = {'pid': os.getpid(), 'src': os.path.basename(src), 't0': t0, 't1': time.monotonic_ns(), 'exc': '%%s: %%s' %% (type(e).__name__, e),
               'where': where[0] if where else None}
    log.write(json.dumps(rec) + '\n')
    n += 1
'''


def gir_version(k, width):
    recs = ''.join('<record name="R%d" c:type="DepR%d"><field name="x" writable="1"><type name="gint" c:type="gint"/></field></record>\n' % (i, i)
                   for i in range(width))
    from ..scan import GIR_HEAD
    return (GIR_HEAD + '<namespace name="Dep" version="1.0" c:identifier-prefixes="Dep" c:symbol-prefixes="dep">\n'
            '<record name="Marker%d" c:type="DepMarker%d"/>\n%s</namespace></repository>\n' % (k, k, recs))


def stress(seed, seconds, nworkers, crossfs):
    root = tempfile.mkdtemp(prefix='vt-c18b-', dir=SHM)
    tmp = tempfile.mkdtemp(prefix='vt-c18b-tmp-', dir='/tmp') if crossfs else os.path.join(root, 'tmp')
    os.makedirs(tmp, exist_ok=True)
    out = {'viol': [], 'loads': 0, 'overlap': 0, 'exceptions': 0, 'kills': 0}
    try:
        cachehome = os.path.join(root, 'cache')
        os.makedirs(cachehome)
        sources = [os.path.join(root, 'Dep%d-1.0.gir' % i) for i in range(2)]
        rng = core.rng_for(seed, 'c18b')
        width = 40
        writes = {s: [] for s in sources}     # (t_before_ns, t_after_ns, version)
        version = {s: 0 for s in sources}

        def rewrite(s):
            version[s] += 1
            t0 = time.monotonic_ns()
            tmpf = s + '.new'
            with open(tmpf, 'w') as f:
                f.write(gir_version(version[s], width))
            os.replace(tmpf, s)
            writes[s].append((t0, time.monotonic_ns(), version[s]))
        for s in sources:
            rewrite(s)
        code = STRESS_WORKER % {'path': [core.VERIF, os.path.join(core.VERIF, '.deps')]}
        script = os.path.join(root, 'g-ir-scanner-worker.py')
        with open(script, 'w') as f:
            f.write(code)
        env = dict(os.environ, VT_REPO=core.REPO, PYTHONHASHSEED='0')
        env.pop('GI_SCANNER_DISABLE_CACHE', None)
        logs = []
        procs = []
        end = time.time() + seconds

        def spawn(i):
            log = os.path.join(root, 'log-%d-%d.jsonl' % (i, len(logs)))
            logs.append(log)
            spec = {'cachehome': cachehome, 'tmp': tmp, 'sources': sources, 'seed': '%s-%d-%d' % (seed, i, len(logs)),
                    'log': log, 'seconds': max(0.5, end - time.time())}
            return subprocess.Popen([sys.executable, script, json.dumps(spec)], env=env, stdout=subprocess.DEVNULL, stderr=subprocess.DEVNULL)
        procs = [spawn(i) for i in range(nworkers)]
        while time.time() < end:
            time.sleep(rng.uniform(0.02, 0.15))
            r = rng.random()
            if r < 0.5:
                rewrite(rng.choice(sources))
            elif r < 0.7:
                i = rng.randrange(len(procs))
                try:
                    procs[i].send_signal(signal.SIGKILL)
                    procs[i].wait()
                    out['kills'] += 1
                except Exception:
                    pass
                procs[i] = spawn(i)
        for p in procs:
            try:
                p.wait(timeout=30)
            except subprocess.TimeoutExpired:
                p.kill()
        # offline check with interval semantics
        store_events = collections.defaultdict(list)          # (src, version) -> [(t_begin, t_end or inf)]
        for log in logs:
            if not os.path.exists(log):
                continue
            open_begin = {}
            for line in open(log):
                try:
                    rec = json.loads(line)
                except ValueError:
                    continue
                if rec.get('ev') == 'store-begin' and len(rec.get('marker') or []) == 1:
                    open_begin[(rec['pid'], rec['src'])] = (rec['t'], int(rec['marker'][0][len('Marker'):]))
                elif rec.get('ev') == 'store-end' and (rec['pid'], rec['src']) in open_begin:
                    t0, v = open_begin.pop((rec['pid'], rec['src']))
                    store_events[(rec['src'], v)].append((t0, rec['t']))
            for (pid, srcname), (t0, v) in open_begin.items():        # killed inside the store: may have published at any later time
                store_events[(srcname, v)].append((t0, float('inf')))
        out['stores'] = sum(len(x) for x in store_events.values())
        for log in logs:
            if not os.path.exists(log):
                continue
            for line in open(log):
                try:
                    rec = json.loads(line)
                except ValueError:
                    continue   # torn last line of a killed worker
                if 'ev' in rec:
                    continue
                out['loads'] += 1
                src = [s for s in sources if os.path.basename(s) == rec['src']][0]
                if 'exc' in rec:
                    out['exceptions'] += 1
                    # same key as the scheduled workload uses for an exception escaping that CacheStore method
                    key = ('exception:%s:%s' % (rec['where'], rec['exc'].split(':')[0])) if rec.get('where') in ('store', 'load') else 'stress-exception:' + rec['exc'].split(':')[0]
                    out['viol'].append((key, '_parse_include raised %s (inside CacheStore.%s)' % (rec['exc'], rec.get('where'))))
                    continue
                if len(rec['marker']) != 1 or rec['n'] != width + 1:
                    out['viol'].append(('stress-torn', 'parse has markers %r and %d names (expected 1 and %d)' % (rec['marker'], rec['n'], width + 1)))
                    continue
                v = int(rec['marker'][0][len('Marker'):])
                ws = writes[src]
                began = [w for w in ws if w[2] == v][0][0]           # earliest instant v could have been current
                nxt = [w for w in ws if w[2] == v + 1]
                ended = nxt[0][1] if nxt else float('inf')           # latest instant v could still have been current
                if any(w[0] <= rec['t1'] and w[1] >= rec['t0'] for w in ws):
                    out['overlap'] += 1
                if rec['t0'] > ended or rec['t1'] < began:
                    # explained by the recorded finding iff some process stored its parse of v after v+1 had begun to exist
                    # (and before this load ended); then the entry is newer than the source and stays valid
                    late = [e for e in store_events.get((rec['src'], v), []) if e[1] >= (nxt[0][0] if nxt else float('inf')) and e[0] <= rec['t1']]
                    key = 'stale:store-after-source-change' if (late and rec['t0'] > ended) else 'stress-stale'
                    out['viol'].append((key, 'load [%d,%d] returned version %d, possibly current only within [%d,%s]%s' % (
                        rec['t0'], rec['t1'], v, began, ended, '; a store of that parse was in progress or finished after the source changed (%d such stores)' % len(late) if late else '')))
        return out
    finally:
        shutil.rmtree(root, ignore_errors=True)
        if crossfs:
            shutil.rmtree(tmp, ignore_errors=True)


# ---- driver -----------------------------------------------------------------------------------------------
PAIRS = [['load', 'store'], ['store', 'store'], ['load', 'load'], ['load', 'purge'], ['store', 'purge'], ['load', 'rewrite'],
         ['store', 'rewrite'], ['purge', 'vload'], ['vload', 'vload']]
TRIPLES = [['load', 'store', 'rewrite'], ['load', 'store', 'store'], ['store', 'store', 'rewrite'], ['load', 'store', 'purge'],
           ['load', 'load', 'store'], ['store', 'purge', 'rewrite'], ['load', 'purge', 'store'], ['purge', 'vload', 'vload'],
           ['purge', 'vload', 'store']]


def work(item):
    kind = item[0]
    if kind == 'ex':
        _, spec, limit = item
        r = explore_exhaustive(spec, limit)
    elif kind == 'rnd':
        _, spec, seed, n = item
        r = explore_random(spec, seed, n)
    elif kind == 'corrupt':
        r0 = corrupt_case(item[1])
        r = {'runs': 12, 'distinct': len(r0['kinds']), 'exhausted': False, 'viol': [(k, w, dict(rp, case=list(item[1]))) for k, w, rp in r0['viol']],
             'corrupt': dict(r0['kinds'])}
    elif kind in ('crash', 'vcrash'):
        r0 = crash_case(item[1]) if kind == 'crash' else vcrash_case(item[1])
        r = {'runs': 1, 'distinct': 1, 'exhausted': False, 'viol': [(k, w, {'case': item[1], 'child': r0.get('child')}) for k, w in r0['viol']],
             'crash': {'killed': r0.get('killed'), 'label': r0.get('label'), 'first_load': r0.get('first_load'), 'harness': r0.get('harness')}}
    r['item'] = [kind, item[1] if kind not in ('crash', 'vcrash', 'corrupt') else list(item[1])]
    for v in r['viol']:
        pass
    return r


def run(args):
    chk = core.Check('C18', args.tier, args.seed,
                     'schedules of {store, load, purge, source rewrite} on one cache entry under the baton scheduler: all '
                     'interleavings of two operations for every initial state (absent/fresh/stale) on one and across two file '
                     'systems, seeded random schedules of three operations; a store killed at every file-system step; real '
                     'multi-process stress through Transformer._parse_include with a source writer and a SIGKILLer; class = '
                     '(operation multiset, initial state, file-system configuration, distinct schedule) ; non-trivial = schedule '
                     'ran to completion and its history was judged')
    setup_subject()
    quick = args.tier == 'quick'
    items = []
    for crossfs in (False, True):
        for init in ('absent', 'fresh', 'stale'):
            for ops in PAIRS:
                items.append(('ex', {'ops': ops, 'init': init, 'crossfs': crossfs, 'size': 150 if crossfs else 300},
                              int((400 if quick else 20000) * args.scale)))
            for ops in TRIPLES:
                items.append(('rnd', {'ops': ops, 'init': init, 'crossfs': crossfs, 'size': 150 if crossfs else 300}, args.seed,
                              int((60 if quick else 6000) * args.scale)))
    # the same pairs with the source path being a symbolic link
    for init in ('fresh', 'stale'):
        for ops in PAIRS:
            items.append(('ex', {'ops': ops, 'init': init, 'crossfs': False, 'size': 300, 'symlink': True}, int((200 if quick else 20000) * args.scale)))
    for crossfs in (False, True):
        for k in range(1, (14 if not crossfs else 30)):
            items.append(('crash', (args.seed, crossfs, k, 500)))
    for k in range(1, 12):
        items.append(('vcrash', (args.seed, False, k, 500)))
    for k in range(int((20 if quick else 600) * args.scale) or 1):
        items.append(('corrupt', (args.seed, k)))
    rng = core.rng_for(args.seed, 'c18-order')
    rng.shuffle(items)
    total_sched = 0
    distinct = 0
    crash_labels = collections.Counter()
    hf = 0
    for _, item, r in core.forkmap(work, items, isolated=True, timeout=600):
        if core.is_harness_failure(r) or '_exception' in r:
            hf += 1
            chk.extra.setdefault('harness_errors', []).append(str(r)[:600])
            continue
        chk.evaluations += r['runs']
        total_sched += r['runs']
        distinct += r['distinct']
        kind = item[0]
        if kind in ('ex', 'rnd'):
            spec = item[1]
            chk.cls('%s|%s|init=%s|crossfs=%d%s|%s' % (kind, '+'.join(spec['ops']), spec['init'], spec['crossfs'], '|symlink' if spec.get('symlink') else '', 'exhausted' if r['exhausted'] else 'sampled'), r['distinct'])
            if spec.get('symlink'):
                chk.monitor_hits['schedules_with_symlinked_source'] += r['runs']
            chk.monitor_hits['schedules_judged'] += r['runs']
            if r['exhausted']:
                chk.monitor_hits['operation_pairs_exhausted'] += 1
        elif kind == 'corrupt':
            for kk, vv in r.get('corrupt', {}).items():
                chk.monitor_hits['unreadable_entries'] += vv
                chk.cls('corrupt|' + kk)
        else:
            c = r.get('crash', {})
            if c.get('harness'):
                hf += 1
                chk.extra.setdefault('harness_errors', []).append(c['harness'])
                continue
            crash_labels['%s|crossfs=%d|%s' % (c.get('label'), item[1][1], c.get('first_load'))] += 1
            chk.cls('crash|%s|crossfs=%d' % (c.get('label'), item[1][1]))
            chk.monitor_hits['crash_points' if kind == 'crash' else 'version_purge_crash_points'] += 1 if c.get('killed') else 0
        for key, what, replay in r['viol']:
            chk.violation(key, what, replay)
        if len(chk.samples) < 3 and kind == 'ex':
            chk.sample({'spec': item[1], 'runs': r['runs'], 'distinct_schedules': r['distinct'], 'exhausted': r['exhausted']})
    # workload B
    secs = (6 if quick else 120) * args.scale
    for crossfs in ((False,) if quick else (False, True)):
        b = stress(args.seed, secs, 8 if quick else 14, crossfs)
        chk.evaluations += b['loads']
        chk.monitor_hits['stress_loads'] += b['loads']
        chk.monitor_hits['stress_loads_overlapping_a_source_change'] += b['overlap']
        chk.monitor_hits['stress_kills'] += b['kills']
        chk.monitor_hits['stress_stores_observed'] += b.get('stores', 0)
        chk.cls('stress|crossfs=%d' % crossfs)
        seen = collections.Counter()
        for key, what in b['viol']:
            key += '@crossfs' if crossfs else ''
            seen[key] += 1
            if seen[key] <= 3:
                chk.violation(key, what, {'workload': 'stress', 'crossfs': crossfs})
    chk.extra.update(distinct_schedules=distinct, crash_outcomes=dict(crash_labels), harness_failures=hf)
    chk.require(chk.monitor_hits['schedules_judged'] > 0, 'no schedule judged')
    chk.require(chk.monitor_hits['crash_points'] > 5, 'crash injection did not kill the store')
    chk.require(chk.monitor_hits['version_purge_crash_points'] > 2, 'crash injection did not kill the version purge')
    chk.require(chk.monitor_hits['unreadable_entries'] > 20, 'too few unreadable entries tried')
    chk.require(chk.monitor_hits['stress_loads'] > 50, 'stress produced too few loads')
    chk.require(hf <= 2, 'harness failures: %d' % hf)
    chk.assumptions = ['scheduler workload replaces cachestore._get_versionhash by a per-operation constant (the real function is exercised by the stress workload)',
                       'logical clock used as mtime of every file the subject writes (equal timestamps never occur)',
                       'a cross-file-system publish is observable chunk by chunk (copy_function with yield points passed to the real shutil.move)']
    return chk.finish()
