"""C01 - parameter and return annotations are reflected exactly in the GIR.

Events : attributes of <parameter>/<instance-parameter>/<return-value> and of their <array>/<type>/<attribute>
         children in the GIR emitted by the real pipeline, for a *variant* callable carrying annotation set A and for
         *baseline* callables identical except that one annotation is removed; warning events with positions.
Oracle : three-valued rule table written from the property statement and giannotations.rst (VALID -> documented
         attribute value; INVALID -> a warning positioned on the line the annotation was written on AND the attribute
         equal in variant and baseline; UNSPECIFIED -> nothing asserted).
"""
import collections, json
from .. import core, girx, apigen, docgen

ELEM_OF = {'gint *': 'gint', 'guint *': 'guint', 'gdouble *': 'gdouble', 'gsize *': 'gsize', 'gboolean *': 'gboolean',
           'guint8 *': 'guint8', 'const guint8 *': 'guint8', 'int *': 'gint', 'gint64 *': 'gint64', 'gchar **': 'utf8',
           'char **': 'utf8', 'const gchar **': 'utf8', 'FooRec *': 'Rec', 'const FooRec *': 'Rec', 'FooUni *': 'Uni'}
TYPE_OPTS = {'utf8': 'utf8', 'gint': 'gint', 'guint8': 'guint8', 'GObject.Object': 'GObject.Object', 'FooRec': 'Rec',
             'Foo.Rec': 'Rec', 'filename': 'filename', 'gpointer': 'gpointer', 'gdouble': 'gdouble'}
PTR_ELEM_OPTS = ['utf8', 'GObject.Object', 'gpointer', 'FooRec', 'filename']


def final_direction(anns):
    if 'inout' in anns:
        return 'inout'
    if 'out' in anns:
        return 'out'
    return 'in'


def gen_site_annotations(rng, site, params, parent):
    """choose 0..3 annotations for a site; biased to plausible ones, with a share of implausible ones"""
    kind, sp, is_ret = site['kind'], site['sp'], site['is_ret']
    depth = apigen.pointer_depth(sp)
    pool = []
    plausible = ['skip', 'attributes']
    if depth or kind in ('gpointer', 'callback'):
        plausible += ['transfer', 'nullable', 'allow-none', 'not']
    if not is_ret and depth:
        plausible += ['out', 'inout', 'in', 'optional']
    if kind in ('intptr', 'strptr', 'record') and depth:
        plausible += ['array', 'array']
    if kind == 'list':
        plausible += ['element-type', 'element-type', 'transfer']
    if kind == 'gpointer' or kind == 'int':
        plausible += ['type']
    if kind == 'callback' and not is_ret:
        plausible += ['scope', 'scope', 'closure', 'destroy']
    if kind == 'gpointer' and parent == 'callback':
        plausible += ['closure']
    anywhere = ['transfer', 'nullable', 'optional', 'allow-none', 'scope', 'closure', 'destroy', 'element-type', 'skip', 'not']
    n = rng.choice([0, 1, 1, 1, 2, 2, 3])
    anns = collections.OrderedDict()
    for _ in range(n):
        a = rng.choice(plausible) if rng.random() < 0.65 else rng.choice(anywhere)
        if a in anns:
            continue
        if is_ret and a in ('in', 'out', 'inout', 'scope', 'closure', 'destroy', 'optional'):
            if a != 'optional':
                continue
        if a == 'transfer':
            o = [rng.choice(['none', 'full', 'container', 'floating'])]
        elif a == 'out':
            o = rng.choice([[], [], ['caller-allocates'], ['callee-allocates']])
        elif a == 'not':
            o = [rng.choice(['nullable', 'optional'])]
        elif a == 'scope':
            o = [rng.choice(['call', 'async', 'notified', 'forever'])]
        elif a == 'closure':
            cands = [p['name'] for p in params if p['kind'] == 'gpointer' and p['name'] != site.get('name')]
            if parent == 'callback':
                o = []
            elif cands:
                o = [rng.choice(cands)]
            else:
                continue
        elif a == 'destroy':
            cands = [p['name'] for p in params if p['sp'] == 'GDestroyNotify']
            if not cands:
                cands = [p['name'] for p in params if p['name'] != site.get('name')]
            if not cands:
                continue
            o = [rng.choice(cands)]
        elif a == 'array':
            o = collections.OrderedDict()
            lens = [p['name'] for p in params if p['kind'] == 'int' and p['sp'] in ('gint', 'guint', 'gsize', 'int') and p['name'] != site.get('name')]
            r = rng.random()
            if lens and r < 0.5:
                o['length'] = rng.choice(lens)
            elif r < 0.7:
                o['fixed-size'] = str(rng.choice([1, 4, 16]))
            if rng.random() < 0.4:
                o['zero-terminated'] = rng.choice([None, '0', '1'])
        elif a == 'element-type':
            if kind == 'list' and sp.startswith('GHashTable'):
                o = [rng.choice(PTR_ELEM_OPTS), rng.choice(PTR_ELEM_OPTS)] if rng.random() < 0.8 else [rng.choice(PTR_ELEM_OPTS)]
            else:
                o = [rng.choice(PTR_ELEM_OPTS)] if rng.random() < 0.85 else [rng.choice(PTR_ELEM_OPTS), 'utf8']
        elif a == 'type':
            o = [rng.choice(['utf8', 'filename', 'GObject.Object', 'FooRec'])] if kind == 'gpointer' else [rng.choice(['gint', 'gdouble'])]
        elif a == 'attributes':
            o = collections.OrderedDict()
            for _k in range(rng.choice([1, 2])):
                o['vt.k%d' % rng.randrange(50)] = rng.choice(['v1', 'x.y', '42', None])
        else:
            o = []
        anns[a] = o
    # conflicting pairs produce parser-level warnings of their own: keep sites clean of them
    if 'not' in anns:
        if anns['not'] == ['nullable'] and ('nullable' in anns or 'allow-none' in anns):
            del anns['not']
        elif anns['not'] == ['optional'] and 'optional' in anns:
            del anns['not']
    dirs = [a for a in ('in', 'out', 'inout') if a in anns]
    for d in dirs[1:]:
        del anns[d]
    return anns


def gen_group(rng, gi):
    parent = rng.choice(['function', 'function', 'method', 'callback', 'function', 'method', 'vfunc'])
    nparams = rng.choice([1, 2, 2, 3, 4])
    params = []
    kinds = [k for k in apigen.KINDS]
    names = ['arg', 'data', 'len', 'cb', 'obj', 'items', 'value', 'n_items', 'user_data', 'notify', 'out_val', 'str']
    rng.shuffle(names)
    for i in range(nparams):
        k = rng.choice(kinds)
        sp = rng.choice(apigen.KINDS[k])
        params.append({'kind': k, 'sp': sp, 'name': names[i], 'is_ret': False})
    arrangement = rng.random()
    if arrangement < 0.25:
        params.append({'kind': 'int', 'sp': rng.choice(['gint', 'guint', 'gsize']), 'name': 'n_elems', 'is_ret': False})
    if arrangement > 0.6 and parent != 'callback':
        params.append({'kind': 'callback', 'sp': 'FooCallback', 'name': 'func', 'is_ret': False})
        params.append({'kind': 'gpointer', 'sp': 'gpointer', 'name': rng.choice(['func_data', 'closure_arg']), 'is_ret': False})
        if rng.random() < 0.4:
            params.append({'kind': 'destroy', 'sp': 'GDestroyNotify', 'name': 'dnotify', 'is_ret': False})
    # every third group carries an array with a named length parameter, in each direction and either order
    lenarr = None
    if gi % 3 == 2:
        ak = rng.choice(['intptr', 'strptr', 'record'])
        arr = {'kind': ak, 'sp': rng.choice(apigen.KINDS[ak]), 'name': 'vals', 'is_ret': False}
        ln = {'kind': 'int', 'sp': rng.choice(['gint', 'guint', 'gsize']), 'name': 'n_vals', 'is_ret': False}
        pos = rng.randrange(len(params) + 1)
        params[pos:pos] = [arr, ln] if rng.random() < 0.6 else [ln, arr]
        lenarr = (arr, ln)
    # every third group has a bare (out) on a pointer to an aggregate, spelled directly or through a typedef alias
    outrec = None
    if gi % 3 == 1:
        outrec = {'kind': 'record', 'sp': rng.choice(['FooRecAlias *', 'FooUniAlias *', 'FooRec *', 'FooUni *']), 'name': 'out_rec', 'is_ret': False}
        params.insert(rng.randrange(len(params) + 1), outrec)
    rk = rng.choice(apigen.RETURN_KINDS)
    ret = {'kind': rk, 'sp': 'void' if rk == 'void' else rng.choice(apigen.KINDS[rk]), 'is_ret': True, 'name': None}
    if lenarr and rng.random() < 0.25:
        # the array is the return value; its length parameter stays among the parameters
        params.remove(lenarr[0])
        rk = rng.choice(['intptr', 'strptr', 'record'])
        ret = {'kind': rk, 'sp': rng.choice(apigen.KINDS[rk]), 'is_ret': True, 'name': None}
        lenarr = (ret, lenarr[1])
    sites = []
    for p in params:
        p['anns'] = gen_site_annotations(rng, p, params, parent) if p['kind'] != 'destroy' else collections.OrderedDict()
        sites.append(p)
    ret['anns'] = gen_site_annotations(rng, ret, params, parent) if rk != 'void' else collections.OrderedDict()
    sites.append(ret)
    # cap the number of annotations (one baseline callable per annotation)
    total = [(s, a) for s in sites for a in s['anns']]
    if outrec:
        total = [(s2, a) for s2, a in total if s2 is not outrec]
        outrec['anns'] = collections.OrderedDict([('out', [])])
    while len(total) > (2 if lenarr else (3 if outrec else 4)):
        s, a = total.pop(rng.randrange(len(total)))
        del s['anns'][a]
    if lenarr:
        arr, ln = lenarr
        d = None if arr['is_ret'] else rng.choice([None, 'out', 'inout', 'inout'])
        arr['anns'] = collections.OrderedDict(([(d, [])] if d else []) + [('array', collections.OrderedDict([('length', 'n_vals')]))])
        ln['anns'] = collections.OrderedDict()
    return {'parent': parent, 'params': params, 'ret': ret, 'gi': gi}


def callable_name(g, suffix):
    if g['parent'] == 'function':
        return 'foo_fn%d_%s' % (g['gi'], suffix)
    if g['parent'] == 'method':
        return 'foo_rec_m%d_%s' % (g['gi'], suffix)
    if g['parent'] == 'vfunc':
        return 'vf%d_%s' % (g['gi'], suffix)
    return 'FooCb%d%s' % (g['gi'], suffix.upper())


def render_group(g, hdr, src, rng):
    """adds variant + baselines; returns list of emitted callables with line info"""
    out = []
    annlist = [(si, a) for si, s in enumerate(g['params'] + [g['ret']]) for a in s['anns']]
    variants = [('v', None)] + [('b%d' % j, j) for j in range(len(annlist))]
    for suffix, drop in variants:
        name = callable_name(g, suffix)
        plist = [(p['sp'], p['name']) for p in g['params']]
        if g['parent'] == 'method':
            plist = [('FooRec *', 'self')] + plist
        if g['parent'] == 'vfunc':
            # a slot of the class structure of FooVobj (declared at the end of the header by run_case)
            plist = [('FooVobj *', 'self')] + plist
            if not hasattr(hdr, 'vmembers'):
                hdr.vmembers = []
            r = g['ret']['sp']
            hdr.vmembers.append('  %s(*%s) (%s);' % (r if r.endswith('*') else r + ' ', name, ', '.join(apigen.decl(sp, n) for sp, n in plist)))
        elif g['parent'] == 'callback':
            r = g['ret']['sp']
            ps = ', '.join(apigen.decl(sp, n) for sp, n in plist) or 'void'
            hdr.add('typedef %s(*%s) (%s);' % (r if r.endswith('*') else r + ' ', name, ps))
        else:
            hdr.add(apigen.render_function(name, g['ret']['sp'], plist))
        block = {'kind': 'symbol' if g['parent'] != 'callback' else 'type', 'name': name if g['parent'] != 'vfunc' else 'FooVobjClass::' + name,
                 'annotations': collections.OrderedDict(),
                 'params': [], 'description': ['Callable %s.' % name], 'tags': []}
        sites = g['params'] + [g['ret']]
        for si, s in enumerate(sites):
            anns = collections.OrderedDict((a, o) for a, o in s['anns'].items() if drop is None or annlist[drop] != (si, a))
            if s['is_ret']:
                if s['kind'] != 'void':
                    block['tags'].append({'name': 'returns', 'annotations': anns, 'value': None, 'description': ['the result']})
            else:
                block['params'].append({'name': s['name'], 'annotations': anns, 'description': ['a parameter']})
        if g['parent'] in ('method', 'vfunc'):
            block['params'].insert(0, {'name': 'self', 'annotations': collections.OrderedDict(), 'description': ['the record']})
        text, info = docgen.render_block(rng, block, {'split_anns': False})
        first = src.add(text)
        src.add('')
        lines = {}
        for pname, li in info['params'].items():
            lines[pname] = first + 1 + li
        if 'returns' in info['tags']:
            lines[None] = first + 1 + info['tags']['returns']
        out.append({'suffix': suffix, 'drop': drop, 'name': name, 'lines': lines})
    return out, annlist


def rule(ann, opts, site, g, pindex):
    """-> ('VALID', {attr: value or None(absent)}, extra) | ('INVALID', [attrs]) | ('UNSPEC',)"""
    kind, sp, is_ret, anns = site['kind'], site['sp'], site['is_ret'], site['anns']
    depth = apigen.pointer_depth(sp)
    parent = g['parent']
    fdir = 'in' if is_ret else final_direction(anns)
    pointerish = depth >= 1 or kind in ('gpointer', 'callback')
    has_type = 'type' in anns
    if kind == 'destroy' or sp in ('GDestroyNotify',):
        return ('UNSPEC',)
    if has_type and ann not in ('type', 'skip', 'attributes'):
        return ('UNSPEC',)
    if not is_ret:
        for other in g['params']:
            if other is site:
                continue
            oarr = other['anns'].get('array')
            # named as the length of an out/inout array: the parameter follows the array's direction whatever its own
            # declaration says.  If it has no direction annotation of its own and is not declared as a pointer, the
            # description contradicts itself (gint length of an inout array); what nullable/optional/transfer mean on it
            # is then not specified
            if isinstance(oarr, dict) and oarr.get('length') == site['name'] and final_direction(other['anns']) in ('out', 'inout') \
                    and not any(d in anns for d in ('in', 'out', 'inout')) and ann in ('nullable', 'optional', 'allow-none', 'not', 'transfer'):
                return ('UNSPEC',)
            # named as the destroy notify of another callback: maintransformer deliberately gives the destroy parameter the
            # scope 'notified' ("technically bogus", its own comment says); a scope annotation on a parameter that is at the
            # same time somebody's destroy notify is a contradictory description
            odes = other['anns'].get('destroy')
            if ann == 'scope' and odes and (odes[0] if isinstance(odes, list) else None) == site['name']:
                return ('UNSPEC',)
    if ann == 'skip':
        return ('VALID', {'skip': '1'}, None)
    if ann == 'attributes':
        return ('VALID', {}, ('attributes', [(k, v) for k, v in opts.items() if v]))
    if ann == 'transfer':
        x = opts[0]
        if x == 'floating':
            if kind in ('object', 'variant', 'closure') and depth == 1:
                return ('VALID', {'transfer-ownership': 'none'}, None)
            if kind in ('int', 'alias', 'enum', 'string', 'intptr', 'record', 'gpointer', 'list') and 'array' not in anns:
                return ('INVALID', ['transfer-ownership'])
            return ('UNSPEC',)
        if x == 'container':
            if (kind == 'list' and depth == 1) or ('array' in anns and kind in ('intptr', 'strptr', 'record')):
                return ('VALID', {'transfer-ownership': 'container'}, None)
            if kind in ('int', 'alias', 'string', 'record', 'object', 'gpointer', 'intptr', 'variant', 'closure') and 'array' not in anns \
                    and 'element-type' not in anns:
                return ('INVALID', ['transfer-ownership'])
            return ('UNSPEC',)
        if kind in ('int', 'alias') and fdir == 'in':
            return ('INVALID', ['transfer-ownership'])
        if kind in ('enum', 'callback'):
            return ('UNSPEC',)
        if pointerish or fdir in ('out', 'inout'):
            return ('VALID', {'transfer-ownership': x}, None)
        return ('UNSPEC',)
    if ann in ('in', 'out', 'inout'):
        if is_ret:
            return ('UNSPEC',)
        if ann == 'in':
            return ('VALID', {'direction': None}, None)
        if depth == 0:
            return ('UNSPEC',)
        if ann == 'inout':
            return ('VALID', {'direction': 'inout', 'caller-allocates': '0'}, None)
        if opts == ['caller-allocates']:
            ca = '1'
        elif opts == ['callee-allocates']:
            ca = '0'
        else:
            if 'array' in anns or 'element-type' in anns:
                return ('VALID', {'direction': 'out'}, None)
            ca = '1' if (kind in ('record', 'variant', 'closure') and depth == 1) else '0'
            if kind in ('enumptr',):
                return ('VALID', {'direction': 'out'}, None)
        return ('VALID', {'direction': 'out', 'caller-allocates': ca}, None)
    if ann == 'nullable':
        if 'not' in anns:
            return ('UNSPEC',)
        if kind in ('int', 'alias') and fdir == 'in':
            return ('INVALID', ['nullable'])
        if kind == 'enum' and fdir == 'in':
            return ('UNSPEC',)
        if pointerish or fdir in ('out', 'inout'):
            return ('VALID', {'nullable': '1'}, None)
        return ('UNSPEC',)
    if ann == 'optional':
        if not is_ret and fdir in ('out', 'inout'):
            return ('VALID', {'optional': '1'}, None)
        return ('INVALID', ['optional'])
    if ann == 'allow-none':
        if 'not' in anns:
            return ('UNSPEC',)
        if not is_ret and fdir == 'out':
            return ('VALID', {'optional': '1'}, None)
        if pointerish or fdir == 'inout':
            return ('VALID', {'nullable': '1'}, None)
        if kind in ('int', 'alias'):
            return ('INVALID', ['nullable', 'optional'])
        return ('UNSPEC',)
    if ann == 'not':
        if opts == ['nullable']:
            return ('VALID', {'nullable': None}, None)
        if 'optional' in anns or 'allow-none' in anns:
            return ('UNSPEC',)
        return ('VALID', {'optional': None}, ('same-as-baseline', ['nullable']))
    if ann == 'array':
        if kind not in ('intptr', 'strptr', 'record') or depth == 0:
            return ('UNSPEC',)
        exp = {}
        if opts.get('length'):
            exp['length'] = str(pindex[opts['length']])
        else:
            exp['length'] = None
        if opts.get('fixed-size'):
            exp['fixed-size'] = opts['fixed-size']
        else:
            exp['fixed-size'] = None
        if 'zero-terminated' in opts:
            zt = opts['zero-terminated']
            if zt == '0':
                exp['zero-terminated'] = '0'
            else:
                exp['zero-terminated'] = '1' if (opts.get('length') or opts.get('fixed-size')) else None
        else:
            exp['zero-terminated'] = '0'
        elem = None
        if 'element-type' in anns and len(anns['element-type']) == 1:
            elem = TYPE_OPTS.get(anns['element-type'][0])
        elif 'element-type' not in anns:
            elem = ELEM_OF.get(sp) if fdir == 'in' or is_ret else None
        return ('VALID', {}, ('array', exp, elem, opts.get('length'), 'out' if is_ret else fdir))
    if ann == 'element-type':
        if 'array' in anns:
            return ('UNSPEC',)      # judged together with (array)
        if kind == 'list' and depth == 1:
            base = apigen.base_of(sp)
            need = 2 if base == 'GHashTable' else 1
            if base == 'GByteArray':
                return ('UNSPEC',)
            if len(opts) != need:
                return ('INVALID', ['@type'])
            return ('VALID', {}, ('container', [TYPE_OPTS[o] for o in opts]))
        if kind in ('int', 'alias', 'enum', 'string', 'record', 'object', 'gpointer', 'variant', 'closure', 'callback'):
            return ('INVALID', ['@type'])
        return ('UNSPEC',)
    if ann == 'type':
        t = TYPE_OPTS.get(opts[0])
        if t is None:
            return ('UNSPEC',)
        return ('VALID', {}, ('type', t))
    if ann == 'scope':
        if is_ret:
            return ('UNSPEC',)
        if parent == 'callback':
            return ('UNSPEC',)
        if kind == 'callback':
            # a destroy-notify following the callback or a (destroy) annotation decide the scope themselves
            later_destroy = any(p['sp'] == 'GDestroyNotify' for p in g['params'])
            if later_destroy or 'destroy' in anns:
                return ('UNSPEC',)
            return ('VALID', {'scope': opts[0]}, None)
        if kind in ('int', 'alias', 'enum', 'string', 'record', 'object', 'gpointer', 'list', 'intptr', 'strptr', 'variant'):
            return ('INVALID', ['scope'])
        return ('UNSPEC',)
    if ann == 'closure':
        if is_ret:
            return ('UNSPEC',)
        if parent == 'callback':
            if kind == 'gpointer' and opts == []:
                return ('VALID', {'closure': str(pindex[site['name']])}, None)
            return ('UNSPEC',)
        if kind == 'callback':
            if len(opts) == 1 and opts[0] in pindex:
                return ('VALID', {'closure': str(pindex[opts[0]])}, None)
            return ('UNSPEC',)
        if kind in ('int', 'alias', 'enum', 'string', 'record', 'object', 'gpointer', 'list', 'intptr', 'strptr', 'variant'):
            return ('INVALID', ['closure'])
        return ('UNSPEC',)
    if ann == 'destroy':
        if is_ret or parent == 'callback':
            return ('UNSPEC',)
        if kind == 'callback':
            if len(opts) == 1 and opts[0] in pindex:
                return ('VALID', {'destroy': str(pindex[opts[0]]), 'scope': 'notified'}, None)
            return ('UNSPEC',)
        if kind in ('int', 'alias', 'enum', 'string', 'record', 'object', 'gpointer', 'list', 'intptr', 'strptr', 'variant'):
            return ('INVALID', ['destroy'])
        return ('UNSPEC',)
    return ('UNSPEC',)


def find_callable(ns, g, name):
    if g['parent'] == 'callback':
        for n in ns.findall('callback'):
            if n.get('c:type') == name:
                return n
        return None
    if g['parent'] == 'vfunc':
        for c in ns.findall('class'):
            if c.get('c:type') == 'FooVobj':
                for n in c.findall('virtual-method'):
                    if n.get('name') == name:
                        return n
        return None
    for n in ns.iter('function', 'method', 'constructor'):
        if n.get('c:identifier') == name:
            return n
    return None


def site_node(cnode, site):
    if site['is_ret']:
        return cnode.find('return-value')
    inst, ps = girx.params_of(cnode)
    for p in ([inst] if inst is not None else []) + ps:
        if p.get('name') == site['name']:
            return p
    return None


def type_child_sig(node):
    return girx.type_sig(girx.type_of(node))


_st = {}


def setup_subject():
    if _st:
        return _st
    from .. import scan
    scan.setup()
    scan.count_entries('maintransformer', 'MainTransformer',
                       ['_apply_annotations_param_ret_common', '_apply_transfer_annotation', '_apply_annotations_array',
                        '_apply_annotations_element_type', '_apply_annotations_param_callback', '_apply_annotations_param_closure',
                        '_is_pointer_type', '_resolve'])
    scan.count_entries('girwriter', 'GIRWriter', ['_write_parameter', '_write_return_type', '_write_type'])
    _st['scan'] = scan
    return _st


SIG_GI = {'gint': 'gint', 'guint': 'guint', 'gdouble': 'gdouble', 'gchararray': 'utf8', 'gpointer': 'gpointer', 'GObject': 'GObject.Object', 'void': 'none',
          'GStrv': None}


def gen_signals(rng, n):
    """signals of the class FooVobj (types come from the runtime dump, annotations from a 'FooVobj::name' block); only
    annotations that are valid at their site, each with the attribute the documentation gives it"""
    sigs = []
    for k in range(n):
        ret = rng.choice(['void', 'void', 'gint', 'gchararray', 'gpointer', 'GObject'])
        ptypes = [rng.choice(['gint', 'guint', 'gdouble', 'gchararray', 'gpointer', 'GObject']) for _ in range(rng.choice([0, 1, 2, 3]))]
        names = ['arg%d' % i for i in range(len(ptypes))]
        exp = []          # (site name or None for the return value, what, expected)
        anns = {nm: [] for nm in names}
        anns[None] = []
        ints = [nm for nm, t in zip(names, ptypes) if t in ('gint', 'guint')]
        for nm, t in list(zip(names, ptypes)) + [(None, ret)]:
            if t in ('gchararray', 'gpointer', 'GObject') and rng.random() < 0.5:
                anns[nm].append('(nullable)')
                exp.append((nm, 'attr', ('nullable', '1')))
            if t == 'gpointer' and ints and rng.random() < 0.6:
                ln = rng.choice(ints)
                anns[nm].append('(array length=%s) (element-type guint8)' % ln)
                exp.append((nm, 'array-length', names.index(ln)))
                if nm is None:
                    anns[nm].append('(transfer none)')
            elif t == 'gpointer' and rng.random() < 0.4:
                ty = rng.choice(['utf8', 'GObject.Object'])
                anns[nm].append('(type %s)' % ty)
                exp.append((nm, 'type', ty))
            if nm is None and t in ('gchararray', 'GObject') and rng.random() < 0.6:
                tr = rng.choice(['full', 'none'])
                anns[nm].append('(transfer %s)' % tr)
                exp.append((nm, 'attr', ('transfer-ownership', tr)))
            if rng.random() < 0.3 and (nm is not None or t != 'void'):
                anns[nm].append('(attributes vt.s%d=v%d)' % (k, k))
                exp.append((nm, 'attribute', ('vt.s%d' % k, 'v%d' % k)))
        sigs.append({'name': 'sg%d' % k, 'ret': ret, 'ptypes': ptypes, 'pnames': names, 'anns': anns, 'exp': exp})
    return sigs


def render_signals(sigs):
    d, blocks = [], []
    for sg in sigs:
        d.append('    <signal name="%s" return="%s" when="last">' % (sg['name'], sg['ret']))
        for t in sg['ptypes']:
            d.append('      <param type="%s"/>' % t)
        d.append('    </signal>')
        L = ['/**', ' * FooVobj::%s:' % sg['name'], ' * @self: the object']
        for nm in sg['pnames']:
            L.append(' * @%s: %sa parameter' % (nm, (' '.join(sg['anns'][nm]) + ': ') if sg['anns'][nm] else ''))
        L += [' *', ' * Signal %s.' % sg['name']]
        if sg['ret'] != 'void':
            L += [' *', ' * Returns: %sthe result' % ((' '.join(sg['anns'][None]) + ': ') if sg['anns'][None] else '')]
        L.append(' */')
        blocks.append('\n'.join(L))
    return '\n'.join(d), '\n\n'.join(blocks) + '\n'


def judge_signals(ns, sigs, res, replay):
    cls = [n for n in ns.findall('class') if n.get('glib:type-name') == 'FooVobj']
    if not cls:
        res['viol'].append(('signal:class-missing', 'class FooVobj missing', replay))
        return
    for sg in sigs:
        nodes = [n for n in cls[0].findall('glib:signal') if n.get('name') == sg['name']]
        if len(nodes) != 1:
            res['viol'].append(('signal:missing', 'signal %s: %d elements' % (sg['name'], len(nodes)), replay))
            continue
        n = nodes[0]
        _, ps = girx.params_of(n)
        if [p.get('name') for p in ps] != sg['pnames']:
            res['viol'].append(('signal:parameter-names', 'signal %s: parameters %r, block names them %r' % (sg['name'], [p.get('name') for p in ps], sg['pnames']), replay))
            continue
        for nm, what, val in sg['exp']:
            site = n.find('return-value') if nm is None else ps[sg['pnames'].index(nm)]
            where = 'signal FooVobj::%s %s [%s]' % (sg['name'], 'return value' if nm is None else 'parameter ' + nm, ' '.join(sg['anns'][nm]))
            res['hits']['signal_annotation_judged'] += 1
            if what == 'attr':
                if site.get(val[0]) != val[1]:
                    res['viol'].append(('signal:%s' % val[0], '%s: %s=%r, documented %r' % (where, val[0], site.get(val[0]), val[1]), replay))
            elif what == 'attribute':
                got = [(a.get('name'), a.get('value')) for a in site.findall('attribute')]
                if val not in got:
                    res['viol'].append(('signal:attributes', '%s: attributes %r' % (where, got), replay))
            elif what == 'type':
                t = girx.type_of(site)
                if t is None or t.get('name') != val:
                    res['viol'].append(('signal:type', '%s: type %r' % (where, t.get('name') if t is not None else None), replay))
            elif what == 'array-length':
                t = girx.type_of(site)
                if t is None or t.tag != 'array' or t.get('length') != str(val):
                    res['viol'].append(('signal:array-length', '%s: %s length=%r, documented index %d' % (where, t.tag if t is not None else None, t.get('length') if t is not None else None, val), replay))


def run_case(case):
    seed, idx = case
    st = setup_subject()
    scan = st['scan']
    rng = core.rng_for(seed, 'c01', idx)
    hdr = apigen.Source('/src/foo.h')
    src = apigen.Source('/src/foo.c')
    hdr.add(apigen.PRELUDE)
    groups = []
    for gi in range(rng.choice([3, 5, 7])):
        g = gen_group(rng, gi)
        emitted, annlist = render_group(g, hdr, src, rng)
        groups.append((g, emitted, annlist))
    m0 = dict(scan.mech)
    dump = None
    sigs = gen_signals(rng, rng.choice([1, 2, 3])) if idx % 2 == 0 else []
    if getattr(hdr, 'vmembers', None) or sigs:
        sdump, sblocks = render_signals(sigs)
        if sigs:
            src.add(sblocks)
        hdr.add('typedef struct _FooVobj FooVobj;\ntypedef struct _FooVobjClass FooVobjClass;\nstruct _FooVobj {\n  GObject parent_instance;\n};\n'
                'struct _FooVobjClass {\n  GObjectClass parent_class;\n%s\n};\nGType foo_vobj_get_type (void);' % '\n'.join(getattr(hdr, 'vmembers', None) or ['  gpointer pad;']))
        dump = '<?xml version="1.0"?>\n<dump>\n  <class name="FooVobj" get-type="foo_vobj_get_type" parents="GObject">\n%s\n  </class>\n</dump>\n' % sdump
    lib = apigen.library(headers=[(hdr.filename, hdr.text())], sources=[(src.filename, src.text())], **({'dump': dump} if dump else {}))
    r = scan.scan(lib)
    res = {'mech': {}, 'hits': collections.Counter(), 'classes': [], 'viol': []}
    replay = {'header': hdr.text(), 'source': src.text()}
    if r['exception']:
        res['viol'].append(('exception:' + r['exception'].split(':')[0], r['exception'] + '\n' + r.get('traceback', ''), replay))
        return res
    if r['gir'] is None:
        res['viol'].append(('fatal', 'scanner stopped: %s' % (r['fatal'] or '')[:300], replay))
        return res
    if r.get('scan_errors'):
        res['harness'] = 'stand-in parse errors %r' % r['scan_errors'][:2]
        return res
    res['mech'] = {k: v - m0.get(k, 0) for k, v in scan.mech.items() if v - m0.get(k, 0)}
    root = girx.parse_string(r['gir'])
    ns = girx.namespace(root)
    warn_lines = collections.Counter()
    for e in r['events']:
        if e['type'] == 0:
            for (fn, line, col) in e['positions']:
                if fn == '/src/foo.c':
                    warn_lines[line] += 1
    if sigs:
        judge_signals(ns, sigs, res, replay)
    for g, emitted, annlist in groups:
        sites = g['params'] + [g['ret']]
        pindex = {p['name']: i for i, p in enumerate(g['params'])}
        vnode = find_callable(ns, g, emitted[0]['name'])
        if vnode is None:
            res['hits']['callable_missing'] += 1
            continue
        for j, (si, ann) in enumerate(annlist):
            site = sites[si]
            opts = site['anns'][ann]
            verdict = rule(ann, opts, site, g, pindex)
            ckey = '%s|%s|%s|%s|%s|%s' % (ann, (opts[0] if isinstance(opts, list) and opts else ('+'.join(opts) if isinstance(opts, dict) else '')),
                                          site['kind'], 'ret' if site['is_ret'] else final_direction(site['anns']), g['parent'], verdict[0])
            if verdict[0] == 'UNSPEC':
                res['hits']['unspecified'] += 1
                continue
            bname = emitted[1 + j]['name']
            bnode = find_callable(ns, g, bname)
            vs = site_node(vnode, site)
            bs = site_node(bnode, site) if bnode is not None else None
            if vs is None:
                res['viol'].append(('site-missing', 'no <%s> for %r in %s' % ('return-value' if site['is_ret'] else 'parameter', site['name'], emitted[0]['name']), replay))
                continue
            where = '%s %s of %s [(%s%s) on %s %s]' % ('return value' if site['is_ret'] else 'parameter', site['name'] or '', emitted[0]['name'],
                                                     ann, (' ' + json.dumps(opts)) if opts else '', site['sp'], g['parent'])
            if verdict[0] == 'VALID':
                res['hits']['valid_judged'] += 1
                for attr, val in verdict[1].items():
                    got = vs.get(attr)
                    if got != val:
                        res['viol'].append(('valid:%s:%s' % (ann, attr), '%s: %s=%r, documented value %r' % (where, attr, got, val), replay))
                extra = verdict[2]
                if extra:
                    if extra[0] == 'attributes':
                        got = sorted((a.get('name'), a.get('value')) for a in vs.findall('attribute'))
                        if got != sorted(extra[1]):
                            res['viol'].append(('valid:attributes', '%s: <attribute> children %r, expected %r' % (where, got, sorted(extra[1])), replay))
                    elif extra[0] == 'same-as-baseline' and bs is not None:
                        for attr in extra[1]:
                            if vs.get(attr) != bs.get(attr):
                                res['viol'].append(('valid:%s:changes-%s' % (ann + '-' + opts[0], attr), '%s: %s=%r but %r without the annotation' % (
                                    where, attr, vs.get(attr), bs.get(attr)), replay))
                    elif extra[0] == 'array':
                        _, exp, elem, lname, adir = extra
                        t = girx.type_of(vs)
                        if t is None or t.tag != 'array':
                            res['viol'].append(('valid:array:not-array', '%s: child is %r' % (where, t), replay))
                        else:
                            for attr, val in exp.items():
                                if t.get(attr) != val:
                                    res['viol'].append(('valid:array:' + attr, '%s: <array %s=%r>, documented %r' % (where, attr, t.get(attr), val), replay))
                            if elem is not None:
                                et = girx.type_of(t)
                                if et is None or et.get('name') != elem:
                                    res['viol'].append(('valid:array:element', '%s: element type %r, expected %r' % (where, et, elem), replay))
                            shared = sum(1 for s2 in sites if isinstance(s2['anns'].get('array'), dict) and s2['anns']['array'].get('length') == lname)
                            lsite = [p for p in g['params'] if p['name'] == lname]
                            if lname and shared == 1 and lsite and not any(a in lsite[0]['anns'] for a in ('in', 'out', 'inout')):
                                lp = site_node(vnode, {'is_ret': False, 'name': lname})
                                want = None if adir == 'in' else adir
                                res['hits']['length_direction:%s' % adir] += 1
                                if lp is not None and lp.get('direction') != want:
                                    res['viol'].append(('valid:array:length-direction', '%s: length parameter %s has direction=%r, array is %s' % (
                                        where, lname, lp.get('direction'), adir), replay))
                    elif extra[0] == 'container':
                        t = girx.type_of(vs)
                        got = [c.get('name') for c in t.children if c.tag in ('type', 'array')] if t is not None else None
                        if got != extra[1]:
                            res['viol'].append(('valid:element-type', '%s: element types %r, expected %r' % (where, got, extra[1]), replay))
                    elif extra[0] == 'type':
                        t = girx.type_of(vs)
                        if t is None or t.get('name') != extra[1]:
                            res['viol'].append(('valid:type', '%s: type %r, expected %r' % (where, t, extra[1]), replay))
            else:
                res['hits']['invalid_judged'] += 1
                line = emitted[0]['lines'].get(site['name'])
                if not warn_lines.get(line):
                    res['viol'].append(('invalid:%s:no-warning' % ann, '%s: invalid at this site but no warning positioned on line %s' % (where, line), replay))
                if bs is not None:
                    for attr in verdict[1]:
                        if attr == '@type':
                            if type_child_sig(vs) != type_child_sig(bs):
                                res['viol'].append(('invalid:%s:changed-type' % ann, '%s: invalid annotation changed the type %r -> %r' % (
                                    where, type_child_sig(bs), type_child_sig(vs)), replay))
                        elif vs.get(attr) != bs.get(attr):
                            res['viol'].append(('invalid:%s:changed-%s' % (ann, attr), '%s: invalid annotation changed %s from %r to %r' % (
                                where, attr, bs.get(attr), vs.get(attr)), replay))
            res['classes'].append(ckey)
    if idx < 2:
        res['sample'] = {'header': hdr.text()[-800:], 'source': src.text()[:1200]}
    res['hits'] = dict(res['hits'])
    return res


def run(args):
    chk = core.Check('C01', args.tier, args.seed,
                     'generated libraries of callables (functions, methods, callback typedefs) with 1-6 parameters over 17 value '
                     'kinds and 0-4 annotations; each annotated callable is scanned together with one baseline per annotation; '
                     'class = (annotation, first option, value kind, direction, callable kind, verdict of the rule table); '
                     'non-trivial = a differential that the rule table decides (VALID or INVALID)')
    n = int((400 if args.tier == 'quick' else 30000) * args.scale)
    cases = [(args.seed, i) for i in range(n)]
    cases = core.replay_cases(args, cases)
    B = 8
    batches = [cases[k:k + B] for k in range(0, len(cases), B)]
    harness = []
    for _, b, results in core.forkmap(lambda bb: [run_case(c) for c in bb], batches, isolated=False):
        if isinstance(results, dict):
            harness.append(str(results)[:400])
            continue
        for c, r in zip(b, results):
            chk.evaluations += 1
            chk.merge_counts(r)
            if 'harness' in r:
                harness.append(r['harness'])
            for key, what, replay in r.get('viol', []):
                chk.violation(key, what, dict(replay, case=c))
            if 'sample' in r:
                chk.sample(r['sample'])
    chk.extra['harness_failures'] = harness[:5]
    for m in ('MainTransformer._apply_annotations_param_ret_common', 'MainTransformer._apply_transfer_annotation',
              'MainTransformer._apply_annotations_array', 'MainTransformer._apply_annotations_element_type',
              'MainTransformer._apply_annotations_param_callback', 'MainTransformer._apply_annotations_param_closure',
              'GIRWriter._write_parameter'):
        chk.require(chk.mechanism_entries[m] > 0, 'mechanism %s never entered' % m)
    chk.require(chk.monitor_hits['valid_judged'] > 0 and chk.monitor_hits['invalid_judged'] > 0, 'rule table decided nothing')
    chk.require(len(harness) <= max(2, n // 50), 'harness failures: %r' % harness[:2])
    chk.assumptions = ['C front end replaced by the stand-in parser; dependency GIRs are small stubs of GLib/GObject/Gio',
                       'several annotations on one site are judged one differential at a time; combinations the documentation does not pin down are UNSPECIFIED',
                       'no signals / virtual methods in this generator (they need a runtime dump; covered through C12\'s generator)']
    return chk.finish()
