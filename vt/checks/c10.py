"""C10 - well-formed GTK-Doc comment blocks are parsed exactly.

Events : the GtkDocCommentBlock tree returned by the real parse_comment_block for a rendered block model, the text
         returned by GtkDocCommentBlockWriter.write, and every diagnostic recorded at MessageLogger.log.
Oracle : by construction - model -> text (random layout) -> parser must give back the model; strict-vocabulary blocks
         must be parsed without a single diagnostic; parts carry the line they were written on; write/parse round trip.
         Upstream's 380 <input>/<parser> vectors are replayed as a fixed sub-corpus (expected trees are upstream's).
"""
import os, sys, glob, collections, json
import xml.etree.ElementTree as ET
from .. import core, docgen

_st = {}


def setup_subject():
    if _st:
        return _st
    from .. import scan
    G = scan.setup()
    scan.count_entries('annotationparser', 'GtkDocCommentBlockParser',
                       ['parse_comment_block', '_parse_annotations', '_parse_annotation', '_parse_annotation_options_list',
                        '_parse_annotation_options_dict', '_parse_annotation_options_unknown', '_parse_fields'])
    scan.count_entries('annotationparser', 'GtkDocCommentBlockWriter',
                       ['write', '_serialize_annotations', '_serialize_parameter', '_serialize_tag'])
    _st.update(scan=scan, G=G, ap=G['annotationparser'], message=G['message'])
    return _st


def parse(st, text, filename='/src/foo.c', lineno=10):
    from .. import scan
    st['message'].MessageLogger._instance = None
    import io
    logger = st['message'].MessageLogger.get(namespace=None, output=io.StringIO())
    logger.enable_warnings(True)
    del scan._events[:]
    block = st['ap'].GtkDocCommentBlockParser().parse_comment_block(text, filename, lineno)
    return block, list(scan._events)


def diff(a, b, path=''):
    if a == b:
        return None
    if isinstance(a, dict) and isinstance(b, dict):
        for k in a:
            d = diff(a[k], b.get(k), path + '/' + k)
            if d:
                return d
    if isinstance(a, list) and isinstance(b, list) and len(a) == len(b):
        for i, (x, y) in enumerate(zip(a, b)):
            d = diff(x, y, '%s[%d]' % (path, i))
            if d:
                return d
    return '%s: expected %r, parsed %r' % (path, a, b)


def run_case(case):
    seed, idx, nlayouts = case
    st = setup_subject()
    rng = core.rng_for(seed, 'c10', idx)
    strict = rng.random() < 0.7
    model = docgen.gen_block(rng, strict=strict)
    want = docgen.neutral_from_model(model)
    from .. import scan
    m0 = dict(scan.mech)
    res = {'classes': [], 'hits': collections.Counter(), 'viol': []}
    for li in range(nlayouts):
        layout = docgen.gen_layout(rng) if li else {}
        text, info = docgen.render_block(rng, model, layout)
        lineno = rng.choice([1, 10, 1000])
        try:
            block, events = parse(st, text, '/src/foo.c', lineno)
        except Exception as e:
            res['viol'].append(('exception:' + type(e).__name__, 'parser raised %r' % (e,), text))
            continue
        res['hits']['parsed'] += 1
        if block is None:
            res['viol'].append(('block-lost', 'parser returned None for a well-formed block', text))
            continue
        got = docgen.neutral_from_parsed(block)
        d = diff(want, got)
        if d:
            res['viol'].append(('tree:' + d.split(':')[0].split('[')[0].strip('/'), d, text))
            continue
        res['hits']['tree_equal'] += 1
        errs = [e for e in events if e['type'] != 0]
        if errs:
            res['viol'].append(('error-on-wellformed', 'error diagnostic %r for well-formed input' % (errs[0]['text'],), text))
        if strict:
            if events:
                res['viol'].append(('warning-on-wellformed', 'diagnostic %r for a well-formed block' % (events[0]['text'],), text))
            res['hits']['silence_checked'] += 1
        # positions: block at lineno, each param/tag on its own line
        if block.position.line != lineno or block.position.filename != '/src/foo.c':
            res['viol'].append(('position-block', 'block position %r, expected line %d' % (block.position, lineno), text))
        for pname, li0 in info['params'].items():
            p = block.params.get(pname)
            if p is not None and p.position.line != lineno + 1 + li0:
                res['viol'].append(('position-param', '@%s position line %d, written on line %d' % (pname, p.position.line, lineno + 1 + li0), text))
            res['hits']['position_checked'] += 1
        for tname, li0 in info['tags'].items():
            t = block.tags.get(tname)
            if t is not None and t.position.line != lineno + 1 + li0:
                res['viol'].append(('position-tag', '%s: position line %d, written on line %d' % (tname, t.position.line, lineno + 1 + li0), text))
        # writer round trip
        try:
            w1 = st['ap'].GtkDocCommentBlockWriter(indent=rng.random() < 0.5).write(block).rstrip('\n')
            b2, ev2 = parse(st, w1, '/src/foo.c', lineno)
            if b2 is None:
                res['viol'].append(('roundtrip-lost', 'block written by the comment writer does not parse', w1))
                continue
            got2 = docgen.neutral_from_parsed(b2)
            d = diff(got, got2)
            if d:
                res['viol'].append(('roundtrip:' + d.split(':')[0].split('[')[0].strip('/'), 'write+parse changed the block: ' + d, text + '\n--- written ---\n' + w1))
                continue
            w2 = st['ap'].GtkDocCommentBlockWriter(indent=True).write(b2).rstrip('\n')
            b3, _ = parse(st, w2, '/src/foo.c', lineno)
            w3 = st['ap'].GtkDocCommentBlockWriter(indent=True).write(b3).rstrip('\n')
            if w2 != w3:
                res['viol'].append(('roundtrip-fixpoint', 'writer output is not a fixed point', w2 + '\n---\n' + w3))
            res['hits']['roundtrip'] += 1
        except Exception as e:
            res['viol'].append(('exception:' + type(e).__name__, 'writer/round trip raised %r' % (e,), text))
        feat = [model['kind'], 'strict' if strict else 'free', 'np=%d' % min(len(model['params']), 3),
                'desc=%d' % (model['description'] is not None), 'tags=%d' % min(len(model['tags']), 2),
                layout.get('eol', '\n').replace('\r', 'CR').replace('\n', 'LF'), layout.get('indent', 'std'),
                'split' if layout.get('split_anns') else 'nosplit', 'colon=%d' % layout.get('colon_ident', True),
                layout.get('tag_case', 'cap')]
        res['classes'].append('|'.join(feat))
        anns = set(model['annotations'])
        for p in model['params']:
            anns |= set(p['annotations'])
        for t in model['tags']:
            anns |= set(t['annotations'])
        for a in anns:
            res['classes'].append('ann:' + a)
        if idx < 2 and li == 1:
            res['sample'] = {'text': text, 'parsed': got}
    res['mech'] = {k: v - m0.get(k, 0) for k, v in scan.mech.items() if v - m0.get(k, 0)}
    res['hits'] = dict(res['hits'])
    return res


# ---- upstream vectors ------------------------------------------------------------------------------
def _txt(el):
    return el.text if el is not None and el.text is not None else None


def upstream_expected(parser_el, ns):
    """convert upstream's <parser> description to the neutral form"""
    db = parser_el.find(ns + 'docblock')
    if db is None:
        return None
    def anns(el):
        out = []
        a = el.find(ns + 'annotations') if el is not None else None
        if a is not None:
            for an in a.findall(ns + 'annotation'):
                name = _txt(an.find(ns + 'name'))
                opts_el = an.find(ns + 'options')
                if opts_el is None:
                    out.append([name, []])
                    continue
                opts = []
                isdict = False
                for o in opts_el.findall(ns + 'option'):
                    oname = _txt(o.find(ns + 'name'))
                    oval = o.find(ns + 'value')
                    if oval is not None:
                        isdict = True
                        opts.append([oname, _txt(oval)])
                    else:
                        opts.append(oname)
                out.append([name, opts, isdict])
        return out
    ident = db.find(ns + 'identifier')
    res = {'name': _txt(ident.find(ns + 'name')), 'annotations': anns(ident), 'params': [], 'tags': [],
           'description': _txt(db.find(ns + 'description'))}
    ps = db.find(ns + 'parameters')
    if ps is not None:
        for p in ps.findall(ns + 'parameter'):
            res['params'].append([_txt(p.find(ns + 'name')), anns(p), _txt(p.find(ns + 'description'))])
    ts = db.find(ns + 'tags')
    if ts is not None:
        for t in ts.findall(ns + 'tag'):
            res['tags'].append([_txt(t.find(ns + 'name')), anns(t), _txt(t.find(ns + 'value')), _txt(t.find(ns + 'description'))])
    return res


def upstream_neutral_parsed(block):
    """neutral form comparable with upstream_expected (mirrors what upstream's test_parser.py compares)"""
    def anns(a):
        out = []
        for k, v in a.items():
            if isinstance(v, dict):
                out.append([k, [[kk, vv] if vv is not None else kk for kk, vv in v.items()], True])
            elif v:
                out.append([k, list(v)])
            else:
                out.append([k, []])
        return out
    return {'name': block.name, 'annotations': anns(block.annotations),
            'params': [[p.name, anns(p.annotations), p.description] for p in block.params.values()],
            'tags': [[t.name, anns(t.annotations), t.value, t.description] for t in block.tags.values()],
            'description': block.description}


def _strip_dictflag(n):
    def fix(a):
        out = []
        for x in a:
            opts = x[1]
            out.append([x[0], opts])
        return out
    n = dict(n)
    n['annotations'] = fix(n['annotations'])
    n['params'] = [[p[0], fix(p[1]), p[2] or None] for p in n['params']]
    n['tags'] = [[t[0], fix(t[1]), t[2] or None, t[3] or None] for t in n['tags']]
    n['description'] = n['description'] or None
    return n


def run_upstream(st, chk):
    base = os.path.join(core.REPO, 'tests', 'scanner', 'annotationparser')
    files = sorted(glob.glob(os.path.join(base, '**', '*.xml'), recursive=True))
    n = 0
    nsuri = '{http://schemas.gnome.org/gobject-introspection/2013/test}'
    for f in files:
        try:
            root = ET.parse(f).getroot()
        except ET.ParseError:
            continue
        for t in root.findall(nsuri + 'test'):
            inp = t.find(nsuri + 'input')
            par = t.find(nsuri + 'parser')
            if inp is None or par is None or inp.text is None:
                continue
            try:
                block, events = parse(st, inp.text, os.path.basename(f), 1)
            except Exception as e:
                chk.violation('upstream-vector-exception', '%s: parser raised %r' % (os.path.relpath(f, base), e), {'file': f})
                continue
            n += 1
            exp = upstream_expected(par, nsuri)
            if exp is None:
                if block is not None:
                    chk.violation('upstream-vector', '%s: expected no block, got %r' % (os.path.relpath(f, base), block.name), {'file': f})
                continue
            if block is None:
                chk.violation('upstream-vector', '%s: expected block %r, got None' % (os.path.relpath(f, base), exp['name']), {'file': f})
                continue
            got = _strip_dictflag(upstream_neutral_parsed(block))
            d = diff(_strip_dictflag(exp), got)
            if d:
                chk.violation('upstream-vector', '%s: %s' % (os.path.relpath(f, base), d), {'file': f, 'input': inp.text})
    return n, len(files)


def run(args):
    chk = core.Check('C10', args.tier, args.seed,
                     'block models over the annotation vocabulary (strict: valid placement/arity, must parse silently; free: also '
                     'unknown names) x identifier forms x layouts (EOL convention, indentation before the asterisks, split '
                     'annotation lists, optional identifier colon, tag-name case, end token); class = (identifier kind, strictness, '
                     '#params, description, #tags, EOL, indent, split, colon, tag case) plus one class per annotation name used; '
                     'non-trivial = parsed tree compared with the model')
    st = setup_subject()
    n = int((4000 if args.tier == "quick" else 150000) * args.scale)
    nl = 5
    cases = [(args.seed, i, nl) for i in range(n)]
    cases = core.replay_cases(args, cases, lambda sd, i, *a: (sd, i, nl))
    B = 20
    batches = [cases[k:k + B] for k in range(0, len(cases), B)]
    hf = 0
    for _, b, results in core.forkmap(lambda bb: [run_case(c) for c in bb], batches, isolated=False):
        if isinstance(results, dict):
            hf += 1
            continue
        for c, r in zip(b, results):
            chk.evaluations += nl
            chk.merge_counts(r)
            for key, what, text in r.get('viol', []):
                chk.violation(key, what, {'case': c, 'text': text})
            if 'sample' in r:
                chk.sample(r['sample'])
    nvec, nfiles = run_upstream(st, chk)
    chk.monitor_hits['upstream_vectors_replayed'] = nvec
    chk.extra['upstream_vector_files'] = nfiles
    chk.extra['harness_failures'] = hf
    for m in ('GtkDocCommentBlockParser._parse_annotations', 'GtkDocCommentBlockParser._parse_annotation_options_list',
              'GtkDocCommentBlockParser._parse_annotation_options_dict', 'GtkDocCommentBlockParser._parse_fields',
              'GtkDocCommentBlockWriter._serialize_annotations', 'GtkDocCommentBlockWriter._serialize_tag'):
        chk.require(chk.mechanism_entries[m] > 0, 'mechanism %s never entered' % m)
    chk.require(chk.monitor_hits['tree_equal'] > 0 and chk.monitor_hits['roundtrip'] > 0, 'oracle judged nothing')
    chk.require(nvec > 100, 'upstream vectors not replayed (%d)' % nvec)
    chk.require(hf == 0, 'harness failures %d' % hf)
    chk.assumptions = ['tokens inside one annotation separated by single spaces; descriptions never start with "(", "@" or a tag name',
                       'one blank after the asterisk (extra indentation after the asterisk changes the meaning of tag lines and is not varied)']
    return chk.finish()
