"""C09 - the repository API and g-ir-generate report what the typelib contains.

Events : output of vt/cdrv/gi-dump-api.c - a driver linked against the freshly built libgirepository objects that loads a
         typelib through g_irepository_require_private and walks the whole public API (get_n_infos/get_info, find_by_name,
         every count + i-th accessor, flags, types, constants, attributes by iteration and by name, find_method/signal/vfunc,
         get_container, sizes and offsets) - and the XML g-ir-generate writes for the same file; sanitizer reports of both.
Oracle : the driver's dump equals the independent decode of the same bytes (vt/typelib.py), accessor by accessor; different
         access paths agree with each other; the g-ir-generate XML read back describes the same entries as the decode.
"""
import os, re, json, tempfile, shutil, collections
from .. import core, girx, typelib, tlexpect, cbuild
from ..scan import GIR_HEAD
from . import c06

_st = {}


def setup_subject():
    if _st:
        return _st
    st = c06.setup_subject()
    info = st['info']
    drv = os.path.join(info['outdir'], 'gi-dump-api')
    ok, err = cbuild.compile_driver(info, os.path.join(core.VERIF, 'vt', 'cdrv', 'gi-dump-api.c'), drv)
    _st.update(st)
    _st.update(driver=drv if ok else None, driver_err=err)
    # dependency typelibs
    d = tempfile.mkdtemp(prefix='vt-c09-deps-')
    stub = st['scan'].stub_dir()
    for n in ('GLib-2.0', 'GObject-2.0', 'Gio-2.0'):
        st['csan'].compile_gir(info, os.path.join(stub, n + '.gir'), os.path.join(d, n + '.typelib'), [stub])
    # a dependency in two builds: the one the subject typelibs are compiled against, and a later one that lost a type
    # (references to it become unresolved infos at run time)
    gd = os.path.join(d, 'gir')
    os.makedirs(gd)
    os.makedirs(os.path.join(d, 'skew'))
    dep = (GIR_HEAD + '<namespace name="Dep" version="1.0" c:identifier-prefixes="Dep" c:symbol-prefixes="dep">'
           '<record name="Thing" c:type="DepThing"><field name="a" writable="1"><type name="gint" c:type="gint"/></field></record>'
           '<callback name="Func" c:type="DepFunc"><return-value transfer-ownership="none"><type name="none" c:type="void"/></return-value></callback>'
           '<record name="Kept" c:type="DepKept"><field name="a" writable="1"><type name="gint" c:type="gint"/></field></record></namespace></repository>\n')
    with open(os.path.join(gd, 'Dep-1.0.gir'), 'w') as f:
        f.write(dep)
    st['csan'].compile_gir(info, os.path.join(gd, 'Dep-1.0.gir'), os.path.join(d, 'Dep-1.0.typelib'), [gd])
    os.makedirs(os.path.join(d, 'gir2'))
    with open(os.path.join(d, 'gir2', 'Dep-1.0.gir'), 'w') as f:
        f.write(dep.replace('name="Thing"', 'name="Renamed"').replace('name="Func"', 'name="OtherFunc"'))
    st['csan'].compile_gir(info, os.path.join(d, 'gir2', 'Dep-1.0.gir'), os.path.join(d, 'skew', 'Dep-1.0.typelib'), [os.path.join(d, 'gir2')])
    import atexit
    pid = os.getpid()
    atexit.register(lambda: shutil.rmtree(d, ignore_errors=True) if os.getpid() == pid else None)
    _st['depdir'] = d
    _st['depgir'] = gd
    return _st


def sections_gir(rng, mask, k, dep=False):
    """an object and an interface whose variable-length sections are empty or not according to mask"""
    def fn(tag, name, extra=''):
        return ('<%s name="%s" c:identifier="sec_%s_%s"%s><return-value transfer-ownership="none"><type name="gint" c:type="gint"/></return-value>'
                '<parameters><instance-parameter name="self" transfer-ownership="none"><type name="Obj" c:type="SecObj*"/></instance-parameter>'
                '<parameter name="x" transfer-ownership="none"><attribute name="p.%s" value="1"/><type name="gint" c:type="gint"/></parameter></parameters></%s>'
                % (tag, name, tag.replace('-', '_'), name, extra, name, tag))
    L = [GIR_HEAD, '<include name="GObject" version="2.0"/>'] + (['<include name="Dep" version="1.0"/>'] if dep else []) + \
        ['<namespace name="Sec" version="1.0" c:identifier-prefixes="Sec" c:symbol-prefixes="sec">']
    if dep:
        L.append('<function name="use_dep" c:identifier="sec_use_dep"><return-value transfer-ownership="none"><type name="Dep.Kept" c:type="DepKept*"/></return-value>'
                 '<parameters><parameter name="t" transfer-ownership="none"><type name="Dep.Thing" c:type="DepThing*"/></parameter>'
                 '<parameter name="f" transfer-ownership="none" scope="call"><type name="Dep.Func" c:type="DepFunc"/></parameter></parameters></function>')
        L.append('<record name="DepUser" c:type="SecDepUser"><field name="t" writable="1"><type name="Dep.Thing" c:type="DepThing*"/></field>'
                 '<field name="l" writable="1"><type name="GLib.List" c:type="GList*"><type name="Dep.Thing"/></type></field></record>')
    # index 0 is a valid closure/destroy/length index (user data, destroy notify or length first), -1 means none
    L.append('<callback name="DataFirst" c:type="SecDataFirst"><return-value transfer-ownership="none"><type name="none" c:type="void"/></return-value>'
             '<parameters><parameter name="user_data" transfer-ownership="none" nullable="1" closure="0"><type name="gpointer" c:type="gpointer"/></parameter>'
             '<parameter name="x" transfer-ownership="none"><type name="gint" c:type="gint"/></parameter></parameters></callback>')
    order = rng.choice([('data', 'cb', 'notify'), ('notify', 'cb', 'data'), ('cb', 'data', 'notify'), ('data', 'notify', 'cb'), ('notify', 'data', 'cb')])
    ps = []
    for nm in order:
        if nm == 'cb':
            ps.append('<parameter name="cb" transfer-ownership="none" scope="notified" closure="%d" destroy="%d"><type name="DataFirst" c:type="SecDataFirst"/></parameter>'
                      % (order.index('data'), order.index('notify')))
        elif nm == 'data':
            ps.append('<parameter name="data" transfer-ownership="none" nullable="1"><type name="gpointer" c:type="gpointer"/></parameter>')
        else:
            ps.append('<parameter name="notify" transfer-ownership="none" scope="async"><type name="GLib.DestroyNotify" c:type="GDestroyNotify"/></parameter>')
    L.append('<function name="zero_index" c:identifier="sec_zero_index"><return-value transfer-ownership="none"><type name="none" c:type="void"/></return-value>'
             '<parameters>%s</parameters></function>' % ''.join(ps))
    L.append('<function name="len_first" c:identifier="sec_len_first"><return-value transfer-ownership="none"><type name="none" c:type="void"/></return-value>'
             '<parameters><parameter name="n" transfer-ownership="none"><type name="gint" c:type="gint"/></parameter>'
             '<parameter name="v" transfer-ownership="none"><array length="0" zero-terminated="0" c:type="gint*"><type name="gint" c:type="gint"/></array></parameter></parameters></function>')
    nif = [0, 1, 2, 3][mask & 3] if mask & 1 else (2 if mask & 2 else 0)
    for i in range(3):
        L.append('<interface name="If%d" c:type="SecIf%d" glib:type-name="SecIf%d" glib:get-type="sec_if%d_get_type"/>' % (i, i, i, i))
    L.append('<class name="Obj" c:type="SecObj" parent="GObject.Object" glib:type-name="SecObj" glib:get-type="sec_obj_get_type"><attribute name="vt.top" value="obj"/>')
    for i in range(nif):
        L.append('<implements name="If%d"/>' % i)
    if mask & 4:
        for i in range(k):
            if i % 2:
                L.append('<field name="cb%d"><callback name="cb%d"><return-value transfer-ownership="none"><type name="none" c:type="void"/></return-value>'
                         '<parameters><parameter name="a" transfer-ownership="none"><type name="gint" c:type="gint"/></parameter></parameters></callback></field>' % (i, i))
            else:
                L.append('<field name="f%d" writable="1"><type name="%s" c:type="%s"/></field>' % (i, rng.choice(['gint', 'gint8', 'gdouble', 'gpointer']), 'gint'))
    if mask & 8:
        off = rng.randrange(6)
        for i in range(k):
            # every flag combination, with accessor links when the object has methods to link to
            fl = [' writable="1"', ' writable="1" construct="1"', ' writable="1" construct-only="1"', ' readable="0" writable="1"', '',
                  ' writable="1" construct="1" construct-only="1"'][(i + off) % 6]
            acc = ' setter="m0" getter="m%d"' % (k - 1) if mask & 16 else ''
            L.append('<property name="p%d"%s%s transfer-ownership="none"><type name="gint" c:type="gint"/></property>' % (i, fl, acc))
    if mask & 16:
        for i in range(k):
            L.append(fn('method', 'm%d' % i))
    if mask & 32:
        for i in range(k):
            L.append('<glib:signal name="s%d" when="last"><return-value transfer-ownership="none"><type name="none" c:type="void"/></return-value>'
                     '<parameters><parameter name="a" transfer-ownership="none"><type name="utf8" c:type="gchar*"/></parameter></parameters></glib:signal>' % i)
    if mask & 64:
        for i in range(k):
            L.append(fn('virtual-method', 'v%d' % i, ' invoker="m%d"' % i if (mask & 16) else ''))
    if mask & 128:
        for i in range(k):
            L.append('<constant name="C%d" value="%d" c:type="SEC_C%d"><type name="gint" c:type="gint"/></constant>' % (i, i * 7, i))
        fv = rng.choice([3.141592653589793, 1e-10, 6.02214076e23, -0.1, 1.0 / 3, 2.5e-320, rng.random() * 10 ** rng.randrange(-30, 30)])
        L.append('<constant name="CD" value="%r" c:type="SEC_CD"><type name="gdouble" c:type="gdouble"/></constant>' % fv)
        L.append('<constant name="CF" value="%r" c:type="SEC_CF"><type name="gfloat" c:type="gfloat"/></constant>' % fv)
        L.append('<constant name="CS" value="%s" c:type="SEC_CS"><type name="utf8" c:type="gchar*"/></constant>'
                 % rng.choice(['a&#10;b', 'tab&#9;x', ' lead', 'q&quot;&lt;&amp;', '\u4e2d&#13;']))
        L.append('<constant name="CB" value="%s" c:type="SEC_CB"><type name="gboolean" c:type="gboolean"/></constant>' % rng.choice(['true', 'false']))
        L.append('<constant name="C64" value="%d" c:type="SEC_C64"><type name="%s" c:type="x"/></constant>'
                 % rng.choice([(-2 ** 63, 'gint64'), (2 ** 64 - 1, 'guint64'), (-1, 'gint8'), (255, 'guint8'), (65535, 'guint16'), (-32768, 'gint16')]))
    L.append('</class>')
    # the interface mirrors the object
    L.append('<interface name="Face" c:type="SecFace" glib:type-name="SecFace" glib:get-type="sec_face_get_type">')
    for i in range(nif):
        L.append('<prerequisite name="If%d"/>' % i)
    if mask & 8:
        L.append('<property name="q" transfer-ownership="none"><type name="utf8" c:type="gchar*"/></property>')
    if mask & 16:
        L.append(fn('method', 'im').replace('Obj', 'Face').replace('SecFace*', 'SecFace*'))
    if mask & 32:
        L.append('<glib:signal name="is" when="first"><return-value transfer-ownership="none"><type name="none" c:type="void"/></return-value></glib:signal>')
    if mask & 64:
        L.append(fn('virtual-method', 'iv').replace('Obj', 'Face'))
    if mask & 128:
        L.append('<constant name="IC" value="str" c:type="SEC_IC"><type name="utf8" c:type="gchar*"/></constant>')
    L.append('</interface>')
    L.append('<record name="Rec" c:type="SecRec"><field name="a" writable="1"><type name="gint" c:type="gint"/></field>%s</record>' % (
        fn('method', 'rm').replace('Obj', 'Rec') if mask & 16 else ''))
    L.append('<enumeration name="En" c:type="SecEn"><member name="a" value="1" c:identifier="SEC_EN_A"/><member name="b" value="-2" c:identifier="SEC_EN_B"/>%s</enumeration>' % (
        '<function name="ef" c:identifier="sec_en_ef"><return-value transfer-ownership="none"><type name="gint" c:type="gint"/></return-value></function>' if mask & 16 else ''))
    L.append('</namespace></repository>')
    return '\n'.join(L) + '\n'


def normalise_api(api):
    for e in api['entries']:
        for k in ('_f', '_c'):
            if k in e:
                inner = e.pop(k)
                nm, dep, at = e['name'], e['deprecated'], e['attributes']
                e.update(inner)
                e['name'] = nm
    return api


def accessor_view(dec):
    """what the documented accessors make of the stored blobs: g_property_info_get_getter answers only for readable
    properties, g_property_info_get_setter only for writable, non construct-only ones (gipropertyinfo.c doc comments)"""
    for e in dec['entries']:
        for p in e.get('properties') or []:
            if not p.get('readable'):
                p['getter'] = None
            if not p.get('writable') or p.get('construct_only'):
                p['setter'] = None
    return dec


def run_case(case):
    seed, idx, tmpdir, mode = case
    st = setup_subject()
    csan, info = st['csan'], st['info']
    rng = core.rng_for(seed, 'c09', idx)
    res = {'viol': [], 'classes': [], 'hits': collections.Counter()}
    viol, hits = res['viol'], res['hits']
    stub = st['scan'].stub_dir()
    depmode = None
    if mode == 'sections':
        mask = idx % 256
        depmode = rng.choice([None, None, 'same', 'skew'])
        gir = sections_gir(rng, mask, rng.choice([1, 2, 3, 5]), dep=depmode is not None)
        nsname, kind = 'Sec', 'sections'
    elif mode.startswith('replay:'):
        rep = json.load(open(mode[7:]))
        rep = rep.get('replay', rep)
        gir, kind = rep['gir'], rep.get('kind', 'replay')
        nsname = re.search(r'<namespace name="([^"]+)"', gir).group(1)
    else:
        kind, gir = c06.scanner_gir(seed, idx)
        if gir is None:
            return res
        nsname = 'Foo'
    d = tempfile.mkdtemp(dir=tmpdir)
    try:
        gpath = os.path.join(d, '%s-1.0.gir' % nsname)
        with open(gpath, 'w', encoding='utf-8') as f:
            f.write(gir)
        tdir = os.path.join(d, 'tl')
        os.makedirs(tdir)
        for n in os.listdir(st['depdir']):
            if n.endswith('.typelib'):
                os.symlink(os.path.join(st['depdir'], 'skew' if (depmode == 'skew' and n.startswith('Dep-')) else '', n), os.path.join(tdir, n))
        tpath = os.path.join(tdir, '%s-1.0.typelib' % nsname)
        rc, so, se = csan.compile_gir(info, gpath, tpath, [stub, st['depgir']])
        if depmode:
            hits['dependency:' + depmode] += 1
        if rc != 0 or not os.path.exists(tpath):
            hits['not_compilable'] += 1       # C06/C15 judge the compiler; here only loadable typelibs matter
            return res
        data = open(tpath, 'rb').read()
        replay = {'gir': gir[:30000], 'kind': kind}
        try:
            tl = typelib.Typelib(data)
        except typelib.TypelibDecodeError as e:
            viol.append(('typelib-malformed', 'the compiled typelib cannot be decoded by the independent decoder: %s' % e, replay))
            return res
        dec = accessor_view(json.loads(json.dumps(tlexpect.FromTypelib(tl).model())))      # tuples -> lists, as in the driver's JSON
        # (a) the public API
        rc, so, se = csan.run([st['driver'], tdir, nsname, '1.0'], info)
        for sig, text in csan.sanitizer_reports(se):
            if 'gi-dump-api.c' in text.split('\n')[1] if len(text.split('\n')) > 1 else False:
                res['harness'] = 'driver UB: ' + text[:300]
                continue
            viol.append((sig, 'sanitizer report while walking the API: ' + text[:700], replay))
        for line in se.splitlines():
            if line.startswith('INCONSISTENT '):
                key = re.sub(r'[0-9]+', 'N', line[13:]).split(':')[0][:60]
                viol.append(('api-inconsistent:' + re.sub(r'\(.*?\)', '()', key), line, replay))
        if rc != 0 or not so.strip():
            viol.append(('api-driver-failed', 'API walk failed (exit %s): %s' % (rc, se[-400:]), replay))
        else:
            api = normalise_api(json.loads(so))
            hits['api_walks'] += 1
            hits['api_entries'] += len(api['entries'])
            if [e['name'] for e in api['entries']] != [e['name'] for e in dec['entries']]:
                viol.append(('api-enumeration', 'get_info enumerates %r, directory holds %r' % ([e['name'] for e in api['entries']][:20], [e['name'] for e in dec['entries']][:20]), replay))
            else:
                raw = {e['name']: e for e in tl.entries if e['local']}
                for a, dd in zip(api['entries'], dec['entries']):
                    df = tlexpect.diff(dd, a, a['name'])
                    if df:
                        key = re.sub(r'\[[^\]]*\]', '[]', df.split(':')[0])
                        key = '.'.join(key.split('.')[1:]) or 'kind'
                        viol.append(('api:%s:%s' % (dd['kind'], key), 'blob says / accessor reports -> ' + df.replace('GIR says', 'blob holds').replace('typelib has', 'accessor returns'), replay))
                    b = raw[a['name']]['blob']
                    if a['kind'] in ('struct', 'union') and 'size' in a:
                        if 'size' in b and (a['size'], a['alignment']) != (b['size'], b['alignment']):
                            viol.append(('api:size', '%s: get_size/alignment %r, blob %r' % (a['name'], (a['size'], a['alignment']), (b['size'], b['alignment'])), replay))
                    if a['kind'] in ('struct', 'union', 'object'):
                        offs_api = [f.get('offset') for f in a.get('fields', [])]
                        offs_blob = [f['struct_offset'] for f in b.get('fields', [])]
                        if offs_api != offs_blob:
                            viol.append(('api:field-offset', '%s: g_field_info_get_offset %r, blobs %r' % (a['name'], offs_api, offs_blob), replay))
                    if a['kind'] in ('enum', 'flags') and a.get('storage_type') != b.get('storage_type_name'):
                        viol.append(('api:enum-storage', '%s: storage %r vs blob %r' % (a['name'], a.get('storage_type'), b.get('storage_type_name')), replay))
                    for va, vb in zip(a.get('vfuncs') or [], b.get('vfuncs') or []):
                        if va.get('struct_offset') != vb.get('struct_offset'):
                            viol.append(('api:vfunc-offset', '%s.%s: offset %r vs blob %r' % (a['name'], va['name'], va.get('struct_offset'), vb.get('struct_offset')), replay))
                    res['classes'].append('%s|%s' % (kind, a['kind']))
                    hits['api:' + a['kind']] += 1
        # (b) g-ir-generate
        rc, so, se = csan.generate(info, tpath, [tdir])
        for sig, text in csan.sanitizer_reports(se):
            viol.append((sig, 'sanitizer report in g-ir-generate: ' + text[:700], replay))
        if rc != 0:
            viol.append(('generate-failed', 'g-ir-generate exit %s: %s' % (rc, se[-300:]), replay))
        else:
            try:
                groot = girx.parse_string(so)
            except Exception as e:
                viol.append(('generate-illformed', 'g-ir-generate wrote ill-formed XML: %s' % e, replay))
                groot = None
            if groot is not None:
                hits['generated'] += 1
                from .. import girclosure
                incs, partial = girclosure.load_includes(girx.parse_string(gir), [stub, st['depgir']])
                gexp = tlexpect.Expect(groot, incs).model()
                seen = set()
                for key, what in tlexpect.compare(gexp, dec):
                    if key in seen:
                        continue
                    seen.add(key)
                    viol.append(('generate:' + key, 'g-ir-generate output vs typelib: ' + what.replace('GIR says', 'generated GIR says'), dict(replay, generated=so[:20000])))
        if mode == 'sections':
            res['classes'].append('sections|mask=%d' % (idx % 256))
    finally:
        shutil.rmtree(d, ignore_errors=True)
    res['hits'] = dict(hits)
    return res


def run(args):
    chk = core.Check('C09', args.tier, args.seed,
                     'typelibs compiled on the spot from scanner-produced GIRs (four generators) and from a section-combination '
                     'generator (object/interface with every combination of empty and non-empty interfaces - odd and even counts -, '
                     'fields with and without embedded callbacks, properties, methods, signals, vfuncs, constants; 256 shapes), loaded '
                     'through the repository API by a driver and regenerated by g-ir-generate; class = (source, info type) / section mask; '
                     'non-trivial = API walk compared with the decode')
    st = setup_subject()
    if not st['info']['ok'] or not st['driver']:
        chk.require(False, 'build failed: %r %r' % (st['info']['errors'][:1], st.get('driver_err', '')[-300:]))
        return chk.finish()
    nscan = int((60 if args.tier == 'quick' else 3000) * args.scale)
    nsec = int((64 if args.tier == 'quick' else 1024) * args.scale)
    tmpdir = tempfile.mkdtemp(prefix='vt-c09-')
    harness = []
    try:
        rng = core.rng_for(args.seed, 'c09plan')
        masks = list(range(256))
        rng.shuffle(masks)
        cases = [(args.seed, 0, tmpdir, 'replay:' + os.path.abspath(args.replay))] if args.replay else \
                [(args.seed, i, tmpdir, 'scanner') for i in range(nscan)] + \
                [(args.seed, (k // 256) * 256 + masks[k % 256], tmpdir, 'sections') for k in range(nsec)]
        B = 4
        batches = [cases[k:k + B] for k in range(0, len(cases), B)]
        for _, b, results in core.forkmap(lambda bb: [run_case(c) for c in bb], batches, isolated=False):
            if isinstance(results, dict):
                harness.append(str(results)[:500])
                continue
            for c, r in zip(b, results):
                chk.evaluations += 1
                chk.merge_counts(r)
                if 'harness' in r:
                    harness.append(r['harness'])
                for key, what, replay in r.get('viol', []):
                    chk.violation(key, what, dict(replay, case=[c[0], c[1], c[3]]))
    finally:
        shutil.rmtree(tmpdir, ignore_errors=True)
    chk.extra['harness_failures'] = harness[:5]
    for k in () if args.replay else ('function', 'callback', 'struct', 'enum', 'object', 'interface', 'constant', 'union'):
        chk.require(chk.monitor_hits['api:' + k] > 0, 'info type %s never walked' % k)
    chk.require(chk.monitor_hits['generated'] > 0, 'g-ir-generate never compared')
    chk.require(len(harness) <= max(2, chk.evaluations // 40), 'harness failures: %r' % harness[:2])
    chk.assumptions = ['the driver and libgirepository are built against the GLib declaration shim; typelib decoder and tlexpect as in C06']
    return chk.finish()
