"""C04 - each public C symbol is described once, under the right name and owner.

Events : the multiset of c:identifier / c:type values in the emitted GIR, their nesting (top level vs method/constructor/
         function inside which type) and moved-to attributes, for generated declaration sets under generated prefix
         configurations (several identifier/symbol prefixes, a prefix of an included namespace, accept-unprefixed).
Oracle : written from the statement: expected public set (exactly once, nothing else), GIR name = C name minus a matching
         namespace prefix minus (for members) the owner's symbol prefix, and the only-if conditions for methods and
         constructors.
"""
import os, collections, tempfile, shutil
from .. import core, girx, apigen, objgen
from ..scan import GIR_HEAD

DEP_GIR = GIR_HEAD + '''<namespace name="Dep" version="1.0" c:identifier-prefixes="Dep" c:symbol-prefixes="dep">
<record name="Thing" c:type="DepThing" c:symbol-prefix="thing"><field name="x" writable="1"><type name="gint" c:type="gint"/></field></record>
<enumeration name="Kind" c:type="DepKind"><member name="a" value="0" c:identifier="DEP_KIND_A"/></enumeration>
<function name="do_it" c:identifier="dep_do_it"><return-value transfer-ownership="none"><type name="none" c:type="void"/></return-value></function>
</namespace></repository>
'''
# an included namespace whose prefixes extend the scanned namespace's own (Gdk / GdkPixbuf style)
EXT_GIR = GIR_HEAD + '''<namespace name="FooExt" version="1.0" c:identifier-prefixes="FooExt" c:symbol-prefixes="foo_ext">
<record name="Obj" c:type="FooExtObj"><field name="x" writable="1"><type name="gint" c:type="gint"/></field></record>
<function name="init" c:identifier="foo_ext_init"><return-value transfer-ownership="none"><type name="none" c:type="void"/></return-value></function>
</namespace></repository>
'''
TYPE_WORDS = ['Rec', 'Text', 'TextBuffer', 'Item', 'ItemList', 'Node', 'X', 'Stream', 'IOStream', 'Widget2', 'ABCThing', 'Url']
FUNC_WORDS = ['new', 'new_with_size', 'get_x', 'set_x', 'frob', 'copy', 'free', 'do_it', 'insert', 'buffer_insert', 'list_append', 'create']

_st = {}


def setup_subject():
    if _st:
        return _st
    from .. import scan
    scan.setup()
    scan.count_entries('transformer', 'Transformer', ['_split_c_string_for_namespace_matches', 'split_csymbol', 'strip_identifier', '_strip_symbol',
                                                    '_create_typedef_compound', '_create_tag_ns_compound'])
    scan.count_entries('maintransformer', 'MainTransformer', ['_pair_function', '_is_method', '_setup_method', '_is_constructor',
                                                            '_set_up_constructor', '_pair_static_method', '_split_uscored_by_type'])
    scan.count_entries('ast', 'Namespace', ['append', 'remove', 'float', 'track'])
    d = tempfile.mkdtemp(prefix='vt-c04-inc-')
    with open(os.path.join(d, 'Dep-1.0.gir'), 'w') as f:
        f.write(DEP_GIR)
    with open(os.path.join(d, 'FooExt-1.0.gir'), 'w') as f:
        f.write(EXT_GIR)
    import atexit
    pid = os.getpid()
    atexit.register(lambda: shutil.rmtree(d, ignore_errors=True) if os.getpid() == pid else None)
    _st.update(scan=scan, incdir=d)
    return _st


def gen_config(rng):
    cfg = rng.choice(['plain', 'plain', 'two-ident', 'nested-ident', 'two-symbol', 'dep-prefix', 'unprefixed', 'symbol-underscore', 'longer-include-prefix'])
    c = {'kind': cfg, 'ident': ['Foo'], 'symbol': ['foo'], 'accept_unprefixed': False, 'includes': ['GObject-2.0']}
    if cfg == 'two-ident':
        c['ident'] = ['Foo', 'Bar']
    elif cfg == 'nested-ident':
        c['ident'] = rng.choice([['Foo', 'FooX'], ['FooX', 'Foo']])
    elif cfg == 'two-symbol':
        c['symbol'] = rng.choice([['foo', 'bar'], ['foo', 'foo_x'], ['foo_x', 'foo']])
    elif cfg == 'dep-prefix':
        c['includes'] = ['GObject-2.0', 'Dep-1.0']
        if rng.random() < 0.5:
            c['ident'] = ['Foo', 'Dep']
            c['symbol'] = ['foo', 'dep']
    elif cfg == 'longer-include-prefix':
        c['includes'] = ['GObject-2.0', 'FooExt-1.0']
    elif cfg == 'unprefixed':
        c['accept_unprefixed'] = True
    elif cfg == 'symbol-underscore':
        c['symbol'] = ['foo_']
    return c


def gen_decls(rng, cfg):
    """-> (header text, decl list); decl = {'c': name, 'class': 'type'|'function'|'constant', ...}"""
    lines = []
    decls = []
    ip = cfg['ident']
    sp = [s.rstrip('_') for s in cfg['symbol']]
    words = [w for w in TYPE_WORDS if not any(p == 'Foo' + w or p.endswith(w) and len(p) > len(w) for p in ip)]
    tnames = rng.sample(words, rng.choice([2, 3, 4, 5]))
    nested = None
    if rng.random() < 0.35:
        # a type whose name (and symbol prefix) extends another one's on a word boundary
        nested = rng.choice([('Item', 'ItemList'), ('Text', 'TextBuffer'), ('Stream', 'IOStream')][:2])
        if all(w in words for w in nested):
            tnames = [w for w in tnames if w not in nested] + list(nested)
        else:
            nested = None
    types = []
    for w in tnames:
        pfx = rng.choice(ip)
        cname = pfx + w
        order = rng.choice(['typedef-first', 'struct-first', 'anon', 'opaque', 'double', 'union'])
        kw = 'union' if order == 'union' else 'struct'
        body = '{\n  gint a;\n  gpointer b;\n}'
        if order in ('typedef-first', 'union'):
            lines.append('typedef %s _%s %s;' % (kw, cname, cname))
            lines.append('%s _%s %s;' % (kw, cname, body))
        elif order == 'struct-first':
            lines.append('struct _%s %s;' % (cname, body))
            lines.append('typedef struct _%s %s;' % (cname, cname))
        elif order == 'anon':
            lines.append('typedef struct %s %s;' % (body, cname))
        elif order == 'opaque':
            lines.append('typedef struct _%s %s;' % (cname, cname))
        else:
            lines.append('typedef struct _%s %s;' % (cname, cname))
            lines.append('typedef struct _%s %sTwin;' % (cname, cname))
            lines.append('struct _%s %s;' % (cname, body))
            decls.append({'c': cname + 'Twin', 'class': 'type', 'kind': 'record', 'order': 'double-twin'})
        decls.append({'c': cname, 'class': 'type', 'kind': 'union' if order == 'union' else 'record', 'order': order})
        types.append(cname)
    # other type kinds
    for i in range(rng.choice([1, 2, 3])):
        pfx = rng.choice(ip)
        k = rng.choice(['enum', 'callback', 'alias', 'flags'])
        cname = '%s%s%d' % (pfx, {'enum': 'Mode', 'callback': 'Func', 'alias': 'Id', 'flags': 'Opts'}[k], i)
        if k == 'enum':
            up = objgen.uscore(cname).upper()
            lines.append('typedef enum {\n  %s_A,\n  %s_B\n} %s;' % (up, up, cname))
        elif k == 'flags':
            up = objgen.uscore(cname).upper()
            lines.append('typedef enum {\n  %s_A = 1 << 0,\n  %s_B = 1 << 1\n} %s;' % (up, up, cname))
        elif k == 'callback':
            lines.append('typedef void (*%s) (gint x, gpointer user_data);' % cname)
        else:
            lines.append('typedef %s %s;' % (rng.choice(['gint', 'guint32', 'gdouble']), cname))
        decls.append({'c': cname, 'class': 'type', 'kind': k, 'order': k})
    # hidden and foreign types
    if rng.random() < 0.5:
        lines.append('typedef struct _%sHidden _%sHidden;' % (ip[0], ip[0]))
        decls.append({'c': '_%sHidden' % ip[0], 'class': 'type', 'kind': 'record', 'order': 'hidden'})
    if rng.random() < 0.5:
        lines.append('typedef struct _XyzForeign XyzForeign;\nstruct _XyzForeign {\n  gint q;\n};')
        decls.append({'c': 'XyzForeign', 'class': 'type', 'kind': 'record', 'order': 'foreign'})
    if 'Dep-1.0' in cfg['includes'] and rng.random() < 0.7:
        lines.append('typedef struct _DepOther DepOther;\nstruct _DepOther {\n  gint q;\n};')
        decls.append({'c': 'DepOther', 'class': 'type', 'kind': 'record', 'order': 'dep-prefixed'})
    # functions
    nfun = rng.choice([4, 7, 10])
    seen = set()
    forced = []
    if nested:
        longer = [t for t in types if t.endswith(nested[1])]
        if longer:
            forced = [(longer[0], 'ctor'), (longer[0], 'static'), (longer[0], 'ctor-other-ret')]
    for i in range(nfun + len(forced)):
        spx = rng.choice(sp)
        t = rng.choice(types)
        tus = objgen.uscore(t[len([p for p in ip if t.startswith(p)][0]):]) if any(t.startswith(p) for p in ip) else objgen.uscore(t)
        shape = rng.choice(['ctor', 'ctor', 'method', 'method', 'method', 'static', 'free', 'wrong-first', 'other-prefix', 'pp-first', 'ctor-other-ret',
                            'plural'])
        if i >= nfun:
            t, shape = forced[i - nfun]
            tus = objgen.uscore(t[len([p for p in ip if t.startswith(p)][0]):]) if any(t.startswith(p) for p in ip) else objgen.uscore(t)
        w = rng.choice(FUNC_WORDS)
        other = rng.choice(types)
        if shape == 'ctor':
            name, ret, params = '%s_%s_%s' % (spx, tus, rng.choice(['new', 'new_with_size', 'create'])), t + ' *', [('gint', 'size')]
        elif shape == 'method':
            name, ret, params = '%s_%s_%s' % (spx, tus, w), rng.choice(['void', 'gint']), [(t + ' *', 'self'), ('gint', 'x')]
        elif shape == 'static':
            name, ret, params = '%s_%s_%s' % (spx, tus, w), 'gint', [('gint', 'x')]
        elif shape == 'free':
            name, ret, params = '%s_%s' % (spx, w), 'void', [('gint', 'x')]
        elif shape == 'wrong-first':
            name, ret, params = '%s_%s_%s' % (spx, tus, w), 'void', [(other + ' *', 'o'), (t + ' *', 'self')]
        elif shape == 'other-prefix':
            name, ret, params = '%s_misc_%s' % (spx, w), 'void', [(t + ' *', 'self')]
        elif shape == 'pp-first':
            name, ret, params = '%s_%s_%s' % (spx, tus, w), 'void', [(t + ' **', 'out_self')]
        elif shape == 'ctor-other-ret':
            name, ret, params = '%s_%s_new_other' % (spx, tus), other + ' *', []
        else:
            name, ret, params = '%s_%ss_%s' % (spx, tus, w), 'void', [(t + ' *', 'self')]
        # the same C name can arise from two different prefix/type splits (foo + x_new, foo_x + new): one declaration only; and
        # two C names must not strip to the same namespace-level name under any of the symbol prefixes (foo_create and
        # foo_x_create with prefixes foo and foo_x both become "create": the scanner stops with a namespace conflict)
        strippings = set(name[len(p0) + 1:] for p0 in sp if name.startswith(p0 + '_')) | {name[len(spx) + 1:]}
        if (strippings & seen) or ('c:' + name) in seen:
            continue
        seen |= strippings
        seen.add('c:' + name)
        lines.append(apigen.render_function(name, ret, params))
        decls.append({'c': name, 'class': 'function', 'shape': shape, 'ret': ret, 'params': params, 'type': t})
    for nm, shape in (('_%s_private_thing' % sp[0], 'hidden'), ('xyz_foreign_call', 'foreign'), ('g_foo_glibish', 'glib-prefixed')):
        if rng.random() < 0.5:
            lines.append(apigen.render_function(nm, 'void', [('gint', 'x')]))
            decls.append({'c': nm, 'class': 'function', 'shape': shape, 'ret': 'void', 'params': [('gint', 'x')], 'type': None})
    if 'Dep-1.0' in cfg['includes'] and 'foo' in sp and 'Dep' not in ip:
        # functions of THIS namespace whose first parameter is a type of the included one, with and without that type's
        # symbol prefix in their name: they stay functions of this namespace (a method only of a type of the same namespace)
        lines.append('typedef struct _DepThing DepThing;')
        for nm in rng.sample(['foo_thing_frob', 'foo_thing_new_child', 'foo_attach_thing', 'foo_things_count'], rng.choice([1, 2, 3])):
            lines.append(apigen.render_function(nm, 'void', [('DepThing *', 'thing'), ('gint', 'level')]))
            decls.append({'c': nm, 'class': 'function', 'shape': 'foreign-first-param', 'ret': 'void', 'params': [('DepThing *', 'thing'), ('gint', 'level')], 'type': None})
    if 'Dep-1.0' in cfg['includes'] and rng.random() < 0.7:
        lines.append(apigen.render_function('dep_extra_call', 'void', [('gint', 'x')]))
        decls.append({'c': 'dep_extra_call', 'class': 'function', 'shape': 'dep-prefixed', 'ret': 'void', 'params': [('gint', 'x')], 'type': None})
    if 'FooExt-1.0' in cfg['includes']:
        # declared in the scanned headers and carrying this namespace's prefix: they are this namespace's, although an
        # included namespace has a longer prefix that matches too
        for nm in rng.sample(['foo_ext_call', 'foo_ext_thing_get', 'foo_extra', 'foo_ext'], rng.choice([1, 2, 3])):
            lines.append(apigen.render_function(nm, 'void', [('gint', 'x')]))
            decls.append({'c': nm, 'class': 'function', 'shape': 'longer-include-prefix', 'ret': 'void', 'params': [('gint', 'x')], 'type': None})
        if rng.random() < 0.7:
            lines.append('#define FOO_EXT_LIMIT 7')
            decls.append({'c': 'FOO_EXT_LIMIT', 'class': 'constant'})
        if rng.random() < 0.5:
            lines.append('typedef struct _FooExtra FooExtra;\nstruct _FooExtra {\n  gint q;\n};')
            decls.append({'c': 'FooExtra', 'class': 'type', 'kind': 'record', 'order': 'longer-include-prefix'})
    # registered type hierarchies (runtime dump): a fundamental root without parent and a GObject one, each with a derived class,
    # and boxed registrations of some records; "new" functions returning the type itself, an ancestor, or a descendant
    dump = None
    parents = {}
    if rng.random() < 0.5 and 'foo' in sp and ip[0] == 'Foo' and not any(w in tnames for w in ('Root', 'Leaf', 'Gadget', 'Knob')):
        D = ['<?xml version="1.0"?>', '<dump>']
        hier = [('FooRoot', None, 'fundamental'), ('FooLeaf', 'FooRoot', 'fundamental'), ('FooGadget', 'GObject', 'class'), ('FooKnob', 'FooGadget', 'class')]
        for cname, parent, tag in hier:
            us = 'foo_' + objgen.uscore(cname[3:])
            pstruct = {None: 'GTypeInstance', 'GObject': 'GObject'}.get(parent, parent)
            lines.append('typedef struct _%s %s;\nstruct _%s {\n  %s parent_instance;\n  gint v;\n};' % (cname, cname, cname, pstruct))
            lines.append('GType %s_get_type (void);' % us)
            decls.append({'c': cname, 'class': 'type', 'kind': 'class', 'order': 'registered-' + tag})
            decls.append({'c': us + '_get_type', 'class': 'function', 'shape': 'get-type', 'ret': 'GType', 'params': [], 'type': cname})
            chain = []
            q = parent
            while q:
                chain.append(q)
                q = dict((h[0], h[1]) for h in hier).get(q)
            parents[cname] = chain
            if tag == 'fundamental':
                D.append('  <fundamental name="%s" get-type="%s_get_type" instantiatable="1"%s/>' % (cname, us, (' parents="%s"' % ','.join(chain)) if chain else ''))
            else:
                D.append('  <class name="%s" get-type="%s_get_type" parents="%s"/>' % (cname, us, ','.join(chain)))
            types.append(cname)
        for child, parent in (('FooLeaf', 'FooRoot'), ('FooKnob', 'FooGadget')):
            cu, pu = 'foo_' + objgen.uscore(child[3:]), 'foo_' + objgen.uscore(parent[3:])
            for name, ret, shape, t in ((cu + '_new', child, 'ctor-registered', child), (cu + '_new_as_parent', parent, 'ctor-returns-ancestor', child),
                                        (pu + '_new_' + objgen.uscore(child[3:]), child, 'ctor-returns-descendant', parent),
                                        (pu + '_new', parent, 'ctor-registered', parent)):
                if rng.random() < 0.8:
                    lines.append(apigen.render_function(name, ret + ' *', []))
                    decls.append({'c': name, 'class': 'function', 'shape': shape, 'ret': ret + ' *', 'params': [], 'type': t})
        for d0 in list(decls):
            if d0['class'] == 'type' and d0.get('kind') in ('record', 'union') and d0['c'] in types and d0['c'].startswith('Foo') and d0.get('order') != 'anon' and d0['c'] not in ip and rng.random() < 0.5:
                us = 'foo_' + objgen.uscore(d0['c'][3:])
                if ('c:' + us + '_get_type') in seen or us in sp:       # a type whose symbol prefix is the namespace's own cannot be named
                    continue
                seen.add('c:' + us + '_get_type')
                lines.append('GType %s_get_type (void);' % us)
                decls.append({'c': us + '_get_type', 'class': 'function', 'shape': 'get-type', 'ret': 'GType', 'params': [], 'type': d0['c']})
                D.append('  <boxed name="%s" get-type="%s_get_type"/>' % (d0['c'], us))
        D.append('</dump>')
        dump = '\n'.join(D) + '\n'
    cfg['parents'] = parents
    cfg['dump'] = dump
    # constants
    for i in range(rng.choice([1, 2, 3])):
        spx = rng.choice(sp)
        nm = '%s_CONST%d' % (spx.upper(), i)
        lines.append('#define %s %d' % (nm, i))
        decls.append({'c': nm, 'class': 'constant'})
    # constants whose names are not all upper case (keysym style)
    for tail in rng.sample(['KEY_a', 'KEY_Escape', 'Mixed_Case_Constant', 'x', 'KEY_0'], rng.choice([0, 1, 2])):
        spx = rng.choice(sp)
        nm = '%s_%s' % (spx.upper(), tail)
        if not any(d['c'] == nm for d in decls):
            lines.append('#define %s 7' % nm)
            decls.append({'c': nm, 'class': 'constant'})
    for nm in ('_%s_HIDDEN_CONST' % sp[0].upper(), 'XYZ_FOREIGN_CONST'):
        if rng.random() < 0.4:
            lines.append('#define %s 1' % nm)
            decls.append({'c': nm, 'class': 'constant'})
    return '\n'.join(lines) + '\n', decls, types


def ns_strip(cname, cls, cfg):
    """-> set of admissible GIR names (C name minus a matching prefix of this namespace), or None when the name does
    not carry a prefix of this namespace"""
    out = set()
    if cls == 'type':
        for p in cfg['ident']:
            if cname.startswith(p) and len(cname) > len(p):
                out.add(cname[len(p):])
    elif cls == 'function':
        for s in cfg['symbol']:
            s = s if s.endswith('_') else s + '_'
            if cname.startswith(s) and len(cname) > len(s):
                out.add(cname[len(s):])
    else:
        for s in cfg['symbol']:
            s = (s if s.endswith('_') else s + '_').upper()
            if cname.startswith(s) and len(cname) > len(s):
                out.add(cname[len(s):])
    return out or None


INCLUDED_PREFIXES = {'GObject-2.0': (['G'], ['g', 'glib', 'gobject']), 'Dep-1.0': (['Dep'], ['dep']), 'FooExt-1.0': (['FooExt'], ['foo_ext'])}


def carries_included_prefix(cname, cls, cfg):
    for inc in cfg['includes']:
        ip, sp = INCLUDED_PREFIXES.get(inc, ([], []))
        if cls == 'type' and any(cname.startswith(p) for p in ip):
            return True
        if cls == 'function' and any(cname.startswith(p + '_') for p in sp):
            return True
        if cls == 'constant' and any(cname.startswith(p.upper() + '_') for p in sp):
            return True
    return False


def judge(cfg, decls, types, gir):
    out, classes = [], []
    hits = collections.Counter()
    root = girx.parse_string(gir)
    ns = girx.namespace(root)
    TYPE_TAGS = ('class', 'interface', 'record', 'union', 'enumeration', 'bitfield', 'callback', 'alias', 'constant', 'glib:boxed')
    by_ctype = collections.defaultdict(list)
    for n in ns.children:
        if n.tag in TYPE_TAGS and n.get('c:type'):
            by_ctype[n.get('c:type')].append(n)
    by_cid = collections.defaultdict(list)
    for n in ns.iter('function', 'method', 'constructor', 'function-inline', 'method-inline'):
        if n.get('c:identifier'):
            by_cid[n.get('c:identifier')].append(n)
    tnode = {}
    for t in types:
        if len(by_ctype.get(t, [])) == 1:
            tnode[t] = by_ctype[t][0]
    declared = set(d['c'] for d in decls)
    for d in decls:
        c = d['c']
        cls = d['class']
        names = ns_strip(c, cls, cfg)
        hidden = c.startswith('_')
        foreign = names is None and carries_included_prefix(c, cls, cfg)
        public = (names is not None or (cfg['accept_unprefixed'] and not foreign)) and not hidden
        if hidden and cls == 'type':
            continue        # the statement only speaks about underscore *symbols*; underscore-named types are not judged
        if cls == 'function':
            nodes = by_cid.get(c, [])
        else:
            nodes = by_ctype.get(c, [])
        hits[cls] += 1
        classes.append('%s|%s|%s|public=%d' % (cfg['kind'], cls, d.get('shape') or d.get('order') or '', public))
        if not public:
            if nodes:
                out.append(('leaked:%s' % ('hidden' if hidden else 'foreign'), '%s %s (not of this namespace / hidden) is described: %r' % (cls, c, [n.path() for n in nodes])))
            continue
        if names is None:
            # accept-unprefixed admits it under its full name
            names = {c}
        if d.get('shape') == 'get-type':
            # folded into the type it registers
            owners = [x for x in by_ctype.get(d['type'], []) + [y for y in ns.children if y.get('glib:type-name') == d['type'] and not y.get('c:type')]]
            hits['get-type'] += 1
            if nodes:
                out.append(('get-type-kept', 'get-type function %s is still described although the runtime dump registers %s with it' % (c, d['type'])))
            elif len(owners) != 1 or owners[0].get('glib:get-type') != c:
                out.append(('get-type-not-folded', '%s: %d elements for %s, glib:get-type=%r' % (c, len(owners), d['type'], owners[0].get('glib:get-type') if owners else None)))
            continue
        real = [n for n in nodes if n.get('moved-to') is None]
        if len(real) != 1:
            out.append(('not-exactly-once:' + cls, '%s %s described %d times (%d with moved-to) [config %s]' % (cls, c, len(real), len(nodes) - len(real), cfg['kind'])))
            continue
        n = real[0]
        # deliberate compatibility copies (moved-to) must still satisfy the only-if conditions of a method
        for cp in nodes:
            if cp.get('moved-to') is not None and cp.tag == 'method' and cp.parent is not None:
                opfx2 = cp.parent.get('c:symbol-prefix') or objgen.uscore(cp.parent.get('name'))
                first = d['params'][0][0] if d.get('params') else None
                if first is None or apigen.base_of(first) != cp.parent.get('c:type') or not any(s2.startswith(opfx2) for s2 in names):
                    out.append(('method-only-if:compat-copy', '%s has a moved-to method copy in %s (prefix %s, first parameter %r)' % (
                        c, cp.parent.get('name'), opfx2, first)))
        if cls != 'function':
            if n.get('name') not in names:
                out.append(('name:' + cls, '%s %s named %r, expected one of %r' % (cls, c, n.get('name'), sorted(names))))
            continue
        # functions: owner and name
        owner = n.parent if n.parent is not None and n.parent.tag in TYPE_TAGS else None
        if owner is None:
            if n.get('name') not in names:
                out.append(('name:function', 'function %s named %r at top level, expected one of %r' % (c, n.get('name'), sorted(names))))
            continue
        oname = owner.get('name')
        oct = owner.get('c:type')
        opfx = owner.get('c:symbol-prefix') or objgen.uscore(oname)
        hits['member'] += 1
        ok_name = any(s.startswith(opfx) and n.get('name') == s[len(opfx):].lstrip('_') and s[len(opfx):].startswith('_') for s in names)
        if not ok_name:
            # compat quirk: prefix without following underscore keeps the full stripped name with moved-to on the copy
            out.append(('name:member', '%s inside %s named %r; stripped symbol %r, owner prefix %r' % (c, oname, n.get('name'), sorted(names), opfx)))
        if n.tag in ('constructor', 'function'):
            # "the type whose prefix it carries": when the prefixes of two types of the namespace nest (item / item_list), a
            # constructor or static function belongs to the most specific one
            for t2, node2 in tnode.items():
                p2 = node2.get('c:symbol-prefix') or objgen.uscore(node2.get('name'))
                if node2 is not owner and len(p2) > len(opfx) and p2.startswith(opfx + '_') and any(s2.startswith(p2 + '_') for s2 in names):
                    out.append(('owner:not-most-specific-type', '%s is a %s of %s (prefix %s) although it carries the longer prefix %s of %s' % (
                        c, n.tag, oname, opfx, p2, node2.get('name'))))
        if n.tag == 'method':
            first = d['params'][0][0] if d['params'] else None
            if first is None or apigen.base_of(first) != oct or first.count('*') != 1:
                out.append(('method-only-if:first-parameter', '%s is a method of %s but its first parameter is %r' % (c, oname, first)))
            if not any(s.startswith(opfx) for s in names):
                out.append(('method-only-if:prefix', '%s is a method of %s (prefix %s) without carrying that prefix' % (c, oname, opfx)))
        elif n.tag == 'constructor':
            if not any(s.startswith(opfx + '_') for s in names):
                out.append(('constructor-only-if:prefix', '%s is a constructor of %s without carrying its prefix %s' % (c, oname, opfx)))
            if apigen.base_of(d['ret']) != oct and apigen.base_of(d['ret']) not in (cfg.get('parents') or {}).get(oct, []):
                out.append(('constructor-only-if:return', '%s is a constructor of %s but returns %s (neither that type nor one of its ancestors %r)' % (
                    c, oname, d['ret'], (cfg.get('parents') or {}).get(oct, []))))
            hits['constructor'] += 1
    # nothing undeclared may appear
    for cid, nodes in by_cid.items():
        if cid not in declared:
            out.append(('undeclared', 'c:identifier %s is not among the declarations' % cid))
        if len([n for n in nodes if n.get('moved-to') is None]) > 1:
            out.append(('duplicate-identifier', 'c:identifier %s carried by %d elements without moved-to' % (cid, len(nodes))))
    for ct, nodes in by_ctype.items():
        if ct not in declared and not ct.startswith('_'):
            out.append(('undeclared', 'c:type %s is not among the declarations' % ct))
        if len(nodes) > 1:
            out.append(('duplicate-ctype', 'c:type %s carried by %d elements' % (ct, len(nodes))))
    return out, classes, hits


def run_case(case):
    seed, idx = case
    st = setup_subject()
    scan = st['scan']
    rng = core.rng_for(seed, 'c04', idx)
    cfg = gen_config(rng)
    header, decls, types = gen_decls(rng, cfg)
    m0 = dict(scan.mech)
    r = scan.scan({'namespace': 'Foo', 'version': '1.0', 'identifier_prefixes': cfg['ident'], 'symbol_prefixes': cfg['symbol'],
                   'includes': cfg['includes'], 'include_paths': [st['incdir']], 'accept_unprefixed': cfg['accept_unprefixed'],
                   'headers': [('/src/foo.h', header)], 'dump': cfg.get('dump')})
    res = {'viol': [], 'classes': [], 'hits': {}}
    replay = {'config': cfg, 'header': header}
    if r['exception']:
        res['viol'].append(('exception:' + r['exception'].split(':')[0], r['exception'] + '\n' + r.get('traceback', '')[-1500:], replay))
        return res
    if r['gir'] is None:
        res['viol'].append(('fatal', 'scanner stopped: %s' % (r['fatal'] or '')[:400], replay))
        return res
    if r.get('scan_errors'):
        res['harness'] = 'stand-in parse errors %r' % r['scan_errors'][:2]
        return res
    res['mech'] = {k: v - m0.get(k, 0) for k, v in scan.mech.items() if v - m0.get(k, 0)}
    viol, classes, hits = judge(cfg, decls, types, r['gir'])
    res['classes'] = classes
    res['hits'] = dict(hits)
    for k, w in viol:
        res['viol'].append((k, w, dict(replay, gir=r['gir'][:6000])))
    if idx < 2:
        res['sample'] = {'config': cfg, 'header': header[:1500]}
    return res


def run(args):
    chk = core.Check('C04', args.tier, args.seed,
                     'generated declaration sets (struct/union typedefs in every typedef/tag order incl. double typedefs and opaque, '
                     'enums, callbacks, aliases, constants, functions shaped as constructor/method/static/free/wrong-first-parameter/'
                     'other-prefix/out-first/plural-prefix, hidden and foreign names) x prefix configurations (one, two, nested '
                     'identifier prefixes; two/nested symbol prefixes; prefixes of an included namespace; accept-unprefixed); class = '
                     '(configuration, element class, shape, public?)')
    n = int((400 if args.tier == 'quick' else 20000) * args.scale)
    cases = [(args.seed, i) for i in range(n)]
    cases = core.replay_cases(args, cases)
    B = 8
    batches = [cases[k:k + B] for k in range(0, len(cases), B)]
    harness = []
    for _, b, results in core.forkmap(lambda bb: [run_case(c) for c in bb], batches, isolated=False):
        if isinstance(results, dict):
            harness.append(str(results)[:400])
            continue
        for c, r in zip(b, results):
            chk.evaluations += 1
            chk.merge_counts(r)
            if 'harness' in r:
                harness.append(r['harness'])
            for key, what, replay in r.get('viol', []):
                chk.violation(key, what, dict(replay, case=c))
            if 'sample' in r:
                chk.sample(r['sample'])
    chk.extra['harness_failures'] = harness[:5]
    for m in ('Transformer._split_c_string_for_namespace_matches', 'Transformer.strip_identifier', 'MainTransformer._pair_function',
              'MainTransformer._is_method', 'MainTransformer._is_constructor', 'MainTransformer._pair_static_method', 'Namespace.append'):
        chk.require(chk.mechanism_entries[m] > 0, 'mechanism %s never entered' % m)
    chk.require(chk.monitor_hits['member'] > 0 and chk.monitor_hits['type'] > 0 and chk.monitor_hits['constant'] > 0, 'oracle judged nothing')
    chk.require(len(harness) <= max(2, n // 50), 'harness failures: %r' % harness[:2])
    core.require_standin_validated(chk)
    chk.assumptions = ['get-type folding is covered by C12 (needs a dump); the CLI option path is not driven here']
    return chk.finish()
