"""C12 - runtime GObject type data is merged faithfully into the GIR.

Events : <class>/<interface>/<glib:boxed>/<record glib:is-gtype-struct-for>/<property>/<glib:signal>/<virtual-method>/
         <enumeration glib:error-domain> elements of the GIR emitted by the real pipeline (Transformer -> GDumpParser with a
         fake introspection binary that hands over the prepared dump -> MainTransformer -> IntrospectablePass -> GIRWriter).
Oracle : reference derived from the generated model (scanned declarations + dump), following the property statement.
"""
import collections, os, re
from .. import core, girx, apigen, objgen, realdump

_st = {}
REAL_EVERY = 8      # every 8th case takes its dump from the tree's own gdump.c (compiled type factory) instead of writing it


def setup_subject():
    if _st:
        return _st
    from .. import scan
    scan.setup()
    scan.count_entries('gdumpparser', 'GDumpParser', ['_introspect_object', '_introspect_interface', '_introspect_enum', '_introspect_boxed',
                                                    '_introspect_properties', '_introspect_signals', '_introspect_error_quark',
                                                    '_pair_boxed_type', '_find_class_record', '_add_record_fields', '_execute_binary_get_tree'])
    scan.count_entries('maintransformer', 'MainTransformer', ['_pass_type_resolution', '_pair_class_virtuals', '_pair_property_accessors',
                                                            '_pair_quarks_with_enums'])
    _st['scan'] = scan
    from .. import csan
    _st['csan'] = csan
    _st['info'] = csan.build()          # girepository/gdump.c of the working tree, ASan+UBSan: the producer of the real dumps
    return _st


def expected_parent(chain, own_classes):
    for p in chain:
        if p in own_classes:
            return p[3:]
        if p == 'GObject':
            return 'GObject.Object'
        if p == 'GInitiallyUnowned':
            return 'GObject.InitiallyUnowned'
    return None


def resolve_iface(name, model):
    for f in model['ifaces']:
        if f['name'] == name:
            return None if f['private'] else name[3:]
    for c in model['classes']:
        if c['name'] == name:
            return name[3:]
    return {'GAsyncResult': 'Gio.AsyncResult', 'GFile': 'Gio.File', 'GObject': 'GObject.Object'}.get(name)


def type_name_of(node):
    t = girx.type_of(node)
    if t is None:
        return None
    if t.tag == 'array':
        et = girx.type_of(t)
        return 'array:%s' % (et.get('name') if et is not None else None)
    return t.get('name')


def check_props(holder, hnode, model, out, classes, hits, where):
    props = {}
    for p in hnode.findall('property'):
        props.setdefault(p.get('name'), []).append(p)
    if sorted(props) != sorted(set(p['name'] for p in holder['props'])):
        out.append(('property-set', '%s: properties %r, dumped %r' % (where, sorted(props), sorted(p['name'] for p in holder['props']))))
        return
    for p in holder['props']:
        n = props[p['name']]
        if len(n) != 1:
            out.append(('property-duplicate', '%s:%s appears %d times' % (where, p['name'], len(n))))
            continue
        n = n[0]
        hits['property'] += 1
        fl = p['flags']
        want = {'readable': None if fl & 1 else '0', 'writable': '1' if fl & 2 else None, 'construct': '1' if fl & 4 else None,
                'construct-only': '1' if fl & 8 else None}
        for a, v in want.items():
            if n.get(a) != v:
                out.append(('property-flag:' + a, '%s:%s flags=%d (0x%x): %s=%r, expected %r' % (where, p['name'], fl, fl, a, n.get(a), v)))
        gi = 'array:utf8' if p['type'] == 'GStrv' else objgen.gi_name_of_gtype(p['type'], model['registered'])
        if gi is not None and type_name_of(n) != gi:
            out.append(('property-type', '%s:%s dumped type %s -> %r, expected %r' % (where, p['name'], p['type'], type_name_of(n), gi)))
        if p['default']:
            if n.get('default-value') != p['default']:
                out.append(('property-default', '%s:%s default-value %r, dumped %r' % (where, p['name'], n.get('default-value'), p['default'])))
        classes.append('prop|%s|flags&15=%d|hi=%d' % (p['type'], fl & 15, int(fl > 15)))


def check_signals(holder, hnode, model, out, classes, hits, where):
    sigs = {}
    for s in hnode.findall('glib:signal'):
        sigs.setdefault(s.get('name'), []).append(s)
    if sorted(sigs) != sorted(s['name'] for s in holder['signals']):
        out.append(('signal-set', '%s: signals %r, dumped %r' % (where, sorted(sigs), sorted(s['name'] for s in holder['signals']))))
        return
    for s in holder['signals']:
        n = sigs[s['name']][0]
        hits['signal'] += 1
        want = {'when': s['when'], 'no-recurse': '1' if s['no_recurse'] else None, 'detailed': '1' if s['detailed'] else None,
                'action': '1' if s['action'] else None, 'no-hooks': '1' if s['no_hooks'] else None}
        for a, v in want.items():
            if n.get(a) != v:
                out.append(('signal-flag:' + a, '%s::%s %s=%r, dumped %r' % (where, s['name'], a, n.get(a), v)))
        rv = n.find('return-value')
        gi = objgen.gi_name_of_gtype(s['return'], model['registered'])
        if gi is not None and type_name_of(rv) != gi:
            out.append(('signal-return', '%s::%s return %s -> %r, expected %r' % (where, s['name'], s['return'], type_name_of(rv), gi)))
        _, ps = girx.params_of(n)
        if len(ps) != len(s['params']):
            out.append(('signal-params', '%s::%s has %d parameters, dumped %d' % (where, s['name'], len(ps), len(s['params']))))
        else:
            for pn, t in zip(ps, s['params']):
                gi = 'array:utf8' if t == 'GStrv' else objgen.gi_name_of_gtype(t, model['registered'])
                if gi is not None and type_name_of(pn) != gi:
                    out.append(('signal-param-type', '%s::%s parameter type %s -> %r, expected %r' % (where, s['name'], t, type_name_of(pn), gi)))
        classes.append('signal|%s|np=%d|when=%s' % (s['return'], len(s['params']), s['when']))


def judge(model, gir):
    out, classes = [], []
    hits = collections.Counter()
    root = girx.parse_string(gir)
    ns = girx.namespace(root)
    own_classes = [c['name'] for c in model['classes']]
    bytype = {}
    for n in ns.children:
        gt = n.get('glib:type-name')
        if gt:
            bytype.setdefault(gt, []).append(n)
    # get_type functions must be gone
    for f in ns.iter('function', 'method'):
        cid = f.get('c:identifier') or ''
        if cid.endswith('_get_type'):
            registered_gt = True
            out.append(('get-type-kept', 'get-type function %s is still listed' % cid))
    for c in model['classes']:
        nm = c['name']
        nodes = bytype.get(nm, [])
        if len(nodes) != 1 or nodes[0].tag != 'class':
            out.append(('class-missing', '%s: %d elements with that type name (%r)' % (nm, len(nodes), [n.tag for n in nodes])))
            continue
        n = nodes[0]
        hits['class'] += 1
        us = 'foo_' + objgen.uscore(nm[3:])
        want = {'name': nm[3:], 'c:type': nm, 'glib:get-type': us + '_get_type', 'c:symbol-prefix': objgen.uscore(nm[3:]),
                'parent': expected_parent(c['chain'], own_classes), 'abstract': '1' if c['abstract'] else None, 'final': '1' if c['final'] else None}
        for a, v in want.items():
            if n.get(a) != v:
                out.append(('class-attr:' + a, '%s: %s=%r, expected %r (parents %r)' % (nm, a, n.get(a), v, c['chain'])))
        impl = sorted(x.get('name') for x in n.findall('implements'))
        wimpl = sorted(set(r for r in (resolve_iface(i, model) for i in c['implements']) if r))
        if impl != wimpl:
            out.append(('implements', '%s: implements %r, dumped %r -> expected %r' % (nm, impl, c['implements'], wimpl)))
        check_props(c, n, model, out, classes, hits, nm)
        check_signals(c, n, model, out, classes, hits, nm)
        if c['class_struct']:
            if n.get('glib:type-struct') != nm[3:] + 'Class':
                out.append(('type-struct', '%s: glib:type-struct=%r' % (nm, n.get('glib:type-struct'))))
            recs = [r for r in ns.findall('record') if r.get('name') == nm[3:] + 'Class']
            if len(recs) != 1 or recs[0].get('glib:is-gtype-struct-for') != nm[3:]:
                out.append(('is-gtype-struct-for', '%sClass: is-gtype-struct-for=%r' % (nm, recs[0].get('glib:is-gtype-struct-for') if recs else None)))
            vf = sorted(v.get('name') for v in n.findall('virtual-method'))
            wvf = sorted(v['name'] for v in c['vfuncs'] if v['first'] == 'self')
            if vf != wvf:
                out.append(('virtual-methods', '%s: virtual methods %r, expected %r (class struct members %r)' % (
                    nm, vf, wvf, [(v['name'], v['first']) for v in c['vfuncs']])))
            hits['vfunc'] += len(wvf)
        classes.append('class|chain=%s|abs=%d|final=%d|cs=%d|impl=%d' % ('>'.join('own' if p in own_classes else ('hidden' if p not in ('GObject', 'GInitiallyUnowned') else p)
                                                                               for p in c['chain']), c['abstract'], c['final'], c['class_struct'], len(c['implements'])))
    own_fund = set(fu['name'] for fu in model.get('fundamentals', []))
    for fu in model.get('fundamentals', []):
        nm = fu['name']
        nodes = bytype.get(nm, [])
        if len(nodes) != 1 or nodes[0].tag != 'class':
            out.append(('fundamental-missing', '%s: %d elements with that type name (%r)' % (nm, len(nodes), [n.tag for n in nodes])))
            continue
        n = nodes[0]
        hits['fundamental'] += 1
        # the parent is the nearest type of the reported chain that is known; a chain that never reaches a known type
        # (a root, or a root behind a hidden type) has no parent at all - it is not a GObject
        parent = None
        for p in fu['chain']:
            if p in own_fund or p in own_classes:
                parent = p[3:]
                break
        want = {'name': nm[3:], 'c:type': nm, 'glib:get-type': 'foo_' + objgen.uscore(nm[3:]) + '_get_type', 'glib:fundamental': '1',
                'parent': parent, 'abstract': '1' if fu['abstract'] else None, 'final': '1' if fu['final'] else None}
        for a, v in want.items():
            if n.get(a) != v:
                out.append(('fundamental-attr:' + a, '%s: %s=%r, expected %r (parents %r)' % (nm, a, n.get(a), v, fu['chain'])))
        classes.append('fundamental|%s|abs=%d|final=%d' % (fu['kind'], fu['abstract'], fu['final']))
    for f in model['ifaces']:
        nm = f['name']
        nodes = bytype.get(nm, [])
        if f['private']:
            if nodes:
                out.append(('private-interface-exposed', '%s (private get-type) appears in the GIR' % nm))
            continue
        if len(nodes) != 1 or nodes[0].tag != 'interface':
            out.append(('interface-missing', '%s: %r' % (nm, [n.tag for n in nodes])))
            continue
        n = nodes[0]
        hits['interface'] += 1
        us = 'foo_' + objgen.uscore(nm[3:])
        want = {'name': nm[3:], 'c:type': nm, 'glib:get-type': us + '_get_type', 'glib:type-struct': f['struct'][3:]}
        for a, v in want.items():
            if n.get(a) != v:
                out.append(('interface-attr:' + a, '%s: %s=%r, expected %r' % (nm, a, n.get(a), v)))
        pre = sorted(x.get('name') for x in n.findall('prerequisite'))
        wpre = sorted(set(r for r in (resolve_iface(i, model) for i in f['prereqs']) if r))
        if pre != wpre:
            out.append(('prerequisites', '%s: prerequisites %r, dumped %r' % (nm, pre, f['prereqs'])))
        check_props(f, n, model, out, classes, hits, nm)
        check_signals(f, n, model, out, classes, hits, nm)
        vf = sorted(v.get('name') for v in n.findall('virtual-method'))
        wvf = sorted(v['name'] for v in f['vfuncs'] if v['first'] == 'self')
        if vf != wvf:
            out.append(('virtual-methods', '%s: virtual methods %r, expected %r' % (nm, vf, wvf)))
        classes.append('iface|%s|pre=%d' % (f['struct'][len(nm):], len(f['prereqs'])))
    for b in model['boxed']:
        nm = b['name']
        nodes = bytype.get(nm, [])
        hits['boxed'] += 1
        us = 'foo_' + objgen.uscore(nm[3:])
        wtag = {'record': 'record', 'opaque': 'record', 'union': 'union', 'none': 'glib:boxed'}[b['decl']]
        if len(nodes) != 1 or nodes[0].tag != wtag:
            out.append(('boxed-pairing', 'boxed %s (declared as %s): %r' % (nm, b['decl'], [n.tag for n in nodes])))
            continue
        n = nodes[0]
        if n.get('glib:get-type') != us + '_get_type' or n.get('c:symbol-prefix') != objgen.uscore(nm[3:]):
            out.append(('boxed-attr', 'boxed %s: get-type=%r symbol-prefix=%r' % (nm, n.get('glib:get-type'), n.get('c:symbol-prefix'))))
        classes.append('boxed|' + b['decl'])
    for e in model['enums']:
        nm = e['name']
        nodes = [n for n in ns.findall('enumeration', 'bitfield') if n.get('c:type') == nm]
        if len(nodes) != 1:
            out.append(('enum-missing', '%s: %d elements' % (nm, len(nodes))))
            continue
        n = nodes[0]
        hits['enum'] += 1
        if e['registered']:
            us = 'foo_' + objgen.uscore(nm[3:])
            if n.get('glib:type-name') != nm or n.get('glib:get-type') != us + '_get_type':
                out.append(('enum-registration', '%s: type-name=%r get-type=%r' % (nm, n.get('glib:type-name'), n.get('glib:get-type'))))
            wtag = 'bitfield' if e['flags'] else 'enumeration'
            if n.tag != wtag:
                out.append(('enum-kind', '%s: dumped as %s, emitted <%s>' % (nm, 'flags' if e['flags'] else 'enum', n.tag)))
        got = [(m.get('c:identifier'), m.get('value')) for m in n.findall('member')]
        if got != [(a, str(v)) for a, v in e['members']]:
            out.append(('enum-members', '%s: members %r, declared %r' % (nm, got, e['members'])))
        classes.append('enum|reg=%d|flags=%d' % (e['registered'], e['flags']))
    for q in model['quarks']:
        hits['quark'] += 1
        if q['has_enum']:
            nodes = [n for n in ns.findall('enumeration') if n.get('c:type') == q['enum']]
            if len(nodes) != 1 or nodes[0].get('glib:error-domain') != q['domain']:
                out.append(('error-domain', '%s: glib:error-domain=%r, quark function %s reports %r' % (
                    q['enum'], nodes[0].get('glib:error-domain') if nodes else None, q['func'], q['domain'])))
        classes.append('quark|enum=%d' % q['has_enum'])
    return out, classes, hits


def run_case(case):
    seed, idx = case
    st = setup_subject()
    scan = st['scan']
    rng = core.rng_for(seed, 'c12', idx)
    model = objgen.gen_objlib(rng)
    res = {'viol': [], 'classes': [], 'hits': {}}
    real = (idx % REAL_EVERY == 0)
    if real:
        # the types of the model are registered with the GObject runtime and dumped by the tree's own gdump.c; that dump is
        # judged against what was registered and then handed to the scanner in place of the synthetic one
        import shutil, tempfile
        model = realdump.restrict(model, rng)
        header, _ = objgen.render_objlib(model, rng)
        wd = tempfile.mkdtemp(prefix='vt-c12-')
        try:
            dump, se, rc = realdump.produce(st['info'], st['csan'], model, wd)
            factory = open(os.path.join(wd, 'factory.c')).read() if os.path.exists(os.path.join(wd, 'factory.c')) else ''
        finally:
            shutil.rmtree(wd, ignore_errors=True)
        if realdump.SANITIZER.search(se or ''):
            res['viol'].append(('gdump:sanitizer-report', se[-2500:], {'factory_c': factory}))
            return res
        if dump is None:
            if rc == -1:
                res['harness'] = 'type factory did not compile: %s' % se[-300:]
            else:
                res['viol'].append(('gdump:failed', 'g_irepository_dump failed (rc=%s): %s' % (rc, (se or '')[-600:]), {'factory_c': factory}))
            return res
        if realdump.NOISE.search(se):
            res['harness'] = 'the type system complained about the generated registrations: %s' % realdump.NOISE.search(se).group(0)
            return res
        res['hits']['real-dump'] = 1
        try:
            got = realdump.parse(dump)
        except Exception as e:
            res['viol'].append(('gdump:not-well-formed', '%s: %s' % (type(e).__name__, e), {'factory_c': factory, 'dump': dump}))
            return res
        for k, w in realdump.differences(realdump.expected(model), got):
            res['viol'].append((k, w, {'factory_c': factory, 'dump': dump}))
        res['hits']['real-dump-elements'] = len(got)
        model = realdump.judge_model(model)
    else:
        header, dump = objgen.render_objlib(model, rng)
    m0 = dict(scan.mech)
    r = scan.scan(apigen.library(headers=[('/src/foo.h', header)], dump=dump))
    replay = {'header': header, 'dump': dump, 'real_dump': real}
    if r['exception']:
        res['viol'].append(('exception:' + r['exception'].split(':')[0], r['exception'] + '\n' + r.get('traceback', '')[-1500:], replay))
        return res
    if r['gir'] is None:
        res['viol'].append(('fatal', 'scanner stopped: %s' % (r['fatal'] or '')[:400], replay))
        return res
    if r.get('scan_errors'):
        res['harness'] = 'stand-in parse errors %r' % r['scan_errors'][:2]
        return res
    res['mech'] = {k: v - m0.get(k, 0) for k, v in scan.mech.items() if v - m0.get(k, 0)}
    viol, classes, hits = judge(model, r['gir'])
    res['classes'] = classes + (['real-dump'] if real else [])
    res['hits'] = dict(collections.Counter(res['hits']) + hits)
    for k, w in viol:
        res['viol'].append((k, w, dict(replay, gir=r['gir'][:5000])))
    if idx < 2:
        res['sample'] = {'header': header[-1200:], 'dump': dump[:1200]}
    return res


def run(args):
    chk = core.Check('C12', args.tier, args.seed,
                     'generated GObject-style libraries: 1-3 classes (parent chains through GObject, GInitiallyUnowned, own classes and '
                     'hidden intermediates; abstract/final; class struct present or not), 0-2 interfaces (Iface/Interface structs, '
                     'prerequisites, private get-type), boxed types declared as record/union/opaque/not at all, registered and '
                     'unregistered enums/flags, error quarks; properties with arbitrary 32-bit flag words, signals with all flags; '
                     'class = shape keys of each element; non-trivial = element found and judged')
    setup_subject()         # the sanitizer build of gdump.c happens once, before the workers fork
    n = int((300 if args.tier == 'quick' else 15000) * args.scale)
    cases = [(args.seed, i) for i in range(n)]
    cases = core.replay_cases(args, cases)
    # trusted-base monitor: the synthetic dumps must speak the vocabulary of the real producer (girepository/gdump.c of the
    # tree under test); if the producer's format changes, this check says so instead of silently testing an outdated format
    try:
        gd = open(os.path.join(core.REPO, 'girepository', 'gdump.c'), encoding='utf-8').read()
        prod_el = set(re.findall(r'<([a-z][a-z:-]*)[ >/\\]', ' '.join(re.findall(r'"((?:[^"\\]|\\.)*)"', gd))))
        prod_at = set(re.findall(r' ([a-z][a-z_-]*)=\\"', gd))
        gen_el, gen_at = set(), set()
        for i in range(60):
            m = objgen.gen_objlib(core.rng_for(args.seed, 'c12vocab', i))
            _, dump = objgen.render_objlib(m, core.rng_for(args.seed, 'c12vocab2', i))
            gen_el |= set(re.findall(r'<([a-z][a-z:-]*)[ >/]', dump))
            gen_at |= set(re.findall(r' ([a-z][a-z_-]*)=["\']', dump))
        gen_el -= {'dump'}
        chk.extra['dump_vocabulary'] = {'producer_elements': sorted(prod_el), 'producer_attributes': sorted(prod_at),
                                        'generated_elements': sorted(gen_el), 'generated_attributes': sorted(gen_at),
                                        'producer_only': sorted((prod_el | prod_at) - (gen_el | gen_at))}
        chk.require(gen_el <= prod_el and gen_at <= prod_at,
                    'the dump generator emits %r which girepository/gdump.c does not write' % sorted((gen_el - prod_el) | (gen_at - prod_at)))
        chk.monitor_hits['dump_vocabulary_checked'] += len(gen_el) + len(gen_at)
    except OSError as e:
        chk.require(False, 'cannot read gdump.c: %s' % e)
    B = 6
    batches = [cases[k:k + B] for k in range(0, len(cases), B)]
    harness = []
    for _, b, results in core.forkmap(lambda bb: [run_case(c) for c in bb], batches, isolated=False):
        if isinstance(results, dict):
            harness.append(str(results)[:400])
            continue
        for c, r in zip(b, results):
            chk.evaluations += 1
            chk.merge_counts(r)
            if 'harness' in r:
                harness.append(r['harness'])
            for key, what, replay in r.get('viol', []):
                chk.violation(key, what, dict(replay, case=c))
            if 'sample' in r:
                chk.sample(r['sample'])
    chk.extra['harness_failures'] = harness[:5]
    for m in ('GDumpParser._introspect_object', 'GDumpParser._introspect_interface', 'GDumpParser._introspect_boxed',
              'GDumpParser._introspect_error_quark', 'GDumpParser._execute_binary_get_tree', 'MainTransformer._pair_class_virtuals',
              'MainTransformer._pair_quarks_with_enums'):
        chk.require(chk.mechanism_entries[m] > 0, 'mechanism %s never entered' % m)
    for h in ('class', 'interface', 'property', 'signal', 'boxed', 'enum', 'quark', 'vfunc', 'fundamental', 'real-dump', 'real-dump-elements'):
        chk.require(chk.monitor_hits[h] > 0, 'oracle part %s judged nothing' % h)
    chk.require(len(harness) <= max(2, n // 50), 'harness failures: %r' % harness[:2])
    chk.assumptions = ['7 of 8 dumps are synthetic (written from the model in the format girepository/gdump.c emits; arbitrary flag words, unknown types, hidden parents, fundamentals); every 8th is the real one: the model is turned into a C type factory that registers the types with the system libgobject and calls g_irepository_dump of the freshly built (ASan+UBSan) tree. The fake introspection binary copies the dump, so GDumpParser._execute_binary_get_tree runs for real',
                       'signal parameter names are not asserted (not in the statement)']
    return chk.finish()
