"""vt.selftest - cross-check of the _giscanner stand-in (vt/cparse.py): upstream test headers run through the stand-in and the real
passes must reproduce upstream's expected GIRs byte for byte (those that need no real runtime dump).  Used as a trusted-base
monitor by the pyscan checks: while this holds, the stand-in behaves like the C front end on these inputs and the scanner still
passes the upstream expected-GIR tests that cannot be run here."""
import sys, os
from . import scan, core


def expected_gir_cases():
    T = os.path.join(core.REPO, 'tests', 'scanner')

    def rd(p):
        return open(os.path.join(T, p)).read()
    cases = [
      ('SLetter-1.0-expected.gir', dict(namespace='SLetter', version='1.0', identifier_prefixes=['S'], includes=['Gio-2.0'],
            headers=[(T + '/sletter.h', rd('sletter.h'))], sources=[(T + '/sletter.c', rd('sletter.c'))], c_includes=['sletter.h'],
            macros={'GI_TEST_EXTERN': '', 'G_GNUC_CONST': '', 'G_BEGIN_DECLS': '', 'G_END_DECLS': ''}, shared_libraries=['libsletter-1.0.so'], dump='<?xml version="1.0"?><dump><error-quark function="s_spawn_error_quark" domain="s-spawn-error"/><error-quark function="s_dbus_error_quark" domain="s-dbus-error"/></dump>')),
      ('Headeronly-1.0-expected.gir', dict(namespace='Headeronly', version='1.0', headers=[(T + '/headeronly.h', rd('headeronly.h'))], macros={'GI_TEST_EXTERN': '', 'G_GNUC_CONST': '', 'G_BEGIN_DECLS': '', 'G_END_DECLS': ''})),
      ('Identfilter-1.0-expected.gir', dict(namespace='Identfilter', version='1.0', accept_unprefixed=True, headers=[(T + '/identfilter.h', rd('identfilter.h'))],
            identifier_filter_cmd=[sys.executable, T + '/identfilter.py'])),
      ('Symbolfilter-1.0-expected.gir', dict(namespace='Symbolfilter', version='1.0', headers=[(T + '/symbolfilter.h', rd('symbolfilter.h'))],
            symbol_filter_cmd=[sys.executable, T + '/symbolfilter.py'])),
      ('Typedefs-1.0-expected.gir', dict(namespace='Typedefs', version='1.0', identifier_prefixes=['Typedefs'], symbol_prefixes=['typedefs'], includes=['GObject-2.0'],
            headers=[(T + '/typedefs.h', rd('typedefs.h'))], sources=[(T + '/typedefs.c', rd('typedefs.c'))], c_includes=['typedefs.h'], packages=['gobject-2.0'],
            macros={'GI_TEST_EXTERN': '', 'G_GNUC_CONST': '', 'G_BEGIN_DECLS': '', 'G_END_DECLS': ''}, shared_libraries=['libtypedef-1.0.so'], doc_format='gtk-doc-markdown',
            dump='<?xml version="1.0"?><dump>' + ''.join('<boxed name="Typedefs%s" get-type="typedefs_%s_get_type"/>' % (a, b) for a, b in [
               ('BoxedWithAnonymousTypedef', 'boxed_with_anonymous_typedef'), ('BoxedWithHiddenStruct', 'boxed_with_hidden_struct'),
               ('BoxedWithTagAndTypedef', 'boxed_with_tag_and_typedef'), ('BoxedWithTypedefAfter', 'boxed_with_typedef_after'), ('BoxedWithTypedefBefore', 'boxed_with_typedef_before')]) + '</dump>')),
      ('GetType-1.0-expected.gir', dict(namespace='GetType', version='1.0', identifier_prefixes=['GetType'], symbol_prefixes=['gettype'], includes=['GObject-2.0'],
            headers=[(T + '/gettype.h', rd('gettype.h'))], sources=[(T + '/gettype.c', rd('gettype.c'))], c_includes=['gettype.h'], packages=['gobject-2.0'],
            macros={'GI_TEST_EXTERN': '', 'G_GNUC_CONST': '', 'G_BEGIN_DECLS': '', 'G_END_DECLS': ''}, shared_libraries=['libgettype-1.0.so'],
            dump='<?xml version="1.0"?><dump><class name="GetTypeObject" get-type="gettype_object_get_type" parents="GObject"/></dump>')),
      ('GtkFrob-1.0-expected.gir', dict(namespace='GtkFrob', version='1.0', identifier_prefixes=['Gtk'], symbol_prefixes=['gtk_frob'], includes=['GObject-2.0'],
            headers=[(T + '/gtkfrob.h', rd('gtkfrob.h'))], sources=[(T + '/gtkfrob.c', rd('gtkfrob.c'))], packages=['gobject-2.0'],
            macros={'GI_TEST_EXTERN': '', 'G_GNUC_CONST': '', 'G_BEGIN_DECLS': '', 'G_END_DECLS': ''}, shared_libraries=['libgtkfrob-1.0.so'], dump='<?xml version="1.0"?><dump></dump>')),
      ('Bar-1.0-expected.gir', dict(namespace='Bar', version='1.0', includes=['GObject-2.0'], accept_unprefixed=True,
            headers=[(T + '/barapp.h', rd('barapp.h'))], sources=[(T + '/barapp.c', rd('barapp.c'))], packages=['gobject-2.0'], doc_format='gi-docgen',
            macros={'GI_TEST_EXTERN': '', 'G_GNUC_CONST': '', 'G_BEGIN_DECLS': '', 'G_END_DECLS': ''}, shared_libraries=['libbarapp-1.0.so'],
            dump='<?xml version="1.0"?><dump><class name="BarBaz" get-type="bar_baz_get_type" parents="GObject"/><class name="MutterWindow" get-type="mutter_window_get_type" parents="GObject"/></dump>')),
    ]
    return T, cases


def run():
    """-> [(expected file, identical?)]"""
    scan.setup()
    T, cases = expected_gir_cases()
    out = []
    for exp, case in cases:
        r = scan.scan(case)
        want = open(os.path.join(T, exp)).read()
        out.append((exp, r['gir'] == want))
    return out
