"""Real runtime dumps for C12: a generated objgen model is turned into a C program that registers exactly those GTypes with the
GObject runtime (system libgobject) and calls g_irepository_dump() - i.e. the repository's own girepository/gdump.c, built
with ASan+UBSan from the working tree.  The dump it writes is (a) compared with what was registered (oracle on gdump.c) and
(b) fed to the scanner instead of the synthetic dump.
"""
import copy, os, re, subprocess, xml.etree.ElementTree as ET
from . import objgen, cbuild, core

GTYPE_C = {'gint': 'G_TYPE_INT', 'guint': 'G_TYPE_UINT', 'gboolean': 'G_TYPE_BOOLEAN', 'gchararray': 'G_TYPE_STRING', 'gdouble': 'G_TYPE_DOUBLE',
           'gfloat': 'G_TYPE_FLOAT', 'gint64': 'G_TYPE_INT64', 'guint64': 'G_TYPE_UINT64', 'glong': 'G_TYPE_LONG', 'gulong': 'G_TYPE_ULONG',
           'gchar': 'G_TYPE_CHAR', 'guchar': 'G_TYPE_UCHAR', 'gpointer': 'G_TYPE_POINTER', 'GType': 'g_gtype_get_type ()', 'GObject': 'G_TYPE_OBJECT',
           'GVariant': 'G_TYPE_VARIANT', 'GStrv': 'g_strv_get_type ()', 'GParam': 'G_TYPE_PARAM', 'GBytes': 'g_bytes_get_type ()',
           'GValue': 'g_value_get_type ()', 'GError': 'g_error_get_type ()', 'void': 'G_TYPE_NONE', 'FooMode': 'foo_mode_get_type ()',
           'FooFlags': 'foo_flags_get_type ()', 'GInitiallyUnowned': 'g_initially_unowned_get_type ()'}
VALID_FLAGS = [1, 2, 3, 3, 3 | 4, 2 | 8, 3 | 8, 2 | 4, 1 | (1 << 31), 3 | (1 << 31), 3 | (1 << 30), 3 | (1 << 5), 3 | 224]

PRELUDE_C = r'''
#include <stdio.h>
#include <string.h>
#include <glib.h>
#include <glib-object.h>
#include "girepository.h"

/* registration API of the system libgobject that the declaration shim does not need otherwise */
typedef void (*VtBaseInit) (gpointer);
typedef struct { guint16 class_size; VtBaseInit base_init; VtBaseInit base_finalize; GClassInitFunc class_init; GClassInitFunc class_finalize;
                 gconstpointer class_data; guint16 instance_size; guint16 n_preallocs; GInstanceInitFunc instance_init; gconstpointer value_table; } VtTypeInfo;
typedef struct { void (*interface_init) (gpointer, gpointer); void (*interface_finalize) (gpointer, gpointer); gpointer interface_data; } VtInterfaceInfo;
typedef struct { guint value; const gchar *value_name; const gchar *value_nick; } VtFlagsValue;
extern GType g_type_register_static (GType parent_type, const gchar *type_name, const VtTypeInfo *info, GTypeFlags flags);
extern void g_type_add_interface_static (GType instance_type, GType interface_type, const VtInterfaceInfo *info);
extern void g_type_interface_add_prerequisite (GType interface_type, GType prerequisite_type);
extern GType g_enum_register_static (const gchar *name, const GEnumValue *const_static_values);
extern GType g_flags_register_static (const gchar *name, const VtFlagsValue *const_static_values);
extern void g_object_class_install_property (GObjectClass *oclass, guint property_id, GParamSpec *pspec);
extern void g_object_class_override_property (GObjectClass *oclass, guint property_id, const gchar *name);
extern void g_object_interface_install_property (gpointer g_iface, GParamSpec *pspec);
extern guint g_signal_new (const gchar *signal_name, GType itype, GSignalFlags signal_flags, guint class_offset, gpointer accumulator, gpointer accu_data,
                           gpointer c_marshaller, GType return_type, guint n_params, ...);
extern GParamSpec *g_param_spec_char (const gchar *, const gchar *, const gchar *, gint8, gint8, gint8, GParamFlags);
extern GParamSpec *g_param_spec_uchar (const gchar *, const gchar *, const gchar *, guint8, guint8, guint8, GParamFlags);
extern GParamSpec *g_param_spec_boolean (const gchar *, const gchar *, const gchar *, gboolean, GParamFlags);
extern GParamSpec *g_param_spec_int (const gchar *, const gchar *, const gchar *, gint, gint, gint, GParamFlags);
extern GParamSpec *g_param_spec_uint (const gchar *, const gchar *, const gchar *, guint, guint, guint, GParamFlags);
extern GParamSpec *g_param_spec_long (const gchar *, const gchar *, const gchar *, glong, glong, glong, GParamFlags);
extern GParamSpec *g_param_spec_ulong (const gchar *, const gchar *, const gchar *, gulong, gulong, gulong, GParamFlags);
extern GParamSpec *g_param_spec_int64 (const gchar *, const gchar *, const gchar *, gint64, gint64, gint64, GParamFlags);
extern GParamSpec *g_param_spec_uint64 (const gchar *, const gchar *, const gchar *, guint64, guint64, guint64, GParamFlags);
extern GParamSpec *g_param_spec_float (const gchar *, const gchar *, const gchar *, gfloat, gfloat, gfloat, GParamFlags);
extern GParamSpec *g_param_spec_double (const gchar *, const gchar *, const gchar *, gdouble, gdouble, gdouble, GParamFlags);
extern GParamSpec *g_param_spec_string (const gchar *, const gchar *, const gchar *, const gchar *, GParamFlags);
extern GParamSpec *g_param_spec_enum (const gchar *, const gchar *, const gchar *, GType, gint, GParamFlags);
extern GParamSpec *g_param_spec_flags (const gchar *, const gchar *, const gchar *, GType, guint, GParamFlags);
extern GParamSpec *g_param_spec_param (const gchar *, const gchar *, const gchar *, GType, GParamFlags);
extern GParamSpec *g_param_spec_boxed (const gchar *, const gchar *, const gchar *, GType, GParamFlags);
extern GParamSpec *g_param_spec_pointer (const gchar *, const gchar *, const gchar *, GParamFlags);
extern GParamSpec *g_param_spec_object (const gchar *, const gchar *, const gchar *, GType, GParamFlags);
extern GParamSpec *g_param_spec_gtype (const gchar *, const gchar *, const gchar *, GType, GParamFlags);
extern GParamSpec *g_param_spec_variant (const gchar *, const gchar *, const gchar *, gconstpointer, gpointer, GParamFlags);
extern GType g_gtype_get_type (void), g_strv_get_type (void), g_bytes_get_type (void), g_value_get_type (void), g_error_get_type (void),
             g_initially_unowned_get_type (void);
extern gboolean g_irepository_dump (const char *arg, GError **error);

#ifndef G_MAXUINT64
#define G_MAXUINT64 18446744073709551615ULL
#endif
#ifndef G_MAXINT64
#define G_MAXINT64 9223372036854775807LL
#endif
#ifndef G_MININT64
#define G_MININT64 (-G_MAXINT64 - 1)
#endif
#ifndef G_MINLONG
#define G_MINLONG (-9223372036854775807L - 1)
#define G_MAXLONG 9223372036854775807L
#define G_MAXULONG 18446744073709551615UL
#endif
#ifndef G_TYPE_FROM_INTERFACE
#define G_TYPE_FROM_INTERFACE(g_iface) (((GTypeInterface*) (g_iface))->g_type)
#endif
typedef struct { GObjectClass parent; gpointer pad[24]; } VtClass;
typedef struct { GObject parent; gpointer pad[8]; } VtInst;
typedef struct { GTypeInterface parent; gpointer pad[16]; } VtIface;

static void vt_set (GObject *o, guint id, const GValue *v, GParamSpec *p) { (void) o; (void) id; (void) v; (void) p; }
static void vt_get (GObject *o, guint id, GValue *v, GParamSpec *p) { (void) o; (void) id; (void) v; (void) p; }
static gpointer vt_copy (gpointer b) { return b; }
static void vt_free (gpointer b) { (void) b; }

GType foo_mode_get_type (void);
GType foo_flags_get_type (void);
GType
foo_mode_get_type (void)
{
  static GType t = 0;
  static const GEnumValue v[] = { { 0, "FOO_MODE_A", "a" }, { 1, "FOO_MODE_B", "b" }, { 0, NULL, NULL } };
  if (!t)
    t = g_enum_register_static ("FooMode", v);
  return t;
}
GType
foo_flags_get_type (void)
{
  static GType t = 0;
  static const VtFlagsValue v[] = { { 1, "FOO_FLAGS_X", "x" }, { 2, "FOO_FLAGS_Y", "y" }, { 0, NULL, NULL } };
  if (!t)
    t = g_flags_register_static ("FooFlags", v);
  return t;
}
'''


def cstr(s):
    return '"' + ''.join(c if (32 <= ord(c) < 127 and c not in '"\\') else ''.join('\\%03o' % b for b in c.encode('utf-8')) for c in s) + '"'


def strescape(s):
    """g_strescape"""
    out = []
    for b in s.encode('utf-8'):
        c = chr(b)
        if c == '\b':
            out.append('\\b')
        elif c == '\f':
            out.append('\\f')
        elif c == '\n':
            out.append('\\n')
        elif c == '\r':
            out.append('\\r')
        elif c == '\t':
            out.append('\\t')
        elif c == '\v':
            out.append('\\v')
        elif c == '\\':
            out.append('\\\\')
        elif c == '"':
            out.append('\\"')
        elif b < 32 or b >= 127:
            out.append('\\%03o' % b)
        else:
            out.append(c)
    return ''.join(out)


def restrict(model, rng):
    """-> a copy of the model that the GObject runtime accepts: sensible flag words, interfaces that can be registered here,
    a run phase for every signal; fundamentals are left out (they need a value table)"""
    m = copy.deepcopy(model)
    m['fundamentals'] = []
    own_if = set(f['name'] for f in m['ifaces'])
    for c in m['classes']:
        c['implements'] = [i for i in c['implements'] if i in own_if or i == 'FooPrivIface']
    own_types = set(x['name'] for x in m['classes'] + m['ifaces'] + m['boxed']) | set(e['name'] for e in m['enums'] if e['registered'])
    for f in m['ifaces']:
        f['private'] = False
        f['prereqs'] = [p for p in f['prereqs'] if p in own_types or p in ('GObject', 'FooPrivBaseThing')]
    value_types = own_types - own_if        # an interface is a value type only through an instantiatable prerequisite
    for holder in m['classes'] + m['ifaces']:
        for p in holder['props']:
            if p['type'] not in GTYPE_C and p['type'] not in value_types:
                p['type'] = 'gint'
                p['default'] = None
            if p['type'] in ('guint', 'gulong', 'guint64', 'guchar') and p['default'] is not None and p['default'].startswith('-'):
                p['default'] = '0'
            p['flags'] = rng.choice(VALID_FLAGS)
            if p['type'] == 'gchararray' and p['default'] == 'NULL':
                p['default'] = None
            if p['type'] == 'gchararray' and rng.random() < 0.4:
                p['default'] = rng.choice(['tab\there', 'line\nbreak', 'caf\u00e9 \u4e2d', '100% <&>', "it's", '', 'back\\slash "q"', '\x01ctl'])
        for s in holder['signals']:
            if not s['when']:
                s['when'] = 'last'
            s['params'] = [t if ((t in GTYPE_C and t != 'void') or t in value_types) else 'gint' for t in s['params']]
            if s['return'] not in GTYPE_C and s['return'] not in value_types:
                s['return'] = 'void'
            s.pop('emitter', None)
    m['enums'] = [e for e in m['enums'] if e['registered']]
    # what the type system itself insists on: prerequisites are classes or earlier interfaces (no cycles, one class at most,
    # and not a class that itself implements something - its get_type would re-enter the interface's); a class only implements
    # an interface whose prerequisites it conforms to, prerequisite interfaces first; no member name is defined twice on one
    # instance type
    byclass = {c['name']: c for c in m['classes']}
    seen_if = []
    for f in m['ifaces']:
        pre, have_class = [], False
        for p in f['prereqs']:
            if p in seen_if and p not in pre:
                pre.append(p)
            elif p in ('GObject', 'FooPrivBaseThing') or (p in byclass and not any(byclass[a]['implements'] for a in [p] + byclass[p]['chain'] if a in byclass)):
                if not have_class:
                    pre.append(p)
                    have_class = True
        f['prereqs'] = pre
        seen_if.append(f['name'])
    byif = {f['name']: f for f in m['ifaces']}
    done = set()

    def fix_class(c):
        if c['name'] in done:
            return
        done.add(c['name'])
        inherited_if, names_p, names_s = [], set(), set()
        for a in c['chain']:
            if a in byclass:
                fix_class(byclass[a])
                inherited_if += [i for i in byclass[a]['implements'] if i not in inherited_if]
                names_p |= set(p['name'] for p in byclass[a]['props'])
                names_s |= set(s['name'] for s in byclass[a]['signals'])
        for i in inherited_if:
            if i in byif:
                names_p |= set(p['name'] for p in byif[i]['props'])
                names_s |= set(s['name'] for s in byif[i]['signals'])
        impl = []
        for i in sorted(set(c['implements']), key=lambda n: seen_if.index(n) if n in seen_if else -1):
            if i in inherited_if:
                continue
            if i in byif:
                f = byif[i]
                conforms = all(p == 'GObject' or p == c['name'] or p in c['chain'] or p in impl or p in inherited_if for p in f['prereqs'])
                clash = (names_p & set(p['name'] for p in f['props'])) or (names_s & set(s['name'] for s in f['signals']))
                if not conforms or clash:
                    continue
                names_p |= set(p['name'] for p in f['props'])
                names_s |= set(s['name'] for s in f['signals'])
            impl.append(i)
        c['implements'] = impl
        c['overrides'] = [p['name'] for i in impl if i in byif for p in byif[i]['props']]
        keep = []
        for p in c['props']:
            if p['name'] not in names_p:
                names_p.add(p['name'])
                keep.append(p)
        c['props'] = keep
        keep = []
        for s in c['signals']:
            if s['name'] not in names_s:
                names_s.add(s['name'])
                keep.append(s)
        c['signals'] = keep

    for c in m['classes']:
        fix_class(c)
    for f in m['ifaces']:
        for key in ('props', 'signals'):
            seen, keep = set(), []
            for x in f[key]:
                if x['name'] not in seen:
                    seen.add(x['name'])
                    keep.append(x)
            f[key] = keep
    return m


def gtype_expr(t, m):
    if t in GTYPE_C:
        return GTYPE_C[t]
    return 'foo_%s_get_type ()' % objgen.uscore(t[3:])


def _pspec(p, m, enums):
    n, t, fl, dv = cstr(p['name']), p['type'], '(GParamFlags) %uu' % p['flags'], p['default']
    args3 = '%s, %s, "blurb"' % (n, n)
    num = {'gint': ('int', 'G_MININT', 'G_MAXINT'), 'guint': ('uint', '0', 'G_MAXUINT'), 'glong': ('long', 'G_MINLONG', 'G_MAXLONG'),
           'gulong': ('ulong', '0', 'G_MAXULONG'), 'gint64': ('int64', 'G_MININT64', 'G_MAXINT64'), 'guint64': ('uint64', '0', 'G_MAXUINT64'),
           'gchar': ('char', '-128', '127'), 'guchar': ('uchar', '0', '255'), 'gdouble': ('double', '-1e9', '1e9'), 'gfloat': ('float', '-1e9f', '1e9f')}
    if t in num:
        k, lo, hi = num[t]
        d = dv if dv is not None else '0'
        if t in ('guint', 'gulong', 'guint64', 'guchar') and d.startswith('-'):
            d = '0'
        return 'g_param_spec_%s (%s, %s, %s, %s, %s)' % (k, args3, lo, hi, d, fl)
    if t == 'gboolean':
        return 'g_param_spec_boolean (%s, %s, %s)' % (args3, dv if dv in ('TRUE', 'FALSE') else 'FALSE', fl)
    if t == 'gchararray':
        return 'g_param_spec_string (%s, %s, %s)' % (args3, cstr(dv) if dv is not None else 'NULL', fl)
    if t == 'gpointer':
        return 'g_param_spec_pointer (%s, %s)' % (args3, fl)
    if t == 'GType':
        return 'g_param_spec_gtype (%s, G_TYPE_NONE, %s)' % (args3, fl)
    if t == 'GVariant':
        return 'g_param_spec_variant (%s, "*", NULL, %s)' % (args3, fl)
    if t == 'GParam':
        return 'g_param_spec_param (%s, G_TYPE_PARAM, %s)' % (args3, fl)
    if t == 'FooMode' or (t in enums and not enums[t]['flags']):
        first = '0' if t == 'FooMode' else str(enums[t]['members'][0][1])
        return 'g_param_spec_enum (%s, %s, %s, %s)' % (args3, gtype_expr(t, m), first, fl)
    if t == 'FooFlags' or t in enums:
        return 'g_param_spec_flags (%s, %s, 0, %s)' % (args3, gtype_expr(t, m), fl)
    if t in ('GStrv', 'GBytes', 'GValue', 'GError') or t in set(b['name'] for b in m['boxed']):
        return 'g_param_spec_boxed (%s, %s, %s)' % (args3, gtype_expr(t, m), fl)
    return 'g_param_spec_object (%s, %s, %s)' % (args3, gtype_expr(t, m), fl)


def _signals(holder, m):
    L = []
    for s in holder['signals']:
        fl = {'first': 'G_SIGNAL_RUN_FIRST', 'last': 'G_SIGNAL_RUN_LAST', 'cleanup': 'G_SIGNAL_RUN_CLEANUP'}[s['when']]
        for k, f in (('no_recurse', 'G_SIGNAL_NO_RECURSE'), ('detailed', 'G_SIGNAL_DETAILED'), ('action', 'G_SIGNAL_ACTION'), ('no_hooks', 'G_SIGNAL_NO_HOOKS')):
            if s[k]:
                fl += ' | ' + f
        ps = ''.join(', %s' % gtype_expr(t, m) for t in s['params'])
        L.append('  g_signal_new (%s, t, (GSignalFlags) (%s), 0, NULL, NULL, NULL, %s, %d%s);' % (cstr(s['name']), fl, gtype_expr(s['return'], m), len(s['params']), ps))
    return L


def c_source(m, infile, outfile):
    enums = {e['name']: e for e in m['enums']}
    L = [PRELUDE_C]
    protos, body, gettypes, hidden = [], [], [], {}

    def us(nm):
        return 'foo_' + objgen.uscore(nm[3:])

    def hidden_type(name, parent_expr, iface=False):
        if name in hidden:
            return hidden[name]
        fn = 'vt_hidden_%d_get_type' % len(hidden)
        hidden[name] = fn + ' ()'
        protos.append('static GType %s (void);' % fn)
        if iface:
            body.append('static GType\n%s (void)\n{\n  static GType t = 0;\n  static const VtTypeInfo info = { sizeof (VtIface), NULL, NULL, NULL, NULL, NULL, 0, 0, NULL, NULL };\n'
                        '  if (!t)\n    t = g_type_register_static (G_TYPE_INTERFACE, %s, &info, (GTypeFlags) 0);\n  return t;\n}\n' % (fn, cstr(name)))
        else:
            body.append('static GType\n%s (void)\n{\n  static GType t = 0;\n  if (!t)\n    t = g_type_register_static_simple (%s, %s, sizeof (VtClass), NULL, sizeof (VtInst), NULL, (GTypeFlags) 0);\n  return t;\n}\n' % (
                fn, parent_expr, cstr(name)))
        return hidden[name]

    for e in m['enums']:
        fn = us(e['name']) + '_get_type'
        protos.append('GType %s (void);' % fn)
        vals = ', '.join('{ %d, %s, %s }' % (v, cstr(n), cstr(n.split('_')[-1].lower())) for n, v in e['members'])
        body.append('GType\n%s (void)\n{\n  static GType t = 0;\n  static const %s v[] = { %s, { 0, NULL, NULL } };\n  if (!t)\n    t = %s (%s, v);\n  return t;\n}\n' % (
            fn, 'VtFlagsValue' if e['flags'] else 'GEnumValue', vals, 'g_flags_register_static' if e['flags'] else 'g_enum_register_static', cstr(e['name'])))
        gettypes.append(fn)
    for b in m['boxed']:
        fn = us(b['name']) + '_get_type'
        protos.append('GType %s (void);' % fn)
        body.append('GType\n%s (void)\n{\n  static GType t = 0;\n  if (!t)\n    t = g_boxed_type_register_static (%s, vt_copy, vt_free);\n  return t;\n}\n' % (fn, cstr(b['name'])))
        gettypes.append(fn)
    for f in m['ifaces']:
        fn = us(f['name']) + '_get_type'
        protos.append('GType %s (void);' % fn)
        gettypes.append(fn)
    for c in m['classes']:
        fn = us(c['name']) + '_get_type'
        protos.append('GType %s (void);' % fn)
        gettypes.append(fn)
    for f in m['ifaces']:
        fn = us(f['name']) + '_get_type'
        init = 'vt_%s_default_init' % objgen.uscore(f['name'][3:])
        lines = ['static void\n%s (gpointer iface, gpointer data)\n{\n  GType t = G_TYPE_FROM_INTERFACE (iface);\n  (void) data; (void) t;' % init]
        for p in f['props']:
            lines.append('  g_object_interface_install_property (iface, %s);' % _pspec(p, m, enums))
        lines += _signals(f, m)
        lines.append('}\n')
        body.append('\n'.join(lines))
        pre = []
        for p in f['prereqs']:
            if p == 'GObject':
                pre.append('G_TYPE_OBJECT')
            elif p == 'FooPrivBaseThing':
                pre.append(hidden_type(p, 'G_TYPE_OBJECT'))
            else:
                pre.append(gtype_expr(p, m))
        body.append('GType\n%s (void)\n{\n  static GType t = 0;\n  static const VtTypeInfo info = { sizeof (VtIface), NULL, NULL, (GClassInitFunc) %s, NULL, NULL, 0, 0, NULL, NULL };\n'
                    '  if (!t)\n    {\n      t = g_type_register_static (G_TYPE_INTERFACE, %s, &info, (GTypeFlags) 0);\n%s    }\n  return t;\n}\n' % (
                        fn, init, cstr(f['name']), ''.join('      g_type_interface_add_prerequisite (t, %s);\n' % x for x in pre)))
    for c in m['classes']:
        fn = us(c['name']) + '_get_type'
        init = 'vt_%s_class_init' % objgen.uscore(c['name'][3:])
        lines = ['static void\n%s (gpointer klass, gpointer data)\n{\n  GObjectClass *oc = (GObjectClass *) klass;\n  GType t = G_TYPE_FROM_CLASS (klass);\n  (void) data; (void) t;\n'
                 '  oc->set_property = vt_set;\n  oc->get_property = vt_get;' % init]
        for i, p in enumerate(c['props']):
            lines.append('  g_object_class_install_property (oc, %d, %s);' % (i + 1, _pspec(p, m, enums)))
        for j, nm in enumerate(c.get('overrides', [])):
            lines.append('  g_object_class_override_property (oc, %d, %s);' % (len(c['props']) + j + 1, cstr(nm)))
        lines += _signals(c, m)
        lines.append('}\n')
        body.append('\n'.join(lines))
        # parent: the first element of the chain, registering hidden ones on the way
        chain = c['chain']
        expr = None
        for name in reversed(chain):
            if name == 'GObject':
                expr = 'G_TYPE_OBJECT'
            elif name == 'GInitiallyUnowned':
                expr = 'g_initially_unowned_get_type ()'
            elif name in set(x['name'] for x in m['classes']):
                expr = gtype_expr(name, m)
            else:
                expr = hidden_type(name, expr)
        flags = ' | '.join((['G_TYPE_FLAG_ABSTRACT'] if c['abstract'] else []) + (['G_TYPE_FLAG_FINAL'] if c['final'] else [])) or '0'
        impl = []
        for i in c['implements']:
            impl.append(hidden_type(i, None, iface=True) if i == 'FooPrivIface' else gtype_expr(i, m))
        body.append('GType\n%s (void)\n{\n  static GType t = 0;\n  static const VtInterfaceInfo ii = { NULL, NULL, NULL };\n  if (!t)\n    {\n      t = g_type_register_static_simple (%s, %s, sizeof (VtClass), '
                    '(GClassInitFunc) %s, sizeof (VtInst), NULL, (GTypeFlags) (%s));\n%s    }\n  (void) ii;\n  return t;\n}\n' % (
                        fn, expr, cstr(c['name']), init, flags, ''.join('      g_type_add_interface_static (t, %s, &ii);\n' % x for x in impl)))
    for q in m['quarks']:
        protos.append('GQuark %s (void);' % q['func'])
        body.append('GQuark\n%s (void)\n{\n  return g_quark_from_static_string (%s);\n}\n' % (q['func'], cstr(q['domain'])))
    L += protos
    L += body
    L.append('int\nmain (void)\n{\n  GError *error = NULL;\n  if (!g_irepository_dump (%s, &error))\n    {\n      fprintf (stderr, "dump failed: %%s\\n", error ? error->message : "?");\n      return 1;\n    }\n  return 0;\n}\n' % cstr(
        infile + ',' + outfile))
    return '\n'.join(L), gettypes, [q['func'] for q in m['quarks']]


def all_interfaces(c, m):
    """what g_type_interfaces reports: the class's own interfaces and those of its ancestors of this library (plus the
    prerequisites of each that are interfaces are NOT added by GLib)"""
    byname = {x['name']: x for x in m['classes']}
    out = []
    for name in [c['name']] + c['chain']:
        if name in byname:
            for i in byname[name]['implements']:
                if i not in out:
                    out.append(i)
    return out


def expected(m):
    """normalised description of what gdump.c must report for the registrations of c_source(m)"""
    out = {}
    for c in m['classes']:
        out[c['name']] = {'kind': 'class', 'get-type': 'foo_%s_get_type' % objgen.uscore(c['name'][3:]), 'parents': ','.join(c['chain']),
                          'abstract': bool(c['abstract']), 'final': bool(c['final']), 'implements': sorted(all_interfaces(c, m)),
                          'props': sorted((p['name'], p['type'], p['flags'] & 0xffffffff) for p in c['props']),
                          'defaults': {p['name']: strescape(p['default']) for p in c['props'] if p['default'] is not None},
                          'signals': sorted(_sig(s) for s in c['signals'])}
    for f in m['ifaces']:
        out[f['name']] = {'kind': 'interface', 'get-type': 'foo_%s_get_type' % objgen.uscore(f['name'][3:]),
                          'prerequisites': sorted(p for p in f['prereqs'] if p != 'GObject'),
                          'props': sorted((p['name'], p['type'], p['flags'] & 0xffffffff) for p in f['props']),
                          'defaults': {p['name']: strescape(p['default']) for p in f['props'] if p['default'] is not None},
                          'signals': sorted(_sig(s) for s in f['signals'])}
    for b in m['boxed']:
        out[b['name']] = {'kind': 'boxed', 'get-type': 'foo_%s_get_type' % objgen.uscore(b['name'][3:])}
    for e in m['enums']:
        out[e['name']] = {'kind': 'flags' if e['flags'] else 'enum', 'get-type': 'foo_%s_get_type' % objgen.uscore(e['name'][3:]),
                          'members': [(n, n.split('_')[-1].lower(), v) for n, v in e['members']]}
    for q in m['quarks']:
        out['quark:' + q['func']] = {'kind': 'error-quark', 'domain': q['domain']}
    return out


def _sig(s):
    return (s['name'], s['return'], s['when'], bool(s['no_recurse']), bool(s['detailed']), bool(s['action']), bool(s['no_hooks']), tuple(s['params']))


def parse(xml):
    """the same normalised description read from a dump"""
    root = ET.fromstring(xml)
    out = {}
    for n in root:
        if n.tag == 'error-quark':
            out['quark:' + n.get('function')] = {'kind': 'error-quark', 'domain': n.get('domain')}
            continue
        d = {'kind': n.tag, 'get-type': n.get('get-type')}
        if n.tag in ('class', 'fundamental'):
            d.update(parents=n.get('parents') or '', abstract=n.get('abstract') == '1', final=n.get('final') == '1',
                     implements=sorted(c.get('name') for c in n.findall('implements')))
        if n.tag == 'interface':
            d['prerequisites'] = sorted(c.get('name') for c in n.findall('prerequisite'))
        if n.tag in ('class', 'interface'):
            d['props'] = sorted((c.get('name'), c.get('type'), int(c.get('flags')) & 0xffffffff) for c in n.findall('property'))
            d['defaults'] = {c.get('name'): c.get('default-value') for c in n.findall('property') if c.get('default-value') is not None}
            d['signals'] = sorted((c.get('name'), c.get('return'), c.get('when'), c.get('no-recurse') == '1', c.get('detailed') == '1', c.get('action') == '1',
                                   c.get('no-hooks') == '1', tuple(p.get('type') for p in c.findall('param'))) for c in n.findall('signal'))
        if n.tag in ('enum', 'flags'):
            d['members'] = [(c.get('name'), c.get('nick'), int(c.get('value'))) for c in n.findall('member')]
        out[n.get('name')] = d
    return out


def differences(exp, got):
    """-> [(key, text)] ; explicit defaults must be reported, implicit ones (GLib's own) are not judged"""
    out = []
    for name in sorted(set(exp) | set(got)):
        if name not in got:
            out.append(('gdump:missing:' + exp[name]['kind'], '%s was registered but is not in the dump' % name))
            continue
        if name not in exp:
            out.append(('gdump:extra:' + got[name]['kind'], '%s is in the dump but was not registered' % name))
            continue
        e, g = exp[name], got[name]
        for k in e:
            if k == 'defaults':
                for pn, dv in e['defaults'].items():
                    if g.get('defaults', {}).get(pn) != dv:
                        out.append(('gdump:%s:default-value' % e['kind'], '%s:%s default %r reported as %r' % (name, pn, dv, g.get('defaults', {}).get(pn))))
            elif e[k] != g.get(k):
                out.append(('gdump:%s:%s' % (e['kind'], k), '%s: %s registered as %r, dump says %r' % (name, k, e[k], g.get(k))))
    return out


def produce(build_info, csan, m, workdir):
    """-> (dump xml or None, stderr, rc) : compile the type factory against the freshly built libgirepository and run it"""
    infile, outfile = os.path.join(workdir, 'types.txt'), os.path.join(workdir, 'dump.xml')
    src, gettypes, quarks = c_source(m, infile, outfile)
    cpath = os.path.join(workdir, 'factory.c')
    with open(cpath, 'w') as f:
        f.write(src)
    with open(infile, 'w') as f:
        f.write(''.join('get-type:%s\n' % g for g in gettypes) + ''.join('error-quark:%s\n' % q for q in quarks))
    exe = os.path.join(workdir, 'factory')
    ok, err = cbuild.compile_driver(build_info, cpath, exe)
    if not ok:
        return None, 'COMPILE: ' + err[-1500:], -1
    rc, so, se = csan.run([exe], build_info, timeout=120)
    if rc != 0 or not os.path.exists(outfile):
        return None, se, rc
    return open(outfile, encoding='utf-8').read(), se, rc


def judge_model(m):
    """the model as the scanner-side oracle of C12 must read it when the dump is the real one: a class reports every interface
    it conforms to (its ancestors' too), and string defaults arrive escaped the way gdump.c writes them"""
    j = copy.deepcopy(m)
    for c in j['classes']:
        c['implements'] = all_interfaces(c, m)
    for f in j['ifaces']:
        f['prereqs'] = [p for p in f['prereqs'] if p != 'GObject']      # gdump.c treats the GObject prerequisite as implicit
    for holder in j['classes'] + j['ifaces']:
        for p in holder['props']:
            if p['default'] is not None and p['type'] == 'gchararray':
                p['default'] = strescape(p['default'])
    return j


NOISE = re.compile(r'GLib(-GObject)?-(CRITICAL|WARNING)')
SANITIZER = re.compile(r'runtime error:|ERROR: AddressSanitizer|ERROR: LeakSanitizer|SUMMARY: (Address|UndefinedBehavior)Sanitizer')
