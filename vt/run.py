import sys, importlib, os, traceback
from . import core


def main():
    if len(sys.argv) < 2:
        print("usage: check <property-id> [--tier quick|thorough] [--seed N] [--replay file]")
        return 2
    pid = sys.argv[1].upper()
    args = core.main_args(sys.argv[2:])
    core.ensure_deps()
    try:
        mod = importlib.import_module('vt.checks.' + pid.lower())
    except ImportError:
        traceback.print_exc()
        print("INCONCLUSIVE property=%s reason=no such check module" % pid)
        return 2
    try:
        return mod.run(args)
    except Exception:
        # a harness failure is never a violation
        traceback.print_exc()
        print("INCONCLUSIVE property=%s reason=harness exception (see traceback)" % pid)
        return 2


if __name__ == '__main__':
    sys.exit(main())
