"""Build gobject-introspection's C side (libgirepository, g-ir-compiler, g-ir-generate,
g-ir-inspect) from the repo's *current working tree* with clang, against the hand-written
GLib declaration shim in vt/shim and the system GLib 2.74 runtime libraries.

No GLib headers, meson, flex or bison are needed.  Nothing is cached between calls: every
call to build() wipes its outputs in `outdir` and recompiles every source.

Public API
    build(outdir, repo='/repo', sanitize=True, jobs=16, extra_cflags=()) -> dict
    compile_driver(build_info, c_source_path, out_path, extra=()) -> (ok, stderr)
    runtime_env(sanitize=True, base=None) -> dict   (environment for running built binaries)

Command line:  python -m vt.cbuild <outdir> [--no-sanitize] [--repo DIR] [--jobs N]
"""
import concurrent.futures
import os
import re
import shutil
import subprocess
import sys
import time

HERE = os.path.dirname(os.path.abspath(__file__))
SHIM = os.path.join(HERE, 'shim')
SHIM_GEN = os.path.join(SHIM, 'gen')

CC = os.environ.get('VT_CC', 'clang')
AR = os.environ.get('VT_AR', 'ar')

# System GLib runtime (no -dev symlinks exist, hence the -l:<soname> form).
SYS_LIBS = ['-l:libgio-2.0.so.0', '-l:libgobject-2.0.so.0', '-l:libgmodule-2.0.so.0',
            '-l:libglib-2.0.so.0', '-lffi', '-ldl', '-lm']

SAN_CFLAGS = ['-fsanitize=address,undefined', '-fno-sanitize-recover=address',
              '-fsanitize-recover=undefined', '-O1', '-g', '-fno-omit-frame-pointer']
SAN_LDFLAGS = ['-fsanitize=address,undefined']
PLAIN_CFLAGS = ['-O0', '-g', '-fno-omit-frame-pointer']
# Quiet, except for the diagnostics that would mean the GLib shim lacks (or mis-declares) something:
# an implicitly declared g_* function would silently truncate pointers to int.
WARN_FLAGS = ['-Wno-everything', '-Werror=implicit-function-declaration',
              '-Werror=int-conversion', '-Werror=incompatible-pointer-types',
              '-Werror=incompatible-function-pointer-types']

# Fallback source lists (mirrors of girepository/meson.build and girepository/cmph/meson.build);
# the live lists are parsed from the working tree's meson.build files when possible.
_FALLBACK = {
    'lib': ['gdump.c', 'giarginfo.c', 'gibaseinfo.c', 'gicallableinfo.c', 'giconstantinfo.c',
            'gienuminfo.c', 'gifieldinfo.c', 'gifunctioninfo.c', 'ginvoke.c', 'giinterfaceinfo.c',
            'giobjectinfo.c', 'gipropertyinfo.c', 'giregisteredtypeinfo.c', 'girepository.c',
            'girffi.c', 'gisignalinfo.c', 'gistructinfo.c', 'gitypeinfo.c', 'gitypelib.c',
            'giunioninfo.c', 'giversion.c', 'givfuncinfo.c'],
    'internals': ['girmodule.c', 'girnode.c', 'giroffsets.c', 'girparser.c', 'girwriter.c'],
    'gthash': ['gthash.c'],
    'cmph': ['bdz.c', 'bdz_ph.c', 'bmz8.c', 'bmz.c', 'brz.c', 'buffer_entry.c',
             'buffer_manager.c', 'chd.c', 'chd_ph.c', 'chm.c', 'cmph.c', 'cmph_structs.c',
             'compressed_rank.c', 'compressed_seq.c', 'fch_buckets.c', 'fch.c', 'graph.c',
             'hash.c', 'jenkins_hash.c', 'miller_rabin.c', 'select.c', 'vqueue.c', 'vstack.c'],
}

TOOLS = {
    # name: (source relative to repo, needs internals archive)
    'g-ir-compiler': ('tools/compiler.c', True),
    'g-ir-generate': ('tools/generate.c', True),
    'g-ir-inspect': ('tools/g-ir-inspect.c', False),
}


def _meson_list(text, pattern):
    """Return the quoted '*.c' items of the first [...] list following `pattern`, or None."""
    m = re.search(pattern + r'\s*\[(.*?)\]', text, re.S)
    if not m:
        return None
    items = re.findall(r"'([^']+\.c)'", m.group(1))
    return items or None


def source_lists(repo='/repo'):
    """Source lists per group, parsed from the working tree's meson.build (fallback: built-in)."""
    out = {k: list(v) for k, v in _FALLBACK.items()}
    try:
        with open(os.path.join(repo, 'girepository', 'meson.build')) as f:
            gi = f.read()
        lib = _meson_list(gi, r'girepo_sources\s*=')
        if lib:
            out['lib'] = lib
        ints = _meson_list(gi, r"static_library\('girepository-internals',\s*sources:")
        if ints:
            out['internals'] = ints
    except OSError:
        pass
    try:
        with open(os.path.join(repo, 'girepository', 'cmph', 'meson.build')) as f:
            cm = _meson_list(f.read(), r'cmph_sources\s*=')
        if cm:
            out['cmph'] = cm
    except OSError:
        pass
    return out


def base_cflags(repo='/repo', sanitize=True, extra_cflags=()):
    """Flags common to every translation unit (and to callers' drivers)."""
    gi = os.path.join(repo, 'girepository')
    flags = ['-std=gnu99'] + WARN_FLAGS + ['-fno-strict-aliasing', '-DHAVE_CONFIG_H',
             '-I' + SHIM, '-I' + SHIM_GEN, '-I' + gi, '-I' + os.path.join(gi, 'cmph'),
             '-I' + repo]
    flags += SAN_CFLAGS if sanitize else PLAIN_CFLAGS
    flags += list(extra_cflags)
    return flags


def runtime_env(sanitize=True, base=None):
    """Environment for running the built tools / drivers."""
    env = dict(os.environ if base is None else base)
    if sanitize:
        # The CLI tools intentionally leak at exit; UBSan findings are reported, not fatal.
        env['ASAN_OPTIONS'] = 'detect_leaks=0:abort_on_error=0:symbolize=1'
        env['UBSAN_OPTIONS'] = 'print_stacktrace=1:halt_on_error=0'
    env.setdefault('LC_ALL', 'C')
    # keep GLib from aborting on warnings because of an inherited G_DEBUG
    env.pop('G_DEBUG', None)
    return env


def _run(cmd, timeout=300):
    try:
        p = subprocess.run(cmd, stdout=subprocess.PIPE, stderr=subprocess.PIPE,
                           timeout=timeout, text=True, errors='replace')
        return p.returncode, (p.stdout or '') + (p.stderr or '')
    except subprocess.TimeoutExpired:
        return 124, 'timeout: ' + ' '.join(cmd)
    except OSError as e:
        return 127, '%s: %s' % (cmd[0], e)


def _snippet(cmd, rc, text, limit=3000):
    head = '$ ' + ' '.join(cmd[:3]) + ' ... ' + cmd[-1] + '  (exit %d)\n' % rc
    return head + text[:limit]


def build(outdir, repo='/repo', sanitize=True, jobs=16, extra_cflags=()):
    """Compile everything from `repo`'s working tree into `outdir`.  See module docstring."""
    t0 = time.time()
    outdir = os.path.abspath(outdir)
    repo = os.path.abspath(repo)
    objroot = os.path.join(outdir, 'obj')
    errors = []

    # no caching: wipe our previous outputs
    shutil.rmtree(objroot, ignore_errors=True)
    for name in list(TOOLS) + ['libgirepository.a', 'libgirinternals.a']:
        try:
            os.unlink(os.path.join(outdir, name))
        except OSError:
            pass
    for sub in ('girepository', 'cmph', 'tools'):
        os.makedirs(os.path.join(objroot, sub), exist_ok=True)

    common = base_cflags(repo, sanitize, extra_cflags)
    lists = source_lists(repo)
    gi = os.path.join(repo, 'girepository')

    # (group, source path, object path, per-group flags) -- mirrors meson's c_args
    hidden = ['-fvisibility=hidden']
    units = []
    for s in lists['lib']:
        units.append(('lib', os.path.join(gi, s),
                      os.path.join(objroot, 'girepository', s[:-2] + '.o'),
                      hidden + ['-DG_IREPOSITORY_COMPILATION']))
    for s in lists['gthash']:
        units.append(('gthash', os.path.join(gi, s),
                      os.path.join(objroot, 'girepository', s[:-2] + '.o'), hidden))
    for s in lists['internals']:
        units.append(('internals', os.path.join(gi, s),
                      os.path.join(objroot, 'girepository', s[:-2] + '.o'), hidden))
    for s in lists['cmph']:
        units.append(('cmph', os.path.join(gi, 'cmph', s),
                      os.path.join(objroot, 'cmph', s[:-2] + '.o'), hidden))
    for tool, (rel, _) in TOOLS.items():
        units.append(('tool:' + tool, os.path.join(repo, rel),
                      os.path.join(objroot, 'tools', os.path.basename(rel)[:-2] + '.o'), []))

    def size(u):
        try:
            return os.path.getsize(u[1])
        except OSError:
            return 0
    units.sort(key=size, reverse=True)          # longest compiles first

    def compile_one(u):
        group, src, obj, gflags = u
        cmd = [CC, '-c'] + common + gflags + ['-o', obj, src]
        rc, text = _run(cmd)
        return u, cmd, rc, text

    objs = {}
    groups = {'lib': [], 'gthash': [], 'internals': [], 'cmph': [], 'tools': {}}
    failed_tools = set()
    lib_failed = False
    with concurrent.futures.ThreadPoolExecutor(max_workers=max(1, int(jobs))) as ex:
        for u, cmd, rc, text in ex.map(compile_one, units):
            group, src, obj, _ = u
            rel = os.path.relpath(src, repo)
            if rc != 0 or not os.path.exists(obj):
                errors.append(_snippet(cmd, rc, text))
                if group.startswith('tool:'):
                    failed_tools.add(group[5:])
                else:
                    lib_failed = True
                continue
            objs[rel] = obj
            if group.startswith('tool:'):
                groups['tools'][group[5:]] = obj
            else:
                groups[group].append(obj)
    for k in ('lib', 'gthash', 'internals', 'cmph'):
        groups[k].sort()

    lib_a = os.path.join(outdir, 'libgirepository.a')
    int_a = os.path.join(outdir, 'libgirinternals.a')
    archives = {}
    if not lib_failed:
        for path, members in ((lib_a, groups['lib'] + groups['gthash'] + groups['cmph']),
                              (int_a, groups['internals'])):
            cmd = [AR, 'rcs', path] + members
            rc, text = _run(cmd)
            if rc != 0:
                errors.append(_snippet(cmd, rc, text))
                lib_failed = True
            else:
                archives[os.path.basename(path)] = path

    link_san = SAN_LDFLAGS if sanitize else []
    # what a caller's driver needs: both archives (grouped, so order does not matter) + libs
    ldflags = (link_san + ['-Wl,--start-group', int_a, lib_a, '-Wl,--end-group'] + SYS_LIBS)

    tools = {}

    def link_tool(name):
        rel, needs_int = TOOLS[name]
        exe = os.path.join(outdir, name)
        arch = ['-Wl,--start-group'] + ([int_a] if needs_int else []) + [lib_a, '-Wl,--end-group']
        cmd = [CC] + link_san + ['-g', '-o', exe, groups['tools'][name]] + arch + SYS_LIBS
        rc, text = _run(cmd)
        return name, exe, cmd, rc, text

    if not lib_failed:
        names = [n for n in TOOLS if n in groups['tools'] and n not in failed_tools]
        with concurrent.futures.ThreadPoolExecutor(max_workers=max(1, len(names))) as ex:
            for name, exe, cmd, rc, text in ex.map(link_tool, names):
                if rc != 0 or not os.path.exists(exe):
                    errors.append(_snippet(cmd, rc, text))
                else:
                    tools[name] = exe

    ok = (not lib_failed and not errors
          and 'g-ir-compiler' in tools and 'g-ir-generate' in tools)
    return {
        'ok': ok,
        'outdir': outdir,
        'repo': repo,
        'sanitize': bool(sanitize),
        'tools': tools,
        'archives': archives,
        'cflags': list(common),
        'ldflags': ldflags,
        'objs': objs,
        'groups': groups,
        'errors': errors,
        'env': ({'ASAN_OPTIONS': 'detect_leaks=0:abort_on_error=0:symbolize=1',
                 'UBSAN_OPTIONS': 'print_stacktrace=1:halt_on_error=0'} if sanitize else {}),
        'wall_s': round(time.time() - t0, 2),
    }


def compile_driver(build_info, c_source_path, out_path, extra=()):
    """Compile and link one C driver against a finished build().  Returns (ok, stderr).

    `extra` items are passed to clang before the link flags (extra -D/-I flags, additional
    .c/.o files...).  A driver that pulls in girparser.o (any _g_ir_parser_* symbol) must
    define `GLogLevelFlags logged_levels;` itself: tools/compiler.c normally provides it.
    """
    cmd = ([CC] + list(build_info['cflags']) + ['-rdynamic'] + list(extra)
           + ['-o', out_path, c_source_path] + list(build_info['ldflags']))
    rc, text = _run(cmd)
    ok = (rc == 0 and os.path.exists(out_path))
    return ok, text


def main(argv=None):
    argv = list(sys.argv[1:] if argv is None else argv)
    sanitize = True
    repo = '/repo'
    jobs = os.cpu_count() or 16
    pos = []
    i = 0
    while i < len(argv):
        a = argv[i]
        if a == '--no-sanitize':
            sanitize = False
        elif a == '--repo':
            i += 1
            repo = argv[i]
        elif a == '--jobs':
            i += 1
            jobs = int(argv[i])
        else:
            pos.append(a)
        i += 1
    if len(pos) != 1:
        print('usage: python -m vt.cbuild <outdir> [--no-sanitize] [--repo DIR] [--jobs N]')
        return 2
    info = build(pos[0], repo=repo, sanitize=sanitize, jobs=jobs)
    print('ok=%s sanitize=%s wall=%.2fs objects=%d' % (info['ok'], info['sanitize'],
                                                      info['wall_s'], len(info['objs'])))
    for k, v in sorted(info['archives'].items()):
        print('  archive %-20s %s' % (k, v))
    for k, v in sorted(info['tools'].items()):
        print('  tool    %-20s %s' % (k, v))
    print('  cflags : ' + ' '.join(info['cflags']))
    print('  ldflags: ' + ' '.join(info['ldflags']))
    if info['env']:
        print('  env    : ' + ' '.join('%s=%s' % kv for kv in sorted(info['env'].items())))
    for e in info['errors']:
        print('--- error ---')
        print(e)
    return 0 if info['ok'] else 1


if __name__ == '__main__':
    sys.exit(main())
