/* Minimal GObject 2.74 declaration shim (see glib.h). */
#ifndef __VERIF_GOBJECT_SHIM_H__
#define __VERIF_GOBJECT_SHIM_H__
#include <glib.h>
typedef gsize GType;
#define G_TYPE_FUNDAMENTAL_SHIFT (2)
#define G_TYPE_MAKE_FUNDAMENTAL(x) ((GType) ((x) << G_TYPE_FUNDAMENTAL_SHIFT))
#define G_TYPE_FUNDAMENTAL_MAX (255 << G_TYPE_FUNDAMENTAL_SHIFT)
#define G_TYPE_INVALID G_TYPE_MAKE_FUNDAMENTAL (0)
#define G_TYPE_NONE G_TYPE_MAKE_FUNDAMENTAL (1)
#define G_TYPE_INTERFACE G_TYPE_MAKE_FUNDAMENTAL (2)
#define G_TYPE_CHAR G_TYPE_MAKE_FUNDAMENTAL (3)
#define G_TYPE_UCHAR G_TYPE_MAKE_FUNDAMENTAL (4)
#define G_TYPE_BOOLEAN G_TYPE_MAKE_FUNDAMENTAL (5)
#define G_TYPE_INT G_TYPE_MAKE_FUNDAMENTAL (6)
#define G_TYPE_UINT G_TYPE_MAKE_FUNDAMENTAL (7)
#define G_TYPE_LONG G_TYPE_MAKE_FUNDAMENTAL (8)
#define G_TYPE_ULONG G_TYPE_MAKE_FUNDAMENTAL (9)
#define G_TYPE_INT64 G_TYPE_MAKE_FUNDAMENTAL (10)
#define G_TYPE_UINT64 G_TYPE_MAKE_FUNDAMENTAL (11)
#define G_TYPE_ENUM G_TYPE_MAKE_FUNDAMENTAL (12)
#define G_TYPE_FLAGS G_TYPE_MAKE_FUNDAMENTAL (13)
#define G_TYPE_FLOAT G_TYPE_MAKE_FUNDAMENTAL (14)
#define G_TYPE_DOUBLE G_TYPE_MAKE_FUNDAMENTAL (15)
#define G_TYPE_STRING G_TYPE_MAKE_FUNDAMENTAL (16)
#define G_TYPE_POINTER G_TYPE_MAKE_FUNDAMENTAL (17)
#define G_TYPE_BOXED G_TYPE_MAKE_FUNDAMENTAL (18)
#define G_TYPE_PARAM G_TYPE_MAKE_FUNDAMENTAL (19)
#define G_TYPE_OBJECT G_TYPE_MAKE_FUNDAMENTAL (20)
#define G_TYPE_VARIANT G_TYPE_MAKE_FUNDAMENTAL (21)
typedef struct _GTypeClass { GType g_type; } GTypeClass;
typedef struct _GTypeInstance { GTypeClass *g_class; } GTypeInstance;
typedef struct _GTypeInterface { GType g_type; GType g_instance_type; } GTypeInterface;
typedef struct _GValue { GType g_type; union { gint v_int; guint v_uint; glong v_long; gulong v_ulong; gint64 v_int64; guint64 v_uint64; gfloat v_float; gdouble v_double; gpointer v_pointer; } data[2]; } GValue;
#define G_VALUE_INIT { 0, { { 0 } } }
typedef enum { G_TYPE_FLAG_NONE = 0, G_TYPE_FLAG_ABSTRACT = (1 << 4), G_TYPE_FLAG_VALUE_ABSTRACT = (1 << 5), G_TYPE_FLAG_FINAL = (1 << 6) } GTypeFlags;
typedef enum { G_TYPE_FLAG_CLASSED = (1 << 0), G_TYPE_FLAG_INSTANTIATABLE = (1 << 1), G_TYPE_FLAG_DERIVABLE = (1 << 2), G_TYPE_FLAG_DEEP_DERIVABLE = (1 << 3) } GTypeFundamentalFlags;
typedef void (*GClassInitFunc) (gpointer g_class, gpointer class_data);
typedef void (*GInstanceInitFunc) (GTypeInstance *instance, gpointer g_class);
typedef gpointer (*GBoxedCopyFunc) (gpointer boxed);
typedef void (*GBoxedFreeFunc) (gpointer boxed);
typedef struct _GObject { GTypeInstance g_type_instance; guint ref_count; GData *qdata; } GObject;
typedef struct _GObject GInitiallyUnowned;
typedef struct _GParamSpec GParamSpec;
typedef struct _GObjectConstructParam GObjectConstructParam;
typedef struct _GObjectClass {
  GTypeClass g_type_class; GSList *construct_properties;
  GObject* (*constructor) (GType type, guint n_construct_properties, GObjectConstructParam *construct_properties);
  void (*set_property) (GObject *object, guint property_id, const GValue *value, GParamSpec *pspec);
  void (*get_property) (GObject *object, guint property_id, GValue *value, GParamSpec *pspec);
  void (*dispose) (GObject *object); void (*finalize) (GObject *object);
  void (*dispatch_properties_changed) (GObject *object, guint n_pspecs, GParamSpec **pspecs);
  void (*notify) (GObject *object, GParamSpec *pspec); void (*constructed) (GObject *object);
  gsize flags; gsize n_construct_properties; gpointer pspecs; gsize n_pspecs; gpointer pdummy[3];
} GObjectClass;
typedef enum { G_PARAM_READABLE = 1 << 0, G_PARAM_WRITABLE = 1 << 1, G_PARAM_READWRITE = (G_PARAM_READABLE | G_PARAM_WRITABLE), G_PARAM_CONSTRUCT = 1 << 2, G_PARAM_CONSTRUCT_ONLY = 1 << 3, G_PARAM_LAX_VALIDATION = 1 << 4, G_PARAM_STATIC_NAME = 1 << 5, G_PARAM_STATIC_NICK = 1 << 6, G_PARAM_STATIC_BLURB = 1 << 7, G_PARAM_EXPLICIT_NOTIFY = 1 << 30, G_PARAM_DEPRECATED = (gint)(1u << 31) } GParamFlags;
struct _GParamSpec { GTypeInstance g_type_instance; const gchar *name; GParamFlags flags; GType value_type; GType owner_type; gchar *_nick; gchar *_blurb; GData *qdata; guint ref_count; guint param_id; };
typedef struct _GParamSpecPool GParamSpecPool;
typedef struct _GEnumValue { gint value; const gchar *value_name; const gchar *value_nick; } GEnumValue;
typedef struct _GFlagsValue { guint value; const gchar *value_name; const gchar *value_nick; } GFlagsValue;
typedef struct _GEnumClass { GTypeClass g_type_class; gint minimum; gint maximum; guint n_values; GEnumValue *values; } GEnumClass;
typedef struct _GFlagsClass { GTypeClass g_type_class; guint mask; guint n_values; GFlagsValue *values; } GFlagsClass;
typedef enum { G_SIGNAL_RUN_FIRST = 1 << 0, G_SIGNAL_RUN_LAST = 1 << 1, G_SIGNAL_RUN_CLEANUP = 1 << 2, G_SIGNAL_NO_RECURSE = 1 << 3, G_SIGNAL_DETAILED = 1 << 4, G_SIGNAL_ACTION = 1 << 5, G_SIGNAL_NO_HOOKS = 1 << 6, G_SIGNAL_MUST_COLLECT = 1 << 7, G_SIGNAL_DEPRECATED = 1 << 8, G_SIGNAL_ACCUMULATOR_FIRST_RUN = 1 << 17 } GSignalFlags;
typedef struct _GSignalQuery { guint signal_id; const gchar *signal_name; GType itype; GSignalFlags signal_flags; GType return_type; guint n_params; const GType *param_types; } GSignalQuery;
typedef struct _GClosure GClosure;
typedef struct _GClosureNotifyData GClosureNotifyData;
typedef void (*GClosureMarshal) (GClosure *closure, GValue *return_value, guint n_param_values, const GValue *param_values, gpointer invocation_hint, gpointer marshal_data);
struct _GClosure { guint ref_count : 15; guint meta_marshal_nouse : 1; guint n_guards : 1; guint n_fnotifiers : 2; guint n_inotifiers : 8; guint in_inotify : 1; guint floating : 1; guint derivative_flag : 1; guint in_marshal : 1; guint is_invalid : 1;
  void (*marshal) (GClosure *closure, GValue *return_value, guint n_param_values, const GValue *param_values, gpointer invocation_hint, gpointer marshal_data);
  gpointer data; GClosureNotifyData *notifiers; };
typedef struct _GCClosure { GClosure closure; gpointer callback; } GCClosure;
#define G_CCLOSURE_SWAP_DATA(cclosure) (((GClosure*) (cclosure))->derivative_flag)

GType g_type_from_name (const gchar *name); const gchar *g_type_name (GType type); GType g_type_parent (GType type); GType g_type_fundamental (GType type_id);
gpointer g_type_class_ref (GType type); void g_type_class_unref (gpointer g_class); gpointer g_type_class_peek_parent (gpointer g_class);
gpointer g_type_default_interface_ref (GType g_type); void g_type_default_interface_unref (gpointer g_iface);
gpointer g_type_interface_peek (gpointer instance_class, GType iface_type); GType *g_type_interface_prerequisites (GType interface_type, guint *n_prerequisites);
GType *g_type_interfaces (GType type, guint *n_interfaces); gboolean g_type_test_flags (GType type, guint flags);
gboolean g_type_check_instance_is_a (GTypeInstance *instance, GType iface_type); gboolean g_type_check_class_is_a (GTypeClass *g_class, GType is_a_type);
GTypeInstance *g_type_check_instance_cast (GTypeInstance *instance, GType iface_type); GTypeClass *g_type_check_class_cast (GTypeClass *g_class, GType is_a_type);
gboolean g_type_check_value_holds (const GValue *value, GType type); gboolean g_type_is_a (GType type, GType is_a_type);
GType g_type_register_static_simple (GType parent_type, const gchar *type_name, guint class_size, GClassInitFunc class_init, guint instance_size, GInstanceInitFunc instance_init, GTypeFlags flags);
gint g_type_add_instance_private (GType class_type, gsize private_size); void g_type_class_adjust_private_offset (gpointer g_class, gint *private_size_or_offset);
GType g_boxed_type_register_static (const gchar *name, GBoxedCopyFunc boxed_copy, GBoxedFreeFunc boxed_free);
GType g_pointer_type_register_static (const gchar *name);
#define G_TYPE_FUNDAMENTAL(type) (g_type_fundamental (type))
#define G_TYPE_IS_ABSTRACT(type) (g_type_test_flags ((type), G_TYPE_FLAG_ABSTRACT))
#define G_TYPE_IS_FINAL(type) (g_type_test_flags ((type), G_TYPE_FLAG_FINAL))
#define G_TYPE_IS_INSTANTIATABLE(type) (g_type_test_flags ((type), G_TYPE_FLAG_INSTANTIATABLE))
#define G_TYPE_CHECK_INSTANCE_CAST(instance, g_type, c_type) ((c_type*) g_type_check_instance_cast ((GTypeInstance*) (instance), (g_type)))
#define G_TYPE_CHECK_CLASS_CAST(g_class, g_type, c_type) ((c_type*) g_type_check_class_cast ((GTypeClass*) (g_class), (g_type)))
#define G_TYPE_CHECK_INSTANCE_TYPE(instance, g_type) (g_type_check_instance_is_a ((GTypeInstance*) (instance), (g_type)))
#define G_TYPE_CHECK_CLASS_TYPE(g_class, g_type) (g_type_check_class_is_a ((GTypeClass*) (g_class), (g_type)))
#define G_TYPE_INSTANCE_GET_CLASS(instance, g_type, c_type) ((c_type*) (((GTypeInstance*) (instance))->g_class))
#define G_TYPE_FROM_CLASS(g_class) (((GTypeClass*) (g_class))->g_type)
#define G_OBJECT(object) (G_TYPE_CHECK_INSTANCE_CAST ((object), G_TYPE_OBJECT, GObject))
#define G_OBJECT_CLASS(class) (G_TYPE_CHECK_CLASS_CAST ((class), G_TYPE_OBJECT, GObjectClass))
#define G_VALUE_TYPE(value) (((GValue*) (value))->g_type)
#define G_VALUE_HOLDS(value,type) (g_type_check_value_holds ((value), (type)))
#define G_VALUE_HOLDS_STRING(value) (G_VALUE_HOLDS ((value), G_TYPE_STRING))

gpointer g_object_new (GType object_type, const gchar *first_property_name, ...); gpointer g_object_ref (gpointer object); void g_object_unref (gpointer object);
void g_object_get (gpointer object, const gchar *first_property_name, ...) G_GNUC_NULL_TERMINATED; void g_object_set (gpointer object, const gchar *first_property_name, ...) G_GNUC_NULL_TERMINATED;
GParamSpec **g_object_class_list_properties (GObjectClass *oclass, guint *n_properties); GParamSpec **g_object_interface_list_properties (gpointer g_iface, guint *n_properties_p);
#define g_clear_object(object_ptr) g_clear_pointer ((object_ptr), g_object_unref)
const GValue *g_param_spec_get_default_value (GParamSpec *pspec);
guint *g_signal_list_ids (GType itype, guint *n_ids); void g_signal_query (guint signal_id, GSignalQuery *query);
GValue *g_value_init (GValue *value, GType g_type); void g_value_unset (GValue *value); gboolean g_value_transform (const GValue *src_value, GValue *dest_value);
gpointer g_value_get_boxed (const GValue *value); gpointer g_value_get_object (const GValue *value); const gchar *g_value_get_string (const GValue *value);
void g_value_set_boolean (GValue *value, gboolean v); void g_value_set_boxed (GValue *value, gconstpointer v); void g_value_set_double (GValue *value, gdouble v);
void g_value_set_float (GValue *value, gfloat v); void g_value_set_int (GValue *value, gint v); void g_value_set_int64 (GValue *value, gint64 v);
void g_value_set_long (GValue *value, glong v); void g_value_set_param (GValue *value, GParamSpec *param); void g_value_set_pointer (GValue *value, gpointer v);
void g_value_set_schar (GValue *value, gint8 v); void g_value_set_string (GValue *value, const gchar *v); void g_value_set_uchar (GValue *value, guchar v);
void g_value_set_uint (GValue *value, guint v); void g_value_set_uint64 (GValue *value, guint64 v); void g_value_set_ulong (GValue *value, gulong v);
void g_value_set_object (GValue *value, gpointer v); void g_value_set_enum (GValue *value, gint v); void g_value_set_flags (GValue *value, guint v);
gchar *g_strdup_value_contents (const GValue *value);

#define G_ADD_PRIVATE(TypeName) { TypeName##_private_offset = g_type_add_instance_private (g_define_type_id, sizeof (TypeName##Private)); }
#define G_DEFINE_TYPE_WITH_CODE(TN, t_n, T_P, _C_) \
static void t_n##_init (TN *self); \
static void t_n##_class_init (TN##Class *klass); \
static GType t_n##_get_type_once (void); \
static gpointer t_n##_parent_class = NULL; \
static gint TN##_private_offset; \
static void t_n##_class_intern_init (gpointer klass) { \
  t_n##_parent_class = g_type_class_peek_parent (klass); \
  if (TN##_private_offset != 0) g_type_class_adjust_private_offset (klass, &TN##_private_offset); \
  t_n##_class_init ((TN##Class*) klass); } \
G_GNUC_UNUSED static inline gpointer t_n##_get_instance_private (TN *self) { return (G_STRUCT_MEMBER_P (self, TN##_private_offset)); } \
GType t_n##_get_type (void) { static gsize static_g_define_type_id = 0; \
  if (g_once_init_enter (&static_g_define_type_id)) { GType g_define_type_id = t_n##_get_type_once (); g_once_init_leave (&static_g_define_type_id, g_define_type_id); } \
  return static_g_define_type_id; } \
static GType t_n##_get_type_once (void) { \
  GType g_define_type_id = g_type_register_static_simple (T_P, g_intern_static_string (#TN), sizeof (TN##Class), (GClassInitFunc)(void (*)(void)) t_n##_class_intern_init, sizeof (TN), (GInstanceInitFunc)(void (*)(void)) t_n##_init, (GTypeFlags) 0); \
  { _C_; } return g_define_type_id; }
#endif
