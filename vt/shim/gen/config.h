#define GI_MAJOR_VERSION 1
#define GI_MINOR_VERSION 86
#define GI_MICRO_VERSION 1
#define GIR_SUFFIX "gir-1.0"
#define GOBJECT_INTROSPECTION_DATADIR "/nonexistent-verif-prefix/share"
#define GIR_DIR "/nonexistent-verif-prefix/share/gir-1.0"
#define GOBJECT_INTROSPECTION_LIBDIR "/nonexistent-verif-prefix/lib"
#define SIZEOF_CHAR 1
#define SIZEOF_SHORT 2
#define SIZEOF_INT 4
#define SIZEOF_LONG 8
#define _GI_EXTERN __attribute__((visibility("default"))) extern
