#ifndef __VERIF_GSTDIO_SHIM_H__
#define __VERIF_GSTDIO_SHIM_H__
#include <glib.h>
#include <stdio.h>
FILE *g_fopen (const gchar *filename, const gchar *mode);
int g_unlink (const gchar *filename);
#endif
