#ifndef __VERIF_GSTDIO_SHIM_H__
#define __VERIF_GSTDIO_SHIM_H__
#include <glib.h>
#include <stdio.h>
#include <sys/stat.h>
/* the real <glib/gstdio.h> includes <glib/gprintf.h>; girwriter.c, compiler.c and generate.c
 * rely on that for g_fprintf()/g_printf() */
#include <glib/gprintf.h>
FILE *g_fopen (const gchar *filename, const gchar *mode);
int g_unlink (const gchar *filename);
#endif
