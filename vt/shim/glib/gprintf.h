#ifndef __VERIF_GPRINTF_SHIM_H__
#define __VERIF_GPRINTF_SHIM_H__
#include <glib.h>
#include <stdio.h>
gint g_printf (gchar const *format, ...) G_GNUC_PRINTF (1, 2);
gint g_fprintf (FILE *file, gchar const *format, ...) G_GNUC_PRINTF (2, 3);
#endif
