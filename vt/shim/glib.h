/* Minimal GLib 2.74 declaration shim: only what gobject-introspection's C sources use.
 * Links against the system libglib-2.0.so.0 (no -dev package is installed). */
#ifndef __VERIF_GLIB_SHIM_H__
#define __VERIF_GLIB_SHIM_H__
#include <stddef.h>
#include <stdarg.h>
#include <stdint.h>
#include <limits.h>
#include <float.h>
#include <string.h>
#include <alloca.h>
#include <errno.h>
#define GLIB_SIZEOF_SIZE_T 8
#define GLIB_SIZEOF_LONG 8
#define GLIB_SIZEOF_VOID_P 8
#define G_BYTE_ORDER 1234
#define G_LITTLE_ENDIAN 1234
#define G_BIG_ENDIAN 4321

#define G_BEGIN_DECLS
#define G_END_DECLS
#define GLIB_MAJOR_VERSION 2
#define GLIB_MINOR_VERSION 74
#define GLIB_MICRO_VERSION 6
#define GLIB_CHECK_VERSION(major,minor,micro) \
  (GLIB_MAJOR_VERSION > (major) || (GLIB_MAJOR_VERSION == (major) && GLIB_MINOR_VERSION > (minor)) || \
   (GLIB_MAJOR_VERSION == (major) && GLIB_MINOR_VERSION == (minor) && GLIB_MICRO_VERSION >= (micro)))
#define G_ENCODE_VERSION(major,minor) ((major) << 16 | (minor) << 8)
#define GLIB_VERSION_2_26 (G_ENCODE_VERSION (2, 26))
#define GLIB_VERSION_2_28 (G_ENCODE_VERSION (2, 28))
#define GLIB_VERSION_2_30 (G_ENCODE_VERSION (2, 30))
#define GLIB_VERSION_2_32 (G_ENCODE_VERSION (2, 32))
#define GLIB_VERSION_2_34 (G_ENCODE_VERSION (2, 34))
#define GLIB_VERSION_2_36 (G_ENCODE_VERSION (2, 36))
#define GLIB_VERSION_2_38 (G_ENCODE_VERSION (2, 38))
#define GLIB_VERSION_2_40 (G_ENCODE_VERSION (2, 40))
#define GLIB_VERSION_2_42 (G_ENCODE_VERSION (2, 42))
#define GLIB_VERSION_2_44 (G_ENCODE_VERSION (2, 44))
#define GLIB_VERSION_2_46 (G_ENCODE_VERSION (2, 46))
#define GLIB_VERSION_2_48 (G_ENCODE_VERSION (2, 48))
#define GLIB_VERSION_2_50 (G_ENCODE_VERSION (2, 50))
#define GLIB_VERSION_2_52 (G_ENCODE_VERSION (2, 52))
#define GLIB_VERSION_2_54 (G_ENCODE_VERSION (2, 54))
#define GLIB_VERSION_2_56 (G_ENCODE_VERSION (2, 56))
#define GLIB_VERSION_2_58 (G_ENCODE_VERSION (2, 58))
#define GLIB_VERSION_2_60 (G_ENCODE_VERSION (2, 60))
#define GLIB_VERSION_2_62 (G_ENCODE_VERSION (2, 62))
#define GLIB_VERSION_2_64 (G_ENCODE_VERSION (2, 64))
#define GLIB_VERSION_2_66 (G_ENCODE_VERSION (2, 66))
#define GLIB_VERSION_2_68 (G_ENCODE_VERSION (2, 68))
#define GLIB_VERSION_2_70 (G_ENCODE_VERSION (2, 70))
#define GLIB_VERSION_2_72 (G_ENCODE_VERSION (2, 72))
#define GLIB_VERSION_2_74 (G_ENCODE_VERSION (2, 74))
#define GLIB_VERSION_2_76 (G_ENCODE_VERSION (2, 76))
#define GLIB_VERSION_2_78 (G_ENCODE_VERSION (2, 78))
#define GLIB_VERSION_2_80 (G_ENCODE_VERSION (2, 80))
#define GLIB_VERSION_2_82 (G_ENCODE_VERSION (2, 82))
#define GLIB_VERSION_2_84 (G_ENCODE_VERSION (2, 84))
#define GLIB_VERSION_2_86 (G_ENCODE_VERSION (2, 86))
#define GLIB_VERSION_2_88 (G_ENCODE_VERSION (2, 88))
#ifndef GLIB_VERSION_MIN_REQUIRED
#define GLIB_VERSION_MIN_REQUIRED GLIB_VERSION_2_26
#endif
#ifndef GLIB_VERSION_MAX_ALLOWED
#define GLIB_VERSION_MAX_ALLOWED GLIB_VERSION_2_88
#endif

typedef char gchar; typedef short gshort; typedef long glong; typedef int gint; typedef gint gboolean;
typedef unsigned char guchar; typedef unsigned short gushort; typedef unsigned long gulong; typedef unsigned int guint;
typedef float gfloat; typedef double gdouble;
typedef signed char gint8; typedef unsigned char guint8; typedef signed short gint16; typedef unsigned short guint16;
typedef signed int gint32; typedef unsigned int guint32; typedef signed long gint64; typedef unsigned long guint64;
typedef unsigned long gsize; typedef signed long gssize; typedef gint64 goffset;
typedef signed long gintptr; typedef unsigned long guintptr;
typedef void *gpointer; typedef const void *gconstpointer;
typedef guint32 gunichar; typedef guint16 gunichar2; typedef guint32 GQuark;
typedef gchar **GStrv;
#define G_GINT16_FORMAT "hi"
#define G_GUINT16_FORMAT "hu"
#define G_GINT32_FORMAT "i"
#define G_GUINT32_FORMAT "u"
#define G_GINT64_FORMAT "li"
#define G_GUINT64_FORMAT "lu"
#define G_GSIZE_FORMAT "lu"
#define G_GSSIZE_FORMAT "li"
#define G_MINSHORT SHRT_MIN
#define G_MAXSHORT SHRT_MAX
#define G_MAXUSHORT USHRT_MAX
#define G_MININT INT_MIN
#define G_MAXINT INT_MAX
#define G_MAXUINT UINT_MAX
#define G_MAXUINT16 ((guint16) 0xffff)
#define G_MAXUINT32 ((guint32) 0xffffffff)
#define G_MAXSIZE ULONG_MAX
#ifndef NULL
#define NULL ((void*)0)
#endif
#ifndef FALSE
#define FALSE (0)
#endif
#ifndef TRUE
#define TRUE (!FALSE)
#endif
#undef MAX
#define MAX(a, b) (((a) > (b)) ? (a) : (b))
#undef MIN
#define MIN(a, b) (((a) < (b)) ? (a) : (b))
#undef ABS
#define ABS(a) (((a) < 0) ? -(a) : (a))
#undef CLAMP
#define CLAMP(x, low, high) (((x) > (high)) ? (high) : (((x) < (low)) ? (low) : (x)))
#define G_OS_UNIX 1
#define G_DIR_SEPARATOR '/'
#define G_DIR_SEPARATOR_S "/"
#define G_SEARCHPATH_SEPARATOR ':'
#define G_SEARCHPATH_SEPARATOR_S ":"
#define G_GNUC_PRINTF(f,a) __attribute__((__format__ (__printf__, f, a)))
#define G_GNUC_NORETURN __attribute__((__noreturn__))
#define G_GNUC_UNUSED __attribute__((__unused__))
#define G_GNUC_CONST __attribute__((__const__))
#define G_GNUC_PURE __attribute__((__pure__))
#define G_GNUC_MALLOC __attribute__((__malloc__))
#define G_GNUC_NULL_TERMINATED __attribute__((__sentinel__))
#define G_GNUC_WARN_UNUSED_RESULT
#define G_GNUC_INTERNAL __attribute__((visibility("hidden")))
#define G_DEPRECATED __attribute__((__deprecated__))
#define G_DEPRECATED_FOR(f) __attribute__((__deprecated__("Use '" #f "' instead")))
#define G_UNAVAILABLE(maj,min) __attribute__((deprecated("Not available before " #maj "." #min)))
#define G_ALWAYS_INLINE __attribute__((__always_inline__))
#define G_CAN_INLINE 1
#define G_INLINE_FUNC static inline
#define G_LIKELY(e) (__builtin_expect(!!(e), 1))
#define G_UNLIKELY(e) (__builtin_expect(!!(e), 0))
#define G_STRINGIFY(x) G_STRINGIFY_ARG(x)
#define G_STRINGIFY_ARG(x) #x
#define G_STRLOC __FILE__ ":" G_STRINGIFY (__LINE__)
#define G_STRFUNC ((const char*) (__func__))
#define G_STATIC_ASSERT(expr) _Static_assert (expr, "Expression evaluates to false")
#define G_N_ELEMENTS(arr) (sizeof (arr) / sizeof ((arr)[0]))
#define G_STRUCT_OFFSET(struct_type, member) ((glong) offsetof (struct_type, member))
#define G_STRUCT_MEMBER_P(struct_p, struct_offset) ((gpointer) ((guint8*) (struct_p) + (glong) (struct_offset)))
#define G_STRUCT_MEMBER(member_type, struct_p, struct_offset) (*(member_type*) G_STRUCT_MEMBER_P ((struct_p), (struct_offset)))
#define G_STMT_START do
#define G_STMT_END while (0)
#define GPOINTER_TO_INT(p) ((gint) (glong) (p))
#define GPOINTER_TO_UINT(p) ((guint) (gulong) (p))
#define GINT_TO_POINTER(i) ((gpointer) (glong) (i))
#define GUINT_TO_POINTER(u) ((gpointer) (gulong) (u))
#define GPOINTER_TO_SIZE(p) ((gsize) (p))
#define GSIZE_TO_POINTER(s) ((gpointer) (gsize) (s))
#define GUINT16_FROM_LE(v) (v)
#define GUINT32_FROM_LE(v) (v)
#define GUINT16_TO_LE(v) (v)
#define GUINT32_TO_LE(v) (v)
#define G_CSET_A_2_Z "ABCDEFGHIJKLMNOPQRSTUVWXYZ"
#define G_CSET_a_2_z "abcdefghijklmnopqrstuvwxyz"
#define G_CSET_DIGITS "0123456789"
#ifndef G_LOG_DOMAIN
#define G_LOG_DOMAIN ((gchar*) 0)
#endif

typedef struct _GError { GQuark domain; gint code; gchar *message; } GError;
typedef struct _GList GList; struct _GList { gpointer data; GList *next; GList *prev; };
typedef struct _GSList GSList; struct _GSList { gpointer data; GSList *next; };
typedef struct _GString { gchar *str; gsize len; gsize allocated_len; } GString;
typedef struct _GPtrArray { gpointer *pdata; guint len; } GPtrArray;
typedef struct _GByteArray { guint8 *data; guint len; } GByteArray;
typedef struct _GArray { gchar *data; guint len; } GArray;
typedef struct _GHashTable GHashTable;
typedef struct _GHashTableIter { gpointer dummy1; gpointer dummy2; gpointer dummy3; int dummy4; gboolean dummy5; gpointer dummy6; } GHashTableIter;
typedef struct _GMappedFile GMappedFile;
typedef struct _GDir GDir;
typedef struct _GData GData;
typedef struct _GMarkupParseContext GMarkupParseContext;
typedef struct _GOptionContext GOptionContext;
typedef struct _GOptionGroup GOptionGroup;

typedef void (*GDestroyNotify) (gpointer data);
typedef void (*GFunc) (gpointer data, gpointer user_data);
typedef gint (*GCompareFunc) (gconstpointer a, gconstpointer b);
typedef gint (*GCompareDataFunc) (gconstpointer a, gconstpointer b, gpointer user_data);
typedef gboolean (*GEqualFunc) (gconstpointer a, gconstpointer b);
typedef guint (*GHashFunc) (gconstpointer key);
typedef void (*GHFunc) (gpointer key, gpointer value, gpointer user_data);
typedef gpointer (*GCopyFunc) (gconstpointer src, gpointer data);
typedef void (*GFreeFunc) (gpointer data);

typedef enum { G_LOG_FLAG_RECURSION = 1 << 0, G_LOG_FLAG_FATAL = 1 << 1, G_LOG_LEVEL_ERROR = 1 << 2, G_LOG_LEVEL_CRITICAL = 1 << 3,
  G_LOG_LEVEL_WARNING = 1 << 4, G_LOG_LEVEL_MESSAGE = 1 << 5, G_LOG_LEVEL_INFO = 1 << 6, G_LOG_LEVEL_DEBUG = 1 << 7, G_LOG_LEVEL_MASK = ~(G_LOG_FLAG_RECURSION | G_LOG_FLAG_FATAL) } GLogLevelFlags;
typedef void (*GLogFunc) (const gchar *log_domain, GLogLevelFlags log_level, const gchar *message, gpointer user_data);
typedef enum { G_FILE_TEST_IS_REGULAR = 1 << 0, G_FILE_TEST_IS_SYMLINK = 1 << 1, G_FILE_TEST_IS_DIR = 1 << 2, G_FILE_TEST_IS_EXECUTABLE = 1 << 3, G_FILE_TEST_EXISTS = 1 << 4 } GFileTest;
typedef enum { G_FILE_ERROR_EXIST, G_FILE_ERROR_ISDIR, G_FILE_ERROR_ACCES, G_FILE_ERROR_NAMETOOLONG, G_FILE_ERROR_NOENT, G_FILE_ERROR_NOTDIR, G_FILE_ERROR_NXIO, G_FILE_ERROR_NODEV, G_FILE_ERROR_ROFS, G_FILE_ERROR_TXTBSY, G_FILE_ERROR_FAULT, G_FILE_ERROR_LOOP, G_FILE_ERROR_NOSPC, G_FILE_ERROR_NOMEM, G_FILE_ERROR_MFILE, G_FILE_ERROR_NFILE, G_FILE_ERROR_BADF, G_FILE_ERROR_INVAL, G_FILE_ERROR_PIPE, G_FILE_ERROR_AGAIN, G_FILE_ERROR_INTR, G_FILE_ERROR_IO, G_FILE_ERROR_PERM, G_FILE_ERROR_NOSYS, G_FILE_ERROR_FAILED } GFileError;
#define G_FILE_ERROR g_file_error_quark ()
typedef enum { G_MARKUP_ERROR_BAD_UTF8, G_MARKUP_ERROR_EMPTY, G_MARKUP_ERROR_PARSE, G_MARKUP_ERROR_UNKNOWN_ELEMENT, G_MARKUP_ERROR_UNKNOWN_ATTRIBUTE, G_MARKUP_ERROR_INVALID_CONTENT, G_MARKUP_ERROR_MISSING_ATTRIBUTE } GMarkupError;
#define G_MARKUP_ERROR g_markup_error_quark ()
typedef enum { G_MARKUP_DEFAULT_FLAGS = 0, G_MARKUP_DO_NOT_USE_THIS_UNSUPPORTED_FLAG = 1 << 0, G_MARKUP_TREAT_CDATA_AS_TEXT = 1 << 1, G_MARKUP_PREFIX_ERROR_POSITION = 1 << 2, G_MARKUP_IGNORE_QUALIFIED = 1 << 3 } GMarkupParseFlags;
typedef struct _GMarkupParser {
  void (*start_element) (GMarkupParseContext *context, const gchar *element_name, const gchar **attribute_names, const gchar **attribute_values, gpointer user_data, GError **error);
  void (*end_element) (GMarkupParseContext *context, const gchar *element_name, gpointer user_data, GError **error);
  void (*text) (GMarkupParseContext *context, const gchar *text, gsize text_len, gpointer user_data, GError **error);
  void (*passthrough) (GMarkupParseContext *context, const gchar *passthrough_text, gsize text_len, gpointer user_data, GError **error);
  void (*error) (GMarkupParseContext *context, GError *error, gpointer user_data);
} GMarkupParser;
typedef enum { G_OPTION_FLAG_NONE = 0, G_OPTION_FLAG_HIDDEN = 1 << 0, G_OPTION_FLAG_IN_MAIN = 1 << 1, G_OPTION_FLAG_REVERSE = 1 << 2, G_OPTION_FLAG_NO_ARG = 1 << 3, G_OPTION_FLAG_FILENAME = 1 << 4, G_OPTION_FLAG_OPTIONAL_ARG = 1 << 5, G_OPTION_FLAG_NOALIAS = 1 << 6 } GOptionFlags;
typedef enum { G_OPTION_ARG_NONE, G_OPTION_ARG_STRING, G_OPTION_ARG_INT, G_OPTION_ARG_CALLBACK, G_OPTION_ARG_FILENAME, G_OPTION_ARG_STRING_ARRAY, G_OPTION_ARG_FILENAME_ARRAY, G_OPTION_ARG_DOUBLE, G_OPTION_ARG_INT64 } GOptionArg;
typedef struct _GOptionEntry { const gchar *long_name; gchar short_name; gint flags; GOptionArg arg; gpointer arg_data; const gchar *description; const gchar *arg_description; } GOptionEntry;
typedef gboolean (*GOptionArgFunc) (const gchar *option_name, const gchar *value, gpointer data, GError **error);
#define G_OPTION_REMAINING ""

/* memory */
gpointer g_malloc (gsize n_bytes); gpointer g_malloc0 (gsize n_bytes); gpointer g_realloc (gpointer mem, gsize n_bytes); void g_free (gpointer mem);
gpointer g_malloc_n (gsize n_blocks, gsize n_block_bytes); gpointer g_malloc0_n (gsize n_blocks, gsize n_block_bytes); gpointer g_realloc_n (gpointer mem, gsize n_blocks, gsize n_block_bytes);
gpointer g_slice_alloc (gsize block_size); gpointer g_slice_alloc0 (gsize block_size); void g_slice_free1 (gsize block_size, gpointer mem_block);
gpointer g_memdup (gconstpointer mem, guint byte_size); gpointer g_memdup2 (gconstpointer mem, gsize byte_size);
#define g_new(struct_type, n_structs) ((struct_type *) g_malloc_n ((n_structs), sizeof (struct_type)))
#define g_new0(struct_type, n_structs) ((struct_type *) g_malloc0_n ((n_structs), sizeof (struct_type)))
#define g_renew(struct_type, mem, n_structs) ((struct_type *) g_realloc_n (mem, (n_structs), sizeof (struct_type)))
#define g_slice_new(type) ((type*) g_slice_alloc (sizeof (type)))
#define g_slice_new0(type) ((type*) g_slice_alloc0 (sizeof (type)))
#define g_slice_free(type, mem) g_slice_free1 (sizeof (type), (mem))
#define g_alloca(size) alloca (size)
#define g_newa(struct_type, n_structs) ((struct_type*) g_alloca (sizeof (struct_type) * (gsize) (n_structs)))
static inline gpointer g_steal_pointer (gpointer pp) { gpointer *ptr = (gpointer *) pp; gpointer ref = *ptr; *ptr = NULL; return ref; }
#define g_steal_pointer(pp) ((__typeof__ (*pp)) (g_steal_pointer) (pp))
#define g_clear_pointer(pp, destroy) G_STMT_START { __typeof__ ((pp)) _pp = (pp); __typeof__ (*(pp)) _ptr = *_pp; *_pp = NULL; if (_ptr) (destroy) (_ptr); } G_STMT_END
/* atomics / once */
void g_atomic_int_inc (volatile gint *atomic); gboolean g_atomic_int_dec_and_test (volatile gint *atomic); gint g_atomic_int_get (const volatile gint *atomic);
gboolean g_once_init_enter (volatile void *location); void g_once_init_leave (volatile void *location, gsize result);
/* messages */
void g_log (const gchar *log_domain, GLogLevelFlags log_level, const gchar *format, ...) G_GNUC_PRINTF (3, 4);
void g_logv (const gchar *log_domain, GLogLevelFlags log_level, const gchar *format, va_list args);
void g_log_default_handler (const gchar *log_domain, GLogLevelFlags log_level, const gchar *message, gpointer unused_data);
GLogFunc g_log_set_default_handler (GLogFunc log_func, gpointer user_data);
GLogLevelFlags g_log_set_always_fatal (GLogLevelFlags fatal_mask);
void g_return_if_fail_warning (const char *log_domain, const char *pretty_function, const char *expression);
void g_assertion_message_expr (const char *domain, const char *file, int line, const char *func, const char *expr) G_GNUC_NORETURN;
void g_assertion_message_cmpstr (const char *domain, const char *file, int line, const char *func, const char *expr, const char *arg1, const char *cmp, const char *arg2) G_GNUC_NORETURN;
void g_print (const gchar *format, ...) G_GNUC_PRINTF (1, 2); void g_printerr (const gchar *format, ...) G_GNUC_PRINTF (1, 2);
#define g_error(...) G_STMT_START { g_log (G_LOG_DOMAIN, G_LOG_LEVEL_ERROR, __VA_ARGS__); for (;;) ; } G_STMT_END
#define g_message(...) g_log (G_LOG_DOMAIN, G_LOG_LEVEL_MESSAGE, __VA_ARGS__)
#define g_critical(...) g_log (G_LOG_DOMAIN, G_LOG_LEVEL_CRITICAL, __VA_ARGS__)
#define g_warning(...) g_log (G_LOG_DOMAIN, G_LOG_LEVEL_WARNING, __VA_ARGS__)
#define g_info(...) g_log (G_LOG_DOMAIN, G_LOG_LEVEL_INFO, __VA_ARGS__)
#define g_debug(...) g_log (G_LOG_DOMAIN, G_LOG_LEVEL_DEBUG, __VA_ARGS__)
#define g_assert(expr) G_STMT_START { if G_LIKELY (expr) ; else g_assertion_message_expr (G_LOG_DOMAIN, __FILE__, __LINE__, G_STRFUNC, #expr); } G_STMT_END
#define g_assert_not_reached() G_STMT_START { g_assertion_message_expr (G_LOG_DOMAIN, __FILE__, __LINE__, G_STRFUNC, NULL); } G_STMT_END
#define g_assert_cmpstr(s1, cmp, s2) G_STMT_START { const char *__s1 = (s1), *__s2 = (s2); if (g_strcmp0 (__s1, __s2) cmp 0) ; else g_assertion_message_cmpstr (G_LOG_DOMAIN, __FILE__, __LINE__, G_STRFUNC, #s1 " " #cmp " " #s2, __s1, #cmp, __s2); } G_STMT_END
#define g_return_if_fail(expr) G_STMT_START { if G_LIKELY (expr) ; else { g_return_if_fail_warning (G_LOG_DOMAIN, G_STRFUNC, #expr); return; } } G_STMT_END
#define g_return_val_if_fail(expr, val) G_STMT_START { if G_LIKELY (expr) ; else { g_return_if_fail_warning (G_LOG_DOMAIN, G_STRFUNC, #expr); return (val); } } G_STMT_END
/* errors / quarks */
GQuark g_quark_from_static_string (const gchar *string); GQuark g_quark_from_string (const gchar *string); const gchar *g_quark_to_string (GQuark quark);
const gchar *g_intern_static_string (const gchar *string);
GQuark g_file_error_quark (void); GQuark g_markup_error_quark (void);
void g_error_free (GError *error); void g_clear_error (GError **err);
void g_set_error (GError **err, GQuark domain, gint code, const gchar *format, ...) G_GNUC_PRINTF (4, 5);
void g_set_error_literal (GError **err, GQuark domain, gint code, const gchar *message);
void g_propagate_error (GError **dest, GError *src); void g_prefix_error (GError **err, const gchar *format, ...) G_GNUC_PRINTF (2, 3);
GFileError g_file_error_from_errno (gint err_no);
/* strings */
extern const guint16 * const g_ascii_table;
#define g_ascii_isalnum(c) ((g_ascii_table[(guchar) (c)] & (1 << 0)) != 0)
#define g_ascii_isupper(c) ((g_ascii_table[(guchar) (c)] & (1 << 9)) != 0)
gint g_ascii_strcasecmp (const gchar *s1, const gchar *s2); gdouble g_ascii_strtod (const gchar *nptr, gchar **endptr);
gint64 g_ascii_strtoll (const gchar *nptr, gchar **endptr, guint base); guint64 g_ascii_strtoull (const gchar *nptr, gchar **endptr, guint base);
gchar *g_strdup (const gchar *str); gchar *g_strndup (const gchar *str, gsize n); gchar *g_strdup_printf (const gchar *format, ...) G_GNUC_PRINTF (1, 2);
gchar *g_strdup_vprintf (const gchar *format, va_list args); gchar **g_strdupv (gchar **str_array); void g_strfreev (gchar **str_array);
gchar *g_strjoinv (const gchar *separator, gchar **str_array); gchar **g_strsplit (const gchar *string, const gchar *delimiter, gint max_tokens);
guint g_strv_length (gchar **str_array); gchar *g_strchomp (gchar *string); gchar *g_strescape (const gchar *source, const gchar *exceptions);
const gchar *g_strerror (gint errnum); int g_strcmp0 (const char *str1, const char *str2);
gboolean g_str_equal (gconstpointer v1, gconstpointer v2); guint g_str_hash (gconstpointer v);
gboolean g_str_has_prefix (const gchar *str, const gchar *prefix); gboolean g_str_has_suffix (const gchar *str, const gchar *suffix);
gboolean g_direct_equal (gconstpointer v1, gconstpointer v2); guint g_direct_hash (gconstpointer v);
#define G_ASCII_DTOSTR_BUF_SIZE (29 + 10)
gchar *g_ascii_dtostr (gchar *buffer, gint buf_len, gdouble d); gchar *g_ascii_formatd (gchar *buffer, gint buf_len, const gchar *format, gdouble d);
gchar *g_markup_vprintf_escaped (const char *format, va_list args); gchar *g_markup_escape_text (const gchar *text, gssize length);
GString *g_string_new (const gchar *init); gchar *g_string_free (GString *string, gboolean free_segment);
GString *g_string_append (GString *string, const gchar *val); GString *g_string_append_c (GString *string, gchar c);
void g_string_append_printf (GString *string, const gchar *format, ...) G_GNUC_PRINTF (2, 3);
GString *g_string_insert_c (GString *string, gssize pos, gchar c); GString *g_string_overwrite_len (GString *string, gsize pos, const gchar *val, gssize len);
GString *g_string_truncate (GString *string, gsize len);
/* lists */
GList *g_list_append (GList *list, gpointer data); GList *g_list_prepend (GList *list, gpointer data); GList *g_list_concat (GList *list1, GList *list2);
GList *g_list_copy (GList *list); GList *g_list_delete_link (GList *list, GList *link_); GList *g_list_find (GList *list, gconstpointer data);
GList *g_list_find_custom (GList *list, gconstpointer data, GCompareFunc func); void g_list_foreach (GList *list, GFunc func, gpointer user_data);
void g_list_free (GList *list); void g_list_free_full (GList *list, GDestroyNotify free_func); GList *g_list_insert_sorted (GList *list, gpointer data, GCompareFunc func);
GList *g_list_last (GList *list); guint g_list_length (GList *list); GList *g_list_sort (GList *list, GCompareFunc compare_func);
GList *g_list_reverse (GList *list); GList *g_list_remove (GList *list, gconstpointer data); gpointer g_list_nth_data (GList *list, guint n);
#define g_list_next(list) ((list) ? (((GList *)(list))->next) : NULL)
#define g_list_previous(list) ((list) ? (((GList *)(list))->prev) : NULL)
GSList *g_slist_delete_link (GSList *list, GSList *link_); GSList *g_slist_find_custom (GSList *list, gconstpointer data, GCompareFunc func);
void g_slist_foreach (GSList *list, GFunc func, gpointer user_data); void g_slist_free (GSList *list); void g_slist_free_1 (GSList *list);
void g_slist_free_full (GSList *list, GDestroyNotify free_func); guint g_slist_length (GSList *list); GSList *g_slist_prepend (GSList *list, gpointer data);
GSList *g_slist_append (GSList *list, gpointer data); GSList *g_slist_reverse (GSList *list); GSList *g_slist_sort (GSList *list, GCompareFunc compare_func);
#define g_slist_next(slist) ((slist) ? (((GSList *)(slist))->next) : NULL)
/* hash tables */
GHashTable *g_hash_table_new (GHashFunc hash_func, GEqualFunc key_equal_func);
GHashTable *g_hash_table_new_full (GHashFunc hash_func, GEqualFunc key_equal_func, GDestroyNotify key_destroy_func, GDestroyNotify value_destroy_func);
void g_hash_table_destroy (GHashTable *hash_table); gboolean g_hash_table_insert (GHashTable *hash_table, gpointer key, gpointer value);
gboolean g_hash_table_replace (GHashTable *hash_table, gpointer key, gpointer value); gboolean g_hash_table_add (GHashTable *hash_table, gpointer key);
gboolean g_hash_table_remove (GHashTable *hash_table, gconstpointer key); void g_hash_table_remove_all (GHashTable *hash_table);
gpointer g_hash_table_lookup (GHashTable *hash_table, gconstpointer key); gboolean g_hash_table_contains (GHashTable *hash_table, gconstpointer key);
gboolean g_hash_table_lookup_extended (GHashTable *hash_table, gconstpointer lookup_key, gpointer *orig_key, gpointer *value);
void g_hash_table_foreach (GHashTable *hash_table, GHFunc func, gpointer user_data); guint g_hash_table_size (GHashTable *hash_table);
void g_hash_table_iter_init (GHashTableIter *iter, GHashTable *hash_table); gboolean g_hash_table_iter_next (GHashTableIter *iter, gpointer *key, gpointer *value);
void g_hash_table_iter_steal (GHashTableIter *iter); void g_hash_table_unref (GHashTable *hash_table); GHashTable *g_hash_table_ref (GHashTable *hash_table);
/* arrays */
GByteArray *g_byte_array_new (void); GByteArray *g_byte_array_append (GByteArray *array, const guint8 *data, guint len); guint8 *g_byte_array_free (GByteArray *array, gboolean free_segment);
GPtrArray *g_ptr_array_new (void); GPtrArray *g_ptr_array_new_full (guint reserved_size, GDestroyNotify element_free_func); void g_ptr_array_add (GPtrArray *array, gpointer data);
gpointer *g_ptr_array_free (GPtrArray *array, gboolean free_seg);
#define g_ptr_array_index(array,index_) ((array)->pdata)[index_]
/* files */
gchar *g_build_filename (const gchar *first_element, ...) G_GNUC_NULL_TERMINATED; gchar *g_path_get_basename (const gchar *file_name); gboolean g_path_is_absolute (const gchar *file_name);
gboolean g_file_test (const gchar *filename, GFileTest test); gboolean g_file_get_contents (const gchar *filename, gchar **contents, gsize *length, GError **error);
GDir *g_dir_open (const gchar *path, guint flags, GError **error); const gchar *g_dir_read_name (GDir *dir); void g_dir_close (GDir *dir);
GMappedFile *g_mapped_file_new (const gchar *filename, gboolean writable, GError **error); gsize g_mapped_file_get_length (GMappedFile *file);
gchar *g_mapped_file_get_contents (GMappedFile *file); void g_mapped_file_unref (GMappedFile *file);
const gchar *g_getenv (const gchar *variable); const gchar * const *g_get_system_data_dirs (void); const gchar *g_get_user_data_dir (void);
/* markup */
GMarkupParseContext *g_markup_parse_context_new (const GMarkupParser *parser, GMarkupParseFlags flags, gpointer user_data, GDestroyNotify user_data_dnotify);
void g_markup_parse_context_free (GMarkupParseContext *context); gboolean g_markup_parse_context_parse (GMarkupParseContext *context, const gchar *text, gssize text_len, GError **error);
gboolean g_markup_parse_context_end_parse (GMarkupParseContext *context, GError **error);
void g_markup_parse_context_get_position (GMarkupParseContext *context, gint *line_number, gint *char_number);
/* options */
GOptionContext *g_option_context_new (const gchar *parameter_string); void g_option_context_free (GOptionContext *context);
void g_option_context_add_main_entries (GOptionContext *context, const GOptionEntry *entries, const gchar *translation_domain);
gboolean g_option_context_parse (GOptionContext *context, gint *argc, gchar ***argv, GError **error);
void g_option_context_add_group (GOptionContext *context, GOptionGroup *group);
GOptionGroup *g_option_group_new (const gchar *name, const gchar *description, const gchar *help_description, gpointer user_data, GDestroyNotify destroy);
void g_option_group_add_entries (GOptionGroup *group, const GOptionEntry *entries);
/* tests */
typedef void (*GTestFunc) (void);
void g_test_init (int *argc, char ***argv, ...) G_GNUC_NULL_TERMINATED; void g_test_add_func (const char *testpath, GTestFunc test_func); int g_test_run (void);
#endif
