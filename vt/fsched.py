"""Baton scheduler and file-system-step proxies for giscanner.cachestore (property C18).

Operations run as threads inside one process; exactly one runs at a time.  The names `os`, `shutil`, `tempfile`,
`pickle` and `open` *as seen by the giscanner.cachestore module* are replaced by thin proxies that hand the baton back
to the scheduler before each file-system step - i.e. between the code's own steps, exactly where another process
could run.  Every step is logged with a logical clock, and every file the subject writes gets the logical time as its
mtime (so freshness comparisons are deterministic and replayable).  The repository is not edited.
"""
import os, sys, threading, shutil, tempfile, pickle, builtins, errno, hashlib, io

_real_open = builtins.open


class Abort(BaseException):
    pass


class Sched(object):
    def __init__(self, chooser):
        """chooser(runnable_ids, step_index) -> chosen id"""
        self.chooser = chooser
        self.clock = 0
        self.trace = []          # (clock, op_id, label, detail)
        self.history = []        # client-boundary events (clock, op_id, 'call'|'return', value)
        self.ops = {}
        self.local = threading.local()
        self.lock = threading.Lock()
        self.choices = []        # (runnable tuple, chosen)
        self.sem_sched = threading.Semaphore(0)
        self.abort = False

    def current(self):
        return getattr(self.local, 'op', None)

    def yield_point(self, label, detail=None):
        op = self.current()
        if op is None:
            return
        op['waiting'] = (label, detail)
        self.sem_sched.release()
        op['sem'].acquire()
        if self.abort:
            raise Abort()
        self.clock += 1
        self.trace.append((self.clock, op['id'], label, detail))

    def run(self, ops, watchdog=20.0):
        """ops: list of (op_id, callable).  Returns when all finished."""
        threads = []
        for oid, fn in ops:
            op = {'id': oid, 'sem': threading.Semaphore(0), 'done': False, 'waiting': None, 'exc': None}
            self.ops[oid] = op

            def body(op=op, fn=fn):
                self.local.op = op
                try:
                    self.yield_point('start')
                    fn()
                except Abort:
                    pass
                except BaseException as e:
                    op['exc'] = e
                finally:
                    op['done'] = True
                    self.sem_sched.release()
            t = threading.Thread(target=body, daemon=True)
            threads.append(t)
            t.start()
        # wait until every thread reached its first yield point
        for _ in ops:
            if not self.sem_sched.acquire(timeout=watchdog):
                self.abort = True
                return False
        step = 0
        while True:
            runnable = [oid for oid, op in self.ops.items() if not op['done']]
            if not runnable:
                break
            chosen = self.chooser(tuple(runnable), step)
            self.choices.append((tuple(runnable), chosen))
            step += 1
            self.ops[chosen]['sem'].release()
            if not self.sem_sched.acquire(timeout=watchdog):
                self.abort = True
                for op in self.ops.values():
                    op['sem'].release()
                return False
        for t in threads:
            t.join(timeout=1.0)
        return True


class Env(object):
    """what the proxies need: the scheduler, the paths, copy mode"""
    sched = None
    chunk = 97


ENV = Env()


def _stamp(path):
    """give a file written by the subject the logical time as mtime"""
    s = ENV.sched
    if s is None:
        return
    try:
        os.utime(path, ns=(s.clock * 10 ** 9, s.clock * 10 ** 9))
    except OSError:
        pass


class FileProxy(object):
    def __init__(self, f, path, mode):
        self._f, self._path, self._mode = f, path, mode

    def __enter__(self):
        return self

    def __exit__(self, *a):
        self.close()
        return False

    def close(self):
        if not self._f.closed:
            self._f.close()
            if 'w' in self._mode or 'a' in self._mode:
                _stamp(self._path)

    def __getattr__(self, n):
        return getattr(self._f, n)


def proxied_open(path, mode='r', *a, **k):
    s = ENV.sched
    if s is not None:
        s.yield_point('open', (os.path.basename(str(path)), mode))
    f = _real_open(path, mode, *a, **k)
    if s is not None and s.current() is not None:
        try:
            st = os.fstat(f.fileno())
            s.trace.append((s.clock, s.current()['id'], 'opened', (st.st_ino, st.st_mtime)))
        except OSError:
            pass
    return FileProxy(f, path, mode)


class OsProxy(object):
    def __init__(self):
        self.path = os.path
        self.environ = os.environ

    def __getattr__(self, n):
        return getattr(os, n)

    def stat(self, path, *a, **k):
        ENV.sched and ENV.sched.yield_point('stat', os.path.basename(str(path)))
        r = os.stat(path, *a, **k)
        s = ENV.sched
        if s is not None and s.current() is not None:
            s.trace.append((s.clock, s.current()['id'], 'stat-result', (os.path.basename(str(path)), r.st_ino, r.st_mtime)))
        return r

    def fstat(self, fd):
        ENV.sched and ENV.sched.yield_point('fstat', fd)
        r = os.fstat(fd)
        s = ENV.sched
        if s is not None and s.current() is not None:
            s.trace.append((s.clock, s.current()['id'], 'fstat-result', (r.st_ino, r.st_mtime)))
        return r

    def unlink(self, path, *a, **k):
        ENV.sched and ENV.sched.yield_point('unlink', os.path.basename(str(path)))
        return os.unlink(path, *a, **k)

    def listdir(self, path='.'):
        ENV.sched and ENV.sched.yield_point('listdir', None)
        return os.listdir(path)

    def fdopen(self, fd, mode='r', *a, **k):
        f = os.fdopen(fd, mode, *a, **k)
        path = _fd_paths.pop(fd, None)
        return FileProxy(f, path, mode) if path else f

    def rename(self, a, b):
        ENV.sched and ENV.sched.yield_point('rename', (os.path.basename(str(a)), os.path.basename(str(b))))
        return os.rename(a, b)


_fd_paths = {}


class TempfileProxy(object):
    def __getattr__(self, n):
        return getattr(tempfile, n)

    def mkstemp(self, *a, **k):
        ENV.sched and ENV.sched.yield_point('mkstemp', None)
        fd, path = tempfile.mkstemp(*a, **k)
        _fd_paths[fd] = path
        return fd, path


class PickleProxy(object):
    def __getattr__(self, n):
        return getattr(pickle, n)

    def dump(self, data, f, *a, **k):
        ENV.sched and ENV.sched.yield_point('pickle.dump', None)
        r = pickle.dump(data, f, *a, **k)
        f.flush()
        if getattr(f, '_path', None):
            _stamp(f._path)
        return r

    def load(self, f, *a, **k):
        ENV.sched and ENV.sched.yield_point('pickle.load', None)
        return pickle.load(f, *a, **k)


def _chunked_copy2(src, dst):
    """copy2 as other processes can observe it: the destination grows chunk by chunk"""
    s = ENV.sched
    s and s.yield_point('copy-open', os.path.basename(dst))
    with _real_open(src, 'rb') as fi, _real_open(dst, 'wb') as fo:
        while True:
            b = fi.read(ENV.chunk)
            if not b:
                break
            s and s.yield_point('copy-chunk', len(b))
            fo.write(b)
            fo.flush()
            _stamp(dst)
    s and s.yield_point('copystat', os.path.basename(dst))
    shutil.copystat(src, dst)
    return dst


class ShutilProxy(object):
    def __getattr__(self, n):
        return getattr(shutil, n)

    def move(self, src, dst):
        s = ENV.sched
        if s is None:
            return shutil.move(src, dst)
        if os.stat(os.path.dirname(src)).st_dev == os.stat(os.path.dirname(dst)).st_dev:
            s.yield_point('rename', (os.path.basename(src), os.path.basename(dst)))
            s.trace.append((s.clock, s.current()['id'] if s.current() else None, 'publish', os.path.basename(dst)))
            return shutil.move(src, dst)
        # different file systems: real shutil.move falls back to copy_function + unlink
        r = shutil.move(src, dst, copy_function=_chunked_copy2)
        s.trace.append((s.clock, s.current()['id'] if s.current() else None, 'publish', os.path.basename(dst)))
        return r


def install(cachestore_module):
    cachestore_module.os = OsProxy()
    cachestore_module.shutil = ShutilProxy()
    cachestore_module.tempfile = TempfileProxy()
    cachestore_module.pickle = PickleProxy()
    cachestore_module.open = proxied_open
