"""Sanitizer build of /repo's C code (per check run, from the working tree) and helpers to run the built tools."""
import os, sys, re, shutil, subprocess, tempfile, atexit, time
from . import core, cbuild

_B = {}


def build(sanitize=True):
    """builds once per process tree into /verif/.build/<pid>; removed at exit"""
    key = 'san' if sanitize else 'plain'
    if key in _B:
        return _B[key]
    root = os.path.join(core.VERIF, '.build')
    os.makedirs(root, exist_ok=True)
    # remove stale build directories of dead processes
    for d in os.listdir(root):
        m = re.match(r'^(\d+)-', d)
        if m and not os.path.exists('/proc/%s' % m.group(1)):
            shutil.rmtree(os.path.join(root, d), ignore_errors=True)
    outdir = os.path.join(root, '%d-%s' % (os.getpid(), key))
    info = cbuild.build(outdir, repo=core.REPO, sanitize=sanitize, jobs=core.NPROC)
    pid = os.getpid()

    def rm():
        if os.getpid() == pid:
            shutil.rmtree(outdir, ignore_errors=True)
    atexit.register(rm)
    _B[key] = info
    return info


def env_for(info, logdir=None, extra=None):
    e = dict(os.environ)
    e.update(info.get('env') or {})
    e['ASAN_OPTIONS'] = 'detect_leaks=0:abort_on_error=0:symbolize=1:allocator_may_return_null=1'
    e['UBSAN_OPTIONS'] = 'print_stacktrace=1:halt_on_error=0'
    e['G_DEBUG'] = ''
    e.pop('G_MESSAGES_DEBUG', None)
    e['LC_ALL'] = 'C'
    if extra:
        e.update(extra)
    return e


UBSAN_RE = re.compile(r'^(\S+?):(\d+):(\d+): runtime error: (.*)$', re.M)
FRAME_RE = re.compile(r'^\s*#\d+ 0x[0-9a-f]+ in (\S+) (\S+?):(\d+)', re.M)


def sanitizer_reports(stderr):
    """-> list of (signature, text) ; signature = kind + innermost repository function, line numbers stripped"""
    out = []
    for m in UBSAN_RE.finditer(stderr):
        msg = m.group(4)
        kind = re.sub(r'0x[0-9a-f]+', 'ADDR', msg)
        kind = re.sub(r"'[^']*'", 'T', kind)
        kind = re.sub(r'\d+', 'N', kind)[:60]
        tail = stderr[m.end():m.end() + 1500]
        fn = None
        for fm in FRAME_RE.finditer(tail):
            if '/girepository/' in fm.group(2) or '/tools/' in fm.group(2) or 'cdrv' in fm.group(2):
                fn = fm.group(1)
                break
        if fn is None:
            fn = os.path.basename(m.group(1))
        out.append(('ubsan:%s:%s' % (kind.split(' for ')[0].strip().replace(' ', '-')[:40], fn), m.group(0) + '\n' + tail[:600]))
    if 'ERROR: AddressSanitizer' in stderr:
        m = re.search(r'ERROR: AddressSanitizer: (\S+)', stderr)
        i = stderr.find('ERROR: AddressSanitizer')
        tail = stderr[i:i + 2500]
        fn = None
        for fm in FRAME_RE.finditer(tail):
            if '/girepository/' in fm.group(2) or '/tools/' in fm.group(2) or 'cdrv' in fm.group(2):
                fn = fm.group(1)
                break
        out.append(('asan:%s:%s' % (m.group(1) if m else '?', fn), tail))
    return out


def run(cmd, info, timeout=120, extra_env=None, cwd=None, input=None):
    p = subprocess.run(cmd, capture_output=True, timeout=timeout, env=env_for(info, extra=extra_env), cwd=cwd, input=input)
    return p.returncode, p.stdout.decode('utf-8', 'replace'), p.stderr.decode('utf-8', 'replace')


def compile_gir(info, gir_path, out_path, includedirs=(), timeout=300):
    cmd = [info['tools']['g-ir-compiler']]
    for d in includedirs:
        cmd += ['--includedir', d]
    cmd += [gir_path, '-o', out_path]
    return run(cmd, info, timeout=timeout)


def generate(info, typelib_path, includedirs=(), timeout=300):
    cmd = [info['tools']['g-ir-generate']]
    for d in includedirs:
        cmd += ['--includedir', d]
    cmd += [typelib_path]
    return run(cmd, info, timeout=timeout)
