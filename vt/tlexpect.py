"""Expected content of a typelib, derived independently from the GIR text (docs/gir-1.2.rnc, the format comments in
gitypelib-internal.h), and the same neutral form computed from the independent decode (vt/typelib.py).  Used by C06
(compiler output == GIR), C15 (scanner output accepted) and C09 (readers report what the blobs contain)."""
import collections, ctypes, math, struct
from . import girx

_SZ = {'gchar': ('gint8', 1), 'guchar': ('guint8', 1), 'gshort': ('gint16', 2), 'gushort': ('guint16', 2), 'gint': ('gint32', 4),
       'guint': ('guint32', 4)}
# platform integer aliases (x86-64 LP64), computed from ctypes
for _n, _ct, _signed in (('glong', ctypes.c_long, True), ('gulong', ctypes.c_ulong, False), ('gssize', ctypes.c_ssize_t, True),
                         ('gsize', ctypes.c_size_t, False), ('gintptr', ctypes.c_ssize_t, True), ('guintptr', ctypes.c_size_t, False),
                         ('off_t', ctypes.c_long, True), ('time_t', ctypes.c_long, True), ('dev_t', ctypes.c_ulong, False),
                         ('gid_t', ctypes.c_uint, False), ('pid_t', ctypes.c_int, True), ('socklen_t', ctypes.c_uint, False),
                         ('uid_t', ctypes.c_uint, False)):
    _bits = ctypes.sizeof(_ct) * 8
    _SZ[_n] = ('%sint%d' % ('g' if _signed else 'gu', _bits), ctypes.sizeof(_ct))
BASIC = {'gboolean': 'gboolean', 'gint8': 'gint8', 'guint8': 'guint8', 'gint16': 'gint16', 'guint16': 'guint16', 'gint32': 'gint32',
         'guint32': 'guint32', 'gint64': 'gint64', 'guint64': 'guint64', 'gfloat': 'gfloat', 'gdouble': 'gdouble', 'GType': 'GType',
         'utf8': 'utf8', 'filename': 'filename', 'gunichar': 'gunichar'}
for _k, (_v, _s) in _SZ.items():
    BASIC[_k] = _v
SCOPES = {None: 'invalid', 'call': 'call', 'async': 'async', 'notified': 'notified', 'forever': 'forever'}


class _Any(object):
    """wildcard: the GIR does not determine this value"""
    def __eq__(self, other):
        return True

    def __ne__(self, other):
        return False

    def __repr__(self):
        return '<unspecified>'


ANY = _Any()
TOP_KINDS = {'function': 'function', 'callback': 'callback', 'record': 'struct', 'glib:boxed': 'boxed', 'enumeration': 'enum', 'bitfield': 'flags',
             'class': 'object', 'interface': 'interface', 'constant': 'constant', 'union': 'union'}


class Expect(object):
    def __init__(self, root, includes=None):
        self.root = root
        self.ns = girx.namespace(root)
        self.name = self.ns.get('name')
        self.includes = includes or {}
        self.aliases = {}
        for nsname, r in [(self.name, root)] + list(self.includes.items()):
            n = girx.namespace(r)
            if n is None:
                continue
            for a in n.findall('alias'):
                t = girx.type_of(a)
                if t is not None:
                    self.aliases['%s.%s' % (n.get('name'), a.get('name'))] = (n.get('name'), t)

    # ---- types ------------------------------------------------------------------------------------------
    def qualify(self, name, nsname):
        return name if '.' in name else '%s.%s' % (nsname, name)

    def type(self, t, nsname=None, depth=0):
        nsname = nsname or self.name
        if t is None:
            return None
        if t.tag == 'array':
            nm = t.get('name')
            kind = {None: 'c', 'GLib.Array': 'array', 'GLib.PtrArray': 'ptr_array', 'GLib.ByteArray': 'byte_array'}.get(nm, 'c')
            kids = [c for c in t.children if c.tag in ('type', 'array')]
            elem = self.type(kids[0], nsname, depth + 1) if kids else ['basic', 'void', True]
            if kind == 'byte_array':
                # the element type of a GByteArray carries no information: the compiler deliberately leaves it out of the key
                # under which it shares type blobs (girnode.c serialize_type), so whichever spelling came first is stored
                elem = ANY
            length = t.get('length')
            size = t.get('fixed-size')
            zt = t.get('zero-terminated')
            if kind == 'c':
                if zt is not None:
                    zterm = zt == '1'
                else:
                    zterm = length is None and size is None
            else:
                zterm, length, size = False, None, None
            return ['array', kind, zterm, int(length) if length is not None and kind == 'c' else None,
                    int(size) if size is not None and kind == 'c' else None, elem]
        if t.tag == 'varargs':
            return ['varargs']
        nm = t.get('name')
        if nm is None:
            return ['unnamed']
        return self.named_type(nm, t, nsname, depth)

    def named_type(self, nm, t, nsname, depth):
        if nm == 'none':
            return ['basic', 'void', False]
        if nm == 'gpointer':
            return ['basic', 'void', True]
        if nm in BASIC:
            return ['basic', BASIC[nm], None]
        kids = [c for c in t.children if c.tag in ('type', 'array')] if t is not None else []
        if nm in ('GLib.List', 'GLib.SList') or (nsname == 'GLib' and nm in ('List', 'SList')):
            elem = self.type(kids[0], nsname, depth + 1) if kids else ['basic', 'void', True]
            return ['glist' if nm.endswith('.List') or nm == 'List' else 'gslist', elem]
        if nm == 'GLib.HashTable' or (nsname == 'GLib' and nm == 'HashTable'):
            ks = [self.type(k, nsname, depth + 1) for k in kids[:2]]
            while len(ks) < 2:
                ks.append(['basic', 'void', True])
            return ['ghash'] + ks
        if nm == 'GLib.Error' or (nsname == 'GLib' and nm == 'Error'):
            return ['error']
        q = self.qualify(nm, nsname)
        seen = set()
        while q in self.aliases and q not in seen and depth < 20:
            seen.add(q)
            ans, at = self.aliases[q]
            if at.tag == 'array':
                return self.type(at, ans, depth + 1)
            an = at.get('name')
            if an is None:
                break
            r = self.named_type(an, at, ans, depth + 1)
            if r[0] != 'iface':
                return r
            q = r[1]
        return ['iface', q]

    # ---- callables ----------------------------------------------------------------------------------------
    def transfer(self, v):
        return {'none': 'nothing', 'container': 'container', 'full': 'everything', None: 'nothing'}.get(v, 'nothing')

    def arg(self, p):
        direction = p.get('direction') or 'in'
        nullable = p.get('nullable') == '1'
        optional = p.get('optional') == '1'
        if p.get('allow-none') == '1':
            # legacy attribute: optional for out, nullable for in; for inout the two producers disagree
            if direction == 'out':
                optional = True
            elif direction == 'in':
                nullable = True
            else:
                nullable = nullable or ANY
                optional = optional or ANY
        return {'name': p.get('name'), 'direction': direction,
                'caller_allocates': (p.get('caller-allocates') == '1') if direction == 'out' else False,
                'nullable': nullable, 'optional': optional, 'transfer': self.transfer(p.get('transfer-ownership')),
                'scope': SCOPES.get(p.get('scope'), 'invalid'), 'closure': int(p.get('closure')) if p.get('closure') is not None else -1,
                'destroy': int(p.get('destroy')) if p.get('destroy') is not None else -1, 'skip': p.get('skip') == '1',
                'type': self.type(girx.type_of(p)), 'attributes': self.attrs(p)}

    def signature(self, c):
        inst, ps = girx.params_of(c)
        rv = c.find('return-value')
        return {'args': [self.arg(p) for p in ps],
                'ret': self.type(girx.type_of(rv)) if rv is not None else ['basic', 'void', False],
                'ret_transfer': self.transfer(rv.get('transfer-ownership')) if rv is not None else 'nothing',
                'may_return_null': (rv is not None and (rv.get('nullable') == '1' or rv.get('allow-none') == '1')),
                'skip_return': rv is not None and rv.get('skip') == '1',
                'throws': c.get('throws') == '1',
                'instance_transfer': inst is not None and inst.get('transfer-ownership') == 'full',
                'ret_attributes': self.attrs(rv) if rv is not None else []}

    def attrs(self, n):
        return sorted([a.get('name'), a.get('value')] for a in n.findall('attribute')) if n is not None else []

    def visible(self, n):
        return n.get('introspectable') != '0' and n.get('shadowed-by') is None

    def fname(self, n):
        return n.get('shadows') or n.get('name')

    def function(self, f):
        return {'name': self.fname(f), 'symbol': f.get('c:identifier'), 'constructor': f.tag == 'constructor',
                'is_method': f.tag == 'method', 'throws': f.get('throws') == '1', 'deprecated': f.get('deprecated') is not None,
                'signature': self.signature(f), 'attributes': self.attrs(f)}

    def methods(self, n):
        return [self.function(m) for m in n.findall('constructor', 'function', 'method') if self.visible(m)]

    def field(self, f):
        cb = f.find('callback')
        if f.get('introspectable') == '0':
            ftype = ['basic', 'void', True]
            cb = None
        elif cb is not None:
            ftype = ['callback', self.signature(cb)]
        else:
            ftype = self.type(girx.type_of(f))
        readable = f.get('readable')
        return {'name': f.get('name'), 'readable': readable != '0', 'writable': f.get('writable') == '1',
                'bits': int(f.get('bits')) if f.get('bits') else 0, 'type': ftype, '_attributes': self.attrs(f)}

    def fields(self, n):
        return [self.field(f) for f in n.findall('field')]

    def prop(self, p):
        owner = p.parent
        mnames = set(self.fname(m) for m in owner.findall('method', 'function', 'constructor') if self.visible(m)) if owner is not None else set()
        setter, getter = p.get('setter'), p.get('getter')
        if setter is not None and setter not in mnames:
            setter = ANY        # dangling accessor: not a valid GIR, nothing to expect
        if getter is not None and getter not in mnames:
            getter = ANY
        return self._prop(p, setter, getter)

    def _prop(self, p, setter, getter):
        return {'name': p.get('name'), 'readable': p.get('readable') != '0', 'writable': p.get('writable') == '1',
                'construct': p.get('construct') == '1', 'construct_only': p.get('construct-only') == '1',
                'transfer': self.transfer(p.get('transfer-ownership')), 'type': self.type(girx.type_of(p)),
                'deprecated': p.get('deprecated') is not None, 'setter': setter, 'getter': getter, 'attributes': self.attrs(p)}

    def signal(self, s):
        when = s.get('when')
        when = when.lower() if when else when
        if when is None:
            return {'name': s.get('name'), 'run_first': ANY, 'run_last': ANY, 'run_cleanup': ANY,
                    'no_recurse': s.get('no-recurse') == '1', 'detailed': s.get('detailed') == '1', 'action': s.get('action') == '1',
                    'no_hooks': s.get('no-hooks') == '1', 'signature': self.signature(s), 'attributes': self.attrs(s)}
        return {'name': s.get('name'), 'run_first': when == 'first', 'run_last': when == 'last', 'run_cleanup': when == 'cleanup',
                'no_recurse': s.get('no-recurse') == '1', 'detailed': s.get('detailed') == '1', 'action': s.get('action') == '1',
                'no_hooks': s.get('no-hooks') == '1', 'signature': self.signature(s), 'attributes': self.attrs(s)}

    def vfunc(self, v):
        return {'name': v.get('name'), 'invoker': v.get('invoker'), 'throws': v.get('throws') == '1', 'signature': self.signature(v),
                'attributes': self.attrs(v)}

    def members(self, n, tag, fn):
        return [fn(x) for x in n.findall(tag) if self.visible(x)]

    def entry(self, n):
        kind = TOP_KINDS[n.tag]
        e = {'kind': kind, 'name': self.fname(n) if n.tag == 'function' else (n.get('name') or n.get('glib:name')), 'attributes': self.attrs(n),
             'deprecated': n.get('deprecated') is not None}
        if kind == 'function':
            e.update(self.function(n))
            e['kind'] = kind
        elif kind == 'callback':
            e['signature'] = self.signature(n)
        elif kind in ('struct', 'union'):
            e.update(gtype_name=n.get('glib:type-name'), gtype_init=n.get('glib:get-type'), fields=self.fields(n), methods=self.methods(n))
            if kind == 'struct':
                e.update(is_gtype_struct=(n.get('glib:is-gtype-struct-for') is not None or n.get('glib:is-gtype-struct') == '1'), foreign=n.get('foreign') == '1',
                         copy_func=n.get('copy-function'), free_func=n.get('free-function'))
        elif kind == 'boxed':
            e.update(gtype_name=n.get('glib:type-name'), gtype_init=n.get('glib:get-type'))
        elif kind in ('enum', 'flags'):
            vals = []
            for m in n.findall('member'):
                try:
                    v = int(m.get('value'), 0) if not (m.get('value') or '').lstrip('-').isdigit() else int(m.get('value'))
                except (TypeError, ValueError):
                    v = None
                mattrs = self.attrs(m)
                cid = m.get('c:identifier')
                if cid is None:
                    # g-ir-generate writes it the way the typelib stores it: as an attribute
                    for a in mattrs:
                        if a[0] == 'c:identifier':
                            cid = a[1]
                    mattrs = [a for a in mattrs if a[0] != 'c:identifier']
                vals.append({'name': m.get('name'), 'value32': (v & 0xffffffff) if v is not None else None, 'c_identifier': cid,
                             # values a 32-bit slot plus its unsigned flag can express; wider ones are the recorded 64-bit finding
                             'value': v if (v is not None and -2 ** 31 <= v < 2 ** 32) else ANY,
                             'attributes': mattrs})
            e.update(gtype_name=n.get('glib:type-name'), gtype_init=n.get('glib:get-type'), values=vals, error_domain=n.get('glib:error-domain'),
                     methods=self.methods(n))
        elif kind == 'object':
            e.update(gtype_name=n.get('glib:type-name'), gtype_init=n.get('glib:get-type'),
                     parent=self.qualify(n.get('parent'), self.name) if n.get('parent') else None,
                     gtype_struct=self.qualify(n.get('glib:type-struct'), self.name) if n.get('glib:type-struct') else None,
                     abstract=n.get('abstract') == '1', fundamental=n.get('glib:fundamental') == '1', final=n.get('final') == '1',
                     interfaces=[self.qualify(i.get('name'), self.name) for i in n.findall('implements')],
                     fields=self.fields(n), properties=self.members(n, 'property', self.prop), methods=self.methods(n),
                     signals=self.members(n, 'glib:signal', self.signal), vfuncs=self.members(n, 'virtual-method', self.vfunc),
                     constants=[self.constant(c) for c in n.findall('constant') if self.visible(c)],
                     ref_func=n.get('glib:ref-func'), unref_func=n.get('glib:unref-func'), set_value_func=n.get('glib:set-value-func'),
                     get_value_func=n.get('glib:get-value-func'))
        elif kind == 'interface':
            e.update(gtype_name=n.get('glib:type-name'), gtype_init=n.get('glib:get-type'),
                     gtype_struct=self.qualify(n.get('glib:type-struct'), self.name) if n.get('glib:type-struct') else None,
                     prerequisites=[self.qualify(i.get('name'), self.name) for i in n.findall('prerequisite')],
                     properties=self.members(n, 'property', self.prop), methods=self.methods(n),
                     signals=self.members(n, 'glib:signal', self.signal), vfuncs=self.members(n, 'virtual-method', self.vfunc),
                     constants=[self.constant(c) for c in n.findall('constant') if self.visible(c)])
        elif kind == 'constant':
            e.update(self.constant(n))
            e['kind'] = kind
        return e

    def constant(self, c):
        t = self.type(girx.type_of(c))
        v = c.get('value')
        val = v
        if t and t[0] == 'basic':
            tn = t[1]
            if tn == 'gboolean':
                val = True if v == 'true' else (False if v == 'false' else ANY)
            elif tn in ('gfloat', 'gdouble'):
                try:
                    val = float(v)
                    if tn == 'gfloat':       # stored as a 32-bit float
                        try:
                            val = struct.unpack('<f', struct.pack('<f', val))[0]
                        except OverflowError:
                            val = math.copysign(math.inf, val)
                except (TypeError, ValueError):
                    val = None
            elif tn in ('utf8', 'filename'):
                val = v
            elif tn.startswith('gint') or tn.startswith('guint') or tn == 'gunichar':
                try:
                    iv = int(v)
                    bits = {'gint8': 8, 'guint8': 8, 'gint16': 16, 'guint16': 16, 'gint32': 32, 'guint32': 32, 'gint64': 64, 'guint64': 64, 'gunichar': 32}[tn]
                    iv &= (1 << bits) - 1
                    if tn.startswith('gint') and iv >= 1 << (bits - 1):
                        iv -= 1 << bits
                    val = iv
                except (TypeError, ValueError, KeyError):
                    val = None
        return {'name': c.get('name'), 'type': t, 'value': val, 'deprecated': c.get('deprecated') is not None, 'attributes': self.attrs(c)}

    def model(self):
        entries = []
        for n in self.ns.children:
            if n.tag in TOP_KINDS and self.visible(n):
                entries.append(self.entry(n))
        deps = sorted('%s-%s' % (i.get('name'), i.get('version')) for i in self.root.findall('include'))
        return {'namespace': self.name, 'nsversion': self.ns.get('version'), 'shared_library': self.ns.get('shared-library'),
                'c_prefix': self.ns.get('c:identifier-prefixes') or self.ns.get('c:prefix'), 'dependencies': deps, 'entries': entries}


# ---- neutral form of a decoded typelib ---------------------------------------------------------------------
class FromTypelib(object):
    def __init__(self, tl):
        self.tl = tl
        self.ns = tl.header['namespace']

    def type(self, t):
        k = t['kind']
        if k == 'basic':
            if t['tag_name'] == 'void':
                return ['basic', 'void', bool(t['pointer'])]
            return ['basic', t['tag_name'], None]
        if k == 'interface':
            tn, tns = t.get('target_name'), t.get('target_namespace') or self.ns
            return ['iface', '%s.%s' % (tns, tn)]
        if k == 'array':
            return ['array', t['array_type_name'], bool(t['zero_terminated']), t.get('length') if t['has_length'] else None,
                    t.get('size') if t['has_size'] else None, self.type(t['element'])]
        if k == 'param':
            return [t['tag_name']] + [self.type(p) for p in t['params']]
        if k == 'error':
            return ['error']
        return [k]

    def attrs(self, d):
        return sorted([k, v] for k, v in self.tl.attributes_of(d['_offset'])) if d is not None and '_offset' in d else []

    def arg(self, a):
        return {'name': a['name'], 'direction': a['direction'], 'caller_allocates': bool(a['caller_allocates']), 'nullable': bool(a['nullable']),
                'optional': bool(a['optional']), 'transfer': a['transfer'], 'scope': a['scope_name'], 'closure': a['closure'], 'destroy': a['destroy'],
                'skip': bool(a['skip']), 'type': self.type(a['arg_type']), 'attributes': self.attrs(a)}

    def signature(self, s):
        return {'args': [self.arg(a) for a in s['arguments']], 'ret': self.type(s['return_type']), 'ret_transfer': s['return_transfer'],
                'may_return_null': bool(s['may_return_null']), 'skip_return': bool(s['skip_return']), 'throws': bool(s['throws']),
                'instance_transfer': bool(s['instance_transfer_ownership']), 'ret_attributes': sorted([k, v] for k, v in self.tl.attributes_of(s['_offset']))}

    def function(self, f, in_type=False):
        return {'name': f['name'], 'symbol': f['symbol'], 'constructor': bool(f['constructor']),
                'is_method': (not f['is_static'] and not f['constructor']) if in_type else False,
                'throws': bool(f['throws']), 'deprecated': bool(f['deprecated']),
                'signature': self.signature(f['signature']), 'attributes': self.attrs(f)}

    def field(self, f):
        if f.get('has_embedded_type'):
            ftype = ['callback', self.signature(f['embedded']['signature'])]
        else:
            ftype = self.type(f['type'])
        return {'name': f['name'], 'readable': bool(f['readable']), 'writable': bool(f['writable']), 'bits': f['bits'], 'type': ftype}

    def prop(self, p, methods):
        def mname(i):
            return methods[i]['name'] if i != 0x3ff and i < len(methods) else None
        return {'name': p['name'], 'readable': bool(p['readable']), 'writable': bool(p['writable']), 'construct': bool(p['construct']),
                'construct_only': bool(p['construct_only']), 'transfer': p['transfer'], 'type': self.type(p['type']),
                'deprecated': bool(p['deprecated']), 'setter': mname(p['setter']), 'getter': mname(p['getter']), 'attributes': self.attrs(p)}

    def signal(self, s):
        return {'name': s['name'], 'run_first': bool(s['run_first']), 'run_last': bool(s['run_last']), 'run_cleanup': bool(s['run_cleanup']),
                'no_recurse': bool(s['no_recurse']), 'detailed': bool(s['detailed']), 'action': bool(s['action']), 'no_hooks': bool(s['no_hooks']),
                'signature': self.signature(s['signature']), 'attributes': self.attrs(s)}

    def vfunc(self, v, methods):
        inv = methods[v['invoker']]['name'] if v['invoker'] != 0x3ff and v['invoker'] < len(methods) else None
        return {'name': v['name'], 'invoker': inv, 'throws': bool(v['throws']), 'signature': self.signature(v['signature']), 'attributes': self.attrs(v)}

    def constant(self, c):
        return {'name': c['name'], 'type': self.type(c['type']), 'value': c['value'], 'deprecated': bool(c['deprecated']), 'attributes': self.attrs(c)}

    def dirname(self, idx):
        if not idx:
            return None
        e = self.tl.entry_header(idx)
        if e['local']:
            return '%s.%s' % (self.ns, e['name'])
        return '%s.%s' % (e.get('namespace'), e['name'])

    def entry(self, e):
        b = e['blob']
        kind = e['blob_type_name']
        out = {'kind': kind, 'name': e['name'], 'attributes': self.attrs(b), 'deprecated': bool(b.get('deprecated'))}
        if kind == 'function':
            out.update(self.function(b))
            out['kind'] = kind
        elif kind == 'callback':
            out['signature'] = self.signature(b['signature'])
        elif kind in ('struct', 'union'):
            out.update(gtype_name=b['gtype_name'], gtype_init=b['gtype_init'], fields=[self.field(f) for f in b['fields']],
                       methods=[self.function(m, True) for m in b['methods']])
            if kind == 'struct':
                out.update(is_gtype_struct=bool(b['is_gtype_struct']), foreign=bool(b['foreign']), copy_func=b.get('copy_func'), free_func=b.get('free_func'))
        elif kind == 'boxed':
            out.update(gtype_name=b.get('gtype_name'), gtype_init=b.get('gtype_init'))
        elif kind in ('enum', 'flags'):
            vals = []
            for v in b['values']:
                at = dict(self.tl.attributes_of(v['_offset']))
                vals.append({'name': v['name'], 'value32': v['value'] & 0xffffffff, 'value': v['effective_value'], 'c_identifier': at.pop('c:identifier', None),
                             'attributes': sorted([k, v] for k, v in at.items())})
            out.update(gtype_name=b['gtype_name'], gtype_init=b['gtype_init'], values=vals, error_domain=b.get('error_domain'),
                       methods=[self.function(m, True) for m in b['methods']])
        elif kind == 'object':
            ms = b['methods']
            out.update(gtype_name=b['gtype_name'], gtype_init=b['gtype_init'], parent=self.dirname(b['parent']),
                       gtype_struct=self.dirname(b['gtype_struct']), abstract=bool(b['abstract']), fundamental=bool(b['fundamental']),
                       final=bool(b.get('final_')), interfaces=[self.dirname(i) for i in b['interfaces']],
                       fields=[self.field(f) for f in b['fields']], properties=[self.prop(p, ms) for p in b['properties']],
                       methods=[self.function(m, True) for m in ms], signals=[self.signal(s) for s in b['signals']],
                       vfuncs=[self.vfunc(v, ms) for v in b['vfuncs']], constants=[self.constant(c) for c in b['constants']],
                       ref_func=b.get('ref_func'), unref_func=b.get('unref_func'), set_value_func=b.get('set_value_func'),
                       get_value_func=b.get('get_value_func'))
        elif kind == 'interface':
            ms = b['methods']
            out.update(gtype_name=b['gtype_name'], gtype_init=b['gtype_init'], gtype_struct=self.dirname(b['gtype_struct']),
                       prerequisites=[self.dirname(i) for i in b['prerequisites']], properties=[self.prop(p, ms) for p in b['properties']],
                       methods=[self.function(m, True) for m in ms], signals=[self.signal(s) for s in b['signals']],
                       vfuncs=[self.vfunc(v, ms) for v in b['vfuncs']], constants=[self.constant(c) for c in b['constants']])
        elif kind == 'constant':
            out.update(self.constant(b))
            out['kind'] = kind
        return out

    def model(self):
        tl = self.tl
        entries = [self.entry(e) for e in tl.entries if e['local']]
        h = tl.header
        return {'namespace': h['namespace'], 'nsversion': h['nsversion'], 'shared_library': h['shared_library'], 'c_prefix': h['c_prefix'],
                'dependencies': sorted(h.get('dependencies_list') or []), 'entries': entries}


def diff(a, b, path=''):
    """first difference between expected a and decoded b (dict/list trees)"""
    if a == b:
        return None
    if isinstance(a, dict) and isinstance(b, dict):
        for k in a:
            if k.startswith('_'):
                continue
            if k not in b:
                return '%s: key %s missing in typelib model' % (path, k)
            d = diff(a[k], b[k], '%s.%s' % (path, k))
            if d:
                return d
        return None
    if isinstance(a, list) and isinstance(b, list):
        if len(a) != len(b):
            na = [x.get('name') if isinstance(x, dict) else x for x in a]
            nb = [x.get('name') if isinstance(x, dict) else x for x in b]
            return '%s: %d items in GIR %r, %d in typelib %r' % (path, len(a), na[:12], len(b), nb[:12])
        for i, (x, y) in enumerate(zip(a, b)):
            nm = x.get('name') if isinstance(x, dict) else None
            d = diff(x, y, '%s[%s]' % (path, nm if nm is not None else i))
            if d:
                return d
        return None
    if isinstance(a, float) and isinstance(b, float) and math.isnan(a) and math.isnan(b):
        return None
    return '%s: GIR says %r, typelib has %r' % (path, a, b)


def _child_attributes(e):
    out = []
    for k in ('fields', 'properties', 'values'):
        for c in e.get(k) or []:
            out.extend(c.get('attributes') or [])
            out.extend(c.get('_attributes') or [])
    return out


def classify_member_attributes(e, g):
    """girparser.c attaches <attribute> children of <field>, <property> and <member> to the containing type.
    -> True when the attribute differences of this entry are explained by exactly that; the attribute lists are then
    neutralised so that the remaining comparison goes on"""
    child = _child_attributes(e)
    if not child:
        return False
    exp_parent = dict(e.get('attributes') or [])
    got_parent = dict(g.get('attributes') or [])
    childd = collections.defaultdict(set)
    for k, v in child:
        childd[k].add(v)
    explained = True
    for k, v in got_parent.items():
        if exp_parent.get(k) == v or v in childd.get(k, ()):
            continue
        explained = False
    for k, v in exp_parent.items():
        if k not in got_parent:
            explained = False
    if not explained:
        return False
    differs = sorted(got_parent.items()) != sorted(exp_parent.items())
    for k in ('properties', 'values'):
        for c, gc in zip(e.get(k) or [], g.get(k) or []):
            if c.get('attributes') and not gc.get('attributes'):
                differs = True
                gc['attributes'] = c['attributes']
    if differs:
        g['attributes'] = e.get('attributes') or []
    return differs


def classify_ret_attributes(e, g):
    """<attribute> children of the <return-value> of virtual methods and callbacks are not stored (girnode.c registers
    the result node for attributes only for functions and signals)"""
    found = False
    pairs = []
    if e.get('kind') == 'callback':
        pairs.append((e.get('signature'), g.get('signature')))
    for ve, vg in zip(e.get('vfuncs') or [], g.get('vfuncs') or []):
        pairs.append((ve.get('signature'), vg.get('signature')))
    for fe, fg in zip(e.get('fields') or [], g.get('fields') or []):
        if isinstance(fe.get('type'), list) and fe['type'] and fe['type'][0] == 'callback' and isinstance(fg.get('type'), list) and fg['type'][0] == 'callback':
            pairs.append((fe['type'][1], fg['type'][1]))
    for se, sg in pairs:
        if se and sg and se.get('ret_attributes') and not sg.get('ret_attributes'):
            sg['ret_attributes'] = se['ret_attributes']
            found = True
    return found


def arrays_with_both(e, acc):
    """signatures (zero-terminated, length index, element) of the arrays of an expected model that carry length AND fixed size"""
    if isinstance(e, dict):
        for v in e.values():
            arrays_with_both(v, acc)
    elif isinstance(e, list):
        if len(e) == 6 and e[0] == 'array' and e[3] is not None and e[4] is not None and e[3] is not ANY and e[4] is not ANY:
            acc.add(repr((e[2], e[3], e[5])))
        for x in e:
            arrays_with_both(x, acc)
    return acc


def classify_array_slot(e, g, shared=frozenset()):
    """ArrayTypeBlob keeps the length parameter index and the fixed size in one union ('dimensions'): an array that has both in
    the GIR ((array length=n fixed-size=4)) is stored with the length and the has_size flag, so the size read back is the
    length index.  -> True when such an array was found (its size is then neutralised so that the comparison goes on)"""
    found = False
    if isinstance(e, dict) and isinstance(g, dict):
        for k in e:
            if k in g and classify_array_slot(e[k], g[k], shared):
                found = True
    elif isinstance(e, list) and isinstance(g, list):
        if len(e) == 6 and len(g) == 6 and e[0] == 'array' and g[0] == 'array' and e[3] is not None and e[4] is not None and e[3] is not ANY and e[4] is not ANY:
            if g[4] != e[4] and g[3] == e[3]:
                g[4] = e[4]
                found = True
        elif len(e) == 6 and len(g) == 6 and e[0] == 'array' and g[0] == 'array' and e[3] is not None and e[4] is None and g[3] == e[3] and g[4] == e[3] \
                and repr((e[2], e[3], e[5])) in shared:
            # a length-only array shares its type blob (the sharing key names the length only) with such an array of the
            # same namespace and inherits the has_size flag
            g[4] = None
            found = True
        for x, y in zip(e, g):
            if classify_array_slot(x, y, shared):
                found = True
    return found


def compare(exp, got):
    """-> list of differences (entry by entry, order of entries is free)"""
    out = []
    for k in ('namespace', 'nsversion', 'shared_library', 'dependencies'):
        if exp[k] != got[k]:
            out.append(('header:' + k, 'header %s: GIR %r, typelib %r' % (k, exp[k], got[k])))
    ge = collections.defaultdict(list)
    for e in got['entries']:
        ge[e['name']].append(e)
    ee = collections.defaultdict(list)
    for e in exp['entries']:
        ee[e['name']].append(e)
    shared = set()
    for e in exp['entries']:
        arrays_with_both(e, shared)
    for nm, es in ee.items():
        if nm not in ge:
            out.append(('entry-missing:' + es[0]['kind'], 'entry %s (%s) of the GIR is not in the typelib' % (nm, es[0]['kind'])))
            continue
        if len(es) != 1 or len(ge[nm]) != 1:
            if len(es) != len(ge[nm]):
                out.append(('entry-count', 'entry %s: %d in GIR, %d in typelib' % (nm, len(es), len(ge[nm]))))
            continue
        if classify_member_attributes(es[0], ge[nm][0]):
            out.append(('attributes:member-attached-to-parent', 'entry %s: <attribute>s of its fields/properties/members are stored on the %s itself' % (nm, es[0]['kind'])))
        if classify_ret_attributes(es[0], ge[nm][0]):
            out.append(('attributes:return-value-of-vfunc-or-callback', 'entry %s: <attribute>s of the return value of a virtual method / callback are not in the typelib' % nm))
        if classify_array_slot(es[0], ge[nm][0], shared):
            out.append(('array:length-and-fixed-size-share-one-slot', 'entry %s: an array with both length= and fixed-size= is stored with the length only; its fixed size reads back as the length index' % nm))
        d = diff(es[0], ge[nm][0], nm)
        if d:
            key = d.split(':')[0]
            import re
            key = re.sub(r'\[[^\]]*\]', '[]', key)
            key = '.'.join(key.split('.')[1:]) or 'kind'
            out.append(('entry:%s:%s' % (es[0]['kind'], key), d))
    for nm in ge:
        if nm not in ee:
            out.append(('entry-extra:' + ge[nm][0]['kind'], 'typelib entry %s (%s) is not an introspectable element of the GIR' % (nm, ge[nm][0]['kind'])))
    return out
