#!/bin/sh
# runs every seeded change against /repo itself (apply, quick tier of its check, restore) and records the verdict line
cd "$(dirname "$0")/.."
for d in seeded/C*-*; do
  id=$(basename $d); chk=$(echo $id | cut -d- -f1)
  out=$(SEEDRUN_LINES=1 tools/seedrun.sh $id $chk 2>&1 | tail -1 | cut -c1-200)
  first=$(SEEDRUN_LINES=40 true)
  echo "$id $out"
  echo "$out" > $d/verdict.txt
done
git -C /repo status --short | head -3
