#!/usr/bin/env python3
"""validate MANIFEST.json and evidence/*.json against the schemas (run with python3-vt, which has jsonschema)."""
import json, sys, glob, os
import jsonschema
HERE = os.path.dirname(os.path.dirname(os.path.abspath(__file__)))
ok = True
m = json.load(open(HERE + '/MANIFEST.json'))
jsonschema.validate(m, json.load(open('/root/.vp/MANIFEST.schema.json')))
es = json.load(open('/root/.vp/EVIDENCE.schema.json'))
for c in m['checks']:
    p = c['evidence_file']
    if not os.path.exists(p):
        print('MISSING', p); ok = False; continue
    try:
        jsonschema.validate(json.load(open(p)), es)
    except jsonschema.ValidationError as e:
        print('INVALID', p, e.message[:200]); ok = False
ids = [c['property_id'] for c in m['checks']] + [n['property_id'] for n in m.get('not_applicable', [])]
assert sorted(ids) == ['C%02d' % i for i in range(1, 21)], ids
print('manifest ok; evidence', 'ok' if ok else 'PROBLEMS')
sys.exit(0 if ok else 1)
