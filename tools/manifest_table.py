ENGINES = [
    {"name": "pyscan", "path": "vt/", "serves_properties": ["C01", "C02", "C03", "C04", "C05", "C07", "C10", "C11", "C12", "C13", "C16", "C19", "C20"],
     "kind_free_text": "runtime monitoring of the real Python scanner modules imported from /repo's working tree: recorded events judged by independent reference models, icontract invariants on live objects"},
]
NOTES = "All checks: ./check <id> --tier quick|thorough [--seed N]; VERIF_SEED/VERIF_TIER honoured. Exit 0 held / 1 VIOLATION / 2 INCONCLUSIVE. See DESIGN.md."

add('C20', 'pyscan', 'runtime monitoring: generated XMLWriter operation sequences, output judged by two independent XML parsers against the reference tree + icontract invariant on the live writer',
    'held on the executions produced: every generated operation sequence (incl. exceptions inside nested tagcontexts, wrapped/unwrapped attribute lists, whitespace on/off) produced a document that expat and minidom parse back to exactly the reference tree; live invariant _indent==unit*len(stack) after every public call',
    'trusted: expat/minidom; names restricted to NCNames; XML-1.0 Char alphabet only', 'DESIGN.md 4 C20')

add('C19', 'pyscan', 'runtime monitoring: icontract postcondition (reference model without regexes) on the real resolve_from_ldd_output + harness oracle for the SystemExit path + real subprocess path through resolve_shlibs/ldd_wrapper and libtool archives',
    'held on the executions produced: for every generated listing/request list respecting the side condition the real function returned exactly the reference files or raised SystemExit naming every unresolved library; upstream shlibs tests re-run with the contract on',
    'trusted: the 20-line reference predicate; listings use LF/CRLF and blank/tab separators; names without "/"', 'DESIGN.md 4 C19')

add('C13', 'pyscan', 'runtime monitoring: generated headers driven through the real scanner passes (stand-in C front end), emitted GIR judged by a model-derived reference; icontract postcondition on Transformer._enum_common_prefix',
    'held on the executions produced: every enum/flags/constant of every generated header was found exactly once with the expected kind, member order, identifiers, exact values, whole-word-stripped names, type and in-range value; 5 recorded known findings (unsigned constant types that are never wrapped)',
    'trusted: stand-in C parser (reproduces 8 upstream expected GIRs byte for byte), stub GLib GIR; signed constants generated in range', 'DESIGN.md 4 C13')

add('C10', 'pyscan', 'runtime monitoring: block models rendered in random layouts and parsed by the real GtkDocCommentBlockParser; parsed tree, part positions, diagnostics (recorded at MessageLogger.log) and writer round trip judged against the model; upstream test vectors replayed',
    'held on the executions produced: every rendering of every model parsed back to the model (annotations with ordered options / key=value pairs, parameters, description, tags), strict-vocabulary blocks without any diagnostic, parts positioned on the line they were written on, write+parse a fixed point; 371 upstream vectors agree with upstream\'s expected trees',
    'trusted: model renderer (docgen.py); one blank after the asterisk; descriptions never start with "(", "@", ":" or a tag name', 'DESIGN.md 4 C10')
add('C11', 'pyscan', 'runtime monitoring: hostile comment text between two well-formed blocks through the real parse_comment_blocks; exception watcher on parse_comment_block, diagnostic recorder before the suppression test, position/caret oracle against the source text, counting oracle, --warn-error exit status through scanner_main',
    'held on the executions produced: nothing escaped and nothing raised inside the parser; neighbour blocks intact; rejected annotation fields left no annotations; every diagnostic named the file and a line of the block, quoted the real source line with the caret inside it (scope of the statement); every diagnostic counted whether displayed or not; scanner_main --warn-error failed exactly when a diagnostic was recorded',
    'trusted: mutation generators; caret check scoped to blocks whose /** stands alone and without deprecated tag-style annotations; CLI path uses the stand-in C front end', 'DESIGN.md 4 C11')

ENGINES.append({"name": "fsched", "path": "vt/fsched.py", "serves_properties": ["C18"],
     "kind_free_text": "baton scheduler + file-system-step proxies substituted into giscanner.cachestore (no repository edit): systematic and random interleavings, crash injection in a child process, real multi-process stress with an offline interval checker"})
add('C18', 'fsched', 'runtime monitoring under a controlled scheduler: every interleaving of the file-system steps of two cache operations (and random ones of three) executed against the real CacheStore, histories judged offline (version current during [call,return], completeness, no escaping exception, purge); store killed at every step; real multi-process stress with SIGKILL',
    'held on the executions produced except for 4 recorded known findings: all interleavings of every operation pair from every initial state on one and across two file systems, sampled triples, all crash points of a store, and a multi-process stress run; one defect (stat-after-open race) was found by the scheduler and fixed',
    'trusted: scheduler/proxies (yield points only between file-system calls; cross-file-system publish observable per chunk); logical clock as mtime; _get_versionhash replaced by a constant inside the scheduler workload only', 'DESIGN.md 4 C18')

add('C01', 'pyscan', 'runtime monitoring, differential: annotated callable vs baselines lacking one annotation, through the real scanner passes; GIR attributes and positioned warning events judged by a three-valued rule table (VALID/INVALID/UNSPECIFIED) written from the documentation',
    'held on the executions produced: every decided differential (VALID: documented attribute value incl. closure/destroy/length indices, caller-allocates, zero-termination, element types; INVALID: warning on the annotation\'s line and attribute unchanged) agreed with the rule table; two defects found and fixed ((not optional) clearing nullable; (closure) overridden by the name heuristic)',
    'trusted: rule table (c01.rule), stand-in C parser, stub GIRs; signals/vfuncs not generated here; combinations the documentation leaves open are not judged', 'DESIGN.md 4 C01')

add('C02', 'pyscan', 'runtime monitoring: generated un-annotated headers through the real scanner passes; emitted GIR judged against an independently written C-spelling table and the documented defaults (transfer, nullable, throws, closure/destroy/scope, fixed-size arrays)',
    'held on the executions produced (one recorded known finding: const dropped from "const void*" c:type): every spelling of the table in parameter/return/field/alias position, all generated callback/user_data/destroy/async arrangements, GError** positions, out/inout defaults',
    'trusted: vt/ctable.py, stand-in C parser, stub GIRs; defaults the documentation does not pin down (returned records, pointer-to-_Bool, user data not named *data) are not judged', 'DESIGN.md 4 C02')

add('C07', 'pyscan', 'runtime monitoring: write/read/write cycles of the real GIRWriter/GIRParser on pipeline-produced namespaces and on the repository\'s GIR files; byte comparison, model-agreement walker, built-in --reparse-validate path',
    'held on the executions produced (one recorded known finding: form feed / vertical tab in documentation gives ill-formed GIR): W1==W2==W3 byte for byte for every generated namespace, F==W1 for the 13 expected GIRs, fixed point for the 11 hand-written GIRs, read-back model equal on the API-relevant attribute list',
    'trusted: attribute allowlist of the model walker; generators of C01/C02/C13 + documentation generator', 'DESIGN.md 4 C07')

add('C12', 'pyscan', 'runtime monitoring: generated GObject-style libraries (declarations + runtime dump) through Transformer, GDumpParser (fake introspection binary copies the dump, real subprocess path), MainTransformer, GIRWriter; emitted classes/interfaces/boxed/properties/signals/vfuncs/error domains judged against the model',
    'held on the executions produced: type names, get-type, nearest known parent through hidden intermediates, resolvable interfaces/prerequisites, property flag bits 0-3 of arbitrary 32-bit words, types and defaults, signal phase/flags/types, boxed pairing, class/iface struct links both ways, instance-first vfuncs only, get-type functions removed, error domains; one defect found and fixed (quark functions absorbed by a class)',
    'trusted: synthetic dumps in gdump.c\'s format (not yet cross-checked against a real GObject runtime dump), objgen model', 'DESIGN.md 4 C12')

add('C04', 'pyscan', 'runtime monitoring: generated declaration sets under generated prefix configurations through the real scanner passes; multiset of c:identifier/c:type, nesting and names judged by an expected-public-set model with only-if conditions for methods/constructors',
    'held on the executions produced: every expected public name exactly once (moved-to copies aside), nothing foreign/hidden/undeclared, GIR names = C name minus namespace prefix minus owner prefix, methods only with matching first parameter and prefix, constructors only with prefix and return type; 8 prefix configurations incl. nested and included-namespace prefixes and accept-unprefixed',
    'trusted: judge model; underscore-named *types* not judged (statement speaks of symbols); CLI option handling not driven', 'DESIGN.md 4 C04')

add('C05', 'pyscan', 'runtime monitoring: structural closure rules (vt/girclosure.py) evaluated over every GIR the real pipeline emits for exotic and regular generated libraries, and over the repository\'s 24 GIR files, with the include closure loaded',
    'held on the executions produced: no introspectable callable/field/property/alias used an unresolved, non-introspectable, variadic, va_list, long long or long double type, lacked a transfer or a callback scope; every closure/destroy/length index in range; shadows, type-struct, accessor and invoker references mutual; thousands of demotions observed (the rules had something to decide); one data defect fixed (freetype2-2.0.gir)',
    'trusted: girclosure rules; GLib/GObject/Gio are stubs (references into them only checked for include-closure membership); skipped values not judged', 'DESIGN.md 4 C05')

add('C03', 'pyscan', 'runtime monitoring with unique tokens: generated GObject-style libraries whose comment blocks carry a unique id in doc text, Since, Deprecated and an attribute; every token found on a GIR element identifies its block (attribution) and every block is compared with its target (completeness, identifier annotations)',
    'held on the executions produced: no token on an element other than the one whose C name the block carries (decoys Class:x / Class::x / Class.x / near-miss names never matched), doc/version/deprecation/stability/attributes/skip/value/default-value/setter/getter/emitter/copy-free/ref-unref/value funcs/finish-sync-async on their targets; two defects found and fixed (emitter crash, alias version)',
    'trusted: token scheme and identity function; a vfunc with an invoker may carry the invoker\'s block; rename-to/constructor/method roles judged by C04/C05', 'DESIGN.md 4 C03')

add('C16', 'pyscan', 'runtime monitoring across fresh interpreter processes: the same generated library scanned under different PYTHONHASHSEED values, cache states (cold/warm XDG_CACHE_HOME) and input orders (comment blocks, source files, prototypes, typedef/struct order, includes); outputs compared byte for byte (modulo line numbers for order variants)',
    'held on the executions produced: every variant run produced the reference bytes (hash seeds, cold and warm cache, include order) or the reference modulo line numbers (block, file, prototype and typedef order)',
    'trusted: stand-in C parser (symbol order follows the header text); stub dependency GIRs; line numbers legitimately move with reordered input and are masked for order variants', 'DESIGN.md 4 C16')
