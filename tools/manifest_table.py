ENGINES = [
    {"name": "pyscan", "path": "vt/", "serves_properties": ["C13", "C19", "C20"],
     "kind_free_text": "runtime monitoring of the real Python scanner modules imported from /repo's working tree: recorded events judged by independent reference models, icontract invariants on live objects"},
]
NOTES = "All checks: ./check <id> --tier quick|thorough [--seed N]; VERIF_SEED/VERIF_TIER honoured. Exit 0 held / 1 VIOLATION / 2 INCONCLUSIVE. See DESIGN.md."

add('C20', 'pyscan', 'runtime monitoring: generated XMLWriter operation sequences, output judged by two independent XML parsers against the reference tree + icontract invariant on the live writer',
    'held on the executions produced: every generated operation sequence (incl. exceptions inside nested tagcontexts, wrapped/unwrapped attribute lists, whitespace on/off) produced a document that expat and minidom parse back to exactly the reference tree; live invariant _indent==unit*len(stack) after every public call',
    'trusted: expat/minidom; names restricted to NCNames; XML-1.0 Char alphabet only', 'DESIGN.md 4 C20')

add('C19', 'pyscan', 'runtime monitoring: icontract postcondition (reference model without regexes) on the real resolve_from_ldd_output + harness oracle for the SystemExit path + real subprocess path through resolve_shlibs/ldd_wrapper and libtool archives',
    'held on the executions produced: for every generated listing/request list respecting the side condition the real function returned exactly the reference files or raised SystemExit naming every unresolved library; upstream shlibs tests re-run with the contract on',
    'trusted: the 20-line reference predicate; listings use LF/CRLF and blank/tab separators; names without "/"', 'DESIGN.md 4 C19')

add('C13', 'pyscan', 'runtime monitoring: generated headers driven through the real scanner passes (stand-in C front end), emitted GIR judged by a model-derived reference; icontract postcondition on Transformer._enum_common_prefix',
    'held on the executions produced: every enum/flags/constant of every generated header was found exactly once with the expected kind, member order, identifiers, exact values, whole-word-stripped names, type and in-range value; 5 recorded known findings (unsigned constant types that are never wrapped)',
    'trusted: stand-in C parser (reproduces 8 upstream expected GIRs byte for byte), stub GLib GIR; signed constants generated in range', 'DESIGN.md 4 C13')
