"""Cross-check of the _giscanner stand-in: see vt/selftest.py"""
import sys
sys.path[:0] = ['/verif', '/verif/.deps']
from vt import selftest
for exp, ok in selftest.run():
    print(exp, 'IDENTICAL' if ok else 'DIFFERENT')
