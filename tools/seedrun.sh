#!/bin/sh
# tools/seedrun.sh <seeded-dir> <check-id>... : applies seeded/<dir>/patch.diff to /repo, runs the quick tier of the given
# checks, and restores /repo straight afterwards (never commits).  Refuses to run while a `vp run` is using /repo.
set -u
cd "$(dirname "$0")/.."
d="$1"; shift
if vp runs 2>/dev/null | grep -q "  running "; then echo "a vp run is active - not touching /repo"; exit 3; fi
if ! git -C /repo diff --quiet; then echo "/repo has local changes"; exit 3; fi
git -C /repo apply "$PWD/seeded/$d/patch.diff" || { echo "patch does not apply"; exit 3; }
trap 'git -C /repo checkout -- .' EXIT INT TERM
for id in "$@"; do
  ./check $id ${SEEDRUN_ARGS:-} 2>&1 | grep -v "^KNOWN" | cut -c1-400 | tail -${SEEDRUN_LINES:-3}
done
