#!/bin/sh
# runs the thorough tier of the given checks sequentially (for vp run); prints only verdict lines
cd "$(dirname "$0")/.."
/venv/bin/python -m pip install -q --no-index --find-links /opt/veriftools/wheels --target .deps icontract deal >/dev/null 2>&1
for id in "$@"; do
  echo "=== $id thorough"; ( time ./check $id --tier thorough --seed ${SEED:-0} ) 2>&1 | grep -v "^KNOWN" | cut -c1-600 | tail -25
done
