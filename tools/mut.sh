#!/bin/sh
# tools/mut.sh <file relative to repo> <old> <new> <check-id> [scale] [lines]
# applies a one-off mutation to a scratch copy (giscanner/ and girepository/ copied, rest symlinked) and runs a check
set -e
rm -rf /tmp/mut && mkdir -p /tmp/mut
for e in /repo/*; do b=$(basename $e); case $b in giscanner|girepository|tools) cp -r $e /tmp/mut/$b;; *) ln -s $e /tmp/mut/$b;; esac; done
case "$1" in */*) f="$1";; *) f="giscanner/$1";; esac
/venv/bin/python - "$f" "$2" "$3" <<'PY'
import sys
f,old,new=sys.argv[1:4]
p='/tmp/mut/'+f
s=open(p).read()
assert old in s, 'MUTATION DID NOT APPLY'
open(p,'w').write(s.replace(old,new,1))
PY
cd /verif
VT_REPO=/tmp/mut VT_SCALE=${5:-0.2} ./check $4 | grep -v KNOWN | cut -c1-300 | head -${6:-2}
rm -rf /tmp/mut
