#!/bin/sh
# tools/mut.sh <file under giscanner/> <old> <new> <check-id> [scale] [lines]   -- apply a one-off mutation to a scratch copy and run a check
set -e
rm -rf /tmp/mut && mkdir -p /tmp/mut && cp -r /repo/giscanner /tmp/mut/ 
/venv/bin/python - "$1" "$2" "$3" <<'PY'
import sys
f,old,new=sys.argv[1:4]
p='/tmp/mut/giscanner/'+f
s=open(p).read()
assert old in s, 'MUTATION DID NOT APPLY'
open(p,'w').write(s.replace(old,new,1))
PY
cd /verif
VT_REPO=/tmp/mut VT_SCALE=${5:-0.2} ./check $4 | grep -v KNOWN | cut -c1-300 | head -${6:-2}
rm -rf /tmp/mut
