#!/bin/sh
# every seeded change against a scratch copy of /repo (VT_REPO), three at a time - indicative re-check after generator changes
# (the recorded verdicts come from tools/seedall.sh against /repo itself).  usage: tools/seedall_scratch.sh [pattern]
cd "$(dirname "$0")/.."
ls -d seeded/${1:-C}*-* | xargs -n1 basename | xargs -P 3 -I{} sh -c 'id={}; chk=$(echo $id | cut -d- -f1); out=$(SEEDRUN_LINES=1 sh tools/seedrun_scratch.sh $id $chk 2>&1 | tail -1 | cut -c1-60); echo "$id $out"'
