#!/bin/sh
# tools/collect_seed.sh <worktree> <seed-id> : copy a sub-agent's deliverables into seeded/<seed-id>, check the patch touches what meta.json says
set -e
cd "$(dirname "$0")/.."
wt="$1"; id="$2"
[ -f "$wt/_seed/meta.json" ] || { echo "$id: no meta.json yet"; exit 1; }
mkdir -p seeded/$id
cp -r $wt/_seed/* seeded/$id/ 2>/dev/null
rm -f seeded/$id/property.json seeded/$id/before.txt seeded/$id/after.txt
# regenerate the patch from the worktree itself (authoritative) and compare
git -C $wt diff -- . ':(exclude)_seed' > /tmp/collect-$$.diff
if ! cmp -s /tmp/collect-$$.diff seeded/$id/patch.diff; then echo "$id: NOTE patch.diff differs from the worktree diff; using the worktree diff"; cp /tmp/collect-$$.diff seeded/$id/patch.diff; fi
rm -f /tmp/collect-$$.diff
echo "$id: files in patch: $(grep '^+++ b/' seeded/$id/patch.diff | sed 's,+++ b/,,' | tr '\n' ' ') | meta: $(/venv/bin/python -c "import json,sys; print(json.load(open('seeded/$id/meta.json')).get('files'))")"
