#!/usr/bin/env python3
"""Regenerates MANIFEST.json from the table below (single source of truth) and validates it."""
import json, os, sys
HERE = os.path.dirname(os.path.dirname(os.path.abspath(__file__)))

# id -> (engine, technique, level text, level note, design ref)
CHECKS = {}
NOT_YET = {}

def add(pid, engine, technique, text, note, ref):
    CHECKS[pid] = dict(engine=engine, technique=technique, text=text, note=note, ref=ref)

exec(open(os.path.join(HERE, 'tools', 'manifest_table.py')).read())

ALL = ['C%02d' % i for i in range(1, 21)]
m = {
    "version": 1,
    "setup_cmd": "/venv/bin/python -m pip install -q --no-index --find-links /opt/veriftools/wheels --target /verif/.deps icontract deal",
    "hooks": {
        "guard": "GI_VERIF_HOOKS",
        "enable": "no repository hooks are needed: every monitor attaches from the harness (wrappers, module proxies, separate C drivers linked against freshly built objects)",
        "baseline_off_cmd": "cd /repo && /venv/bin/python -m pytest -ra -q -p no:cacheprovider --timeout=900 --continue-on-collection-errors",
        "source_commits": [],
        "add_only": True,
    },
    "engines": ENGINES,
    "checks": [],
    "notes": NOTES,
    "not_applicable": [],
}
for pid in ALL:
    if pid in CHECKS:
        c = CHECKS[pid]
        m["checks"].append({
            "property_id": pid,
            "quick_cmd": "./check %s --tier quick" % pid,
            "thorough_cmd": "./check %s --tier thorough" % pid,
            "evidence_file": "/verif/evidence/%s.json" % pid,
            "replay_cmd_template": "./check %s --replay {path}" % pid,
            "engine": c['engine'],
            "level_claimed": {"category": "exploration", "text": c['text'], "design_ref": c['ref']},
            "level_note": c['note'],
            "technique": c['technique'],
        })
    else:
        m["not_applicable"].append({"property_id": pid, "reason": NOT_YET.get(pid, "check not built yet in this round; planned design in DESIGN.md section 4")})
with open(os.path.join(HERE, 'MANIFEST.json'), 'w') as f:
    json.dump(m, f, indent=1)
print("wrote MANIFEST.json: %d checks, %d not_applicable" % (len(m['checks']), len(m['not_applicable'])))
