#!/bin/sh
# like seedrun.sh, but on a scratch copy (VT_REPO) - for use while a vp run occupies /repo.  Results are indicative only;
# the recorded verdicts in seeded/*/meta.json come from seedrun.sh against /repo itself.
set -u
cd "$(dirname "$0")/.."
d="$1"; shift
S=/tmp/seedscratch-$$-$(date +%N)
rm -rf $S && mkdir -p $S
for e in /repo/*; do b=$(basename $e); case $b in giscanner|girepository|tools|gir) cp -r $e $S/$b;; *) ln -s $e $S/$b;; esac; done
( cd $S && patch -p1 -s < /verif/seeded/$d/patch.diff ) || { echo "patch does not apply"; rm -rf $S; exit 3; }
for id in "$@"; do
  VT_REPO=$S ./check $id ${SEEDRUN_ARGS:-} 2>&1 | grep -v "^KNOWN" | cut -c1-400 | tail -${SEEDRUN_LINES:-3}
done
rm -rf $S
